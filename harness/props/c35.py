"""C35 — Merkle hash trees accept only genuine leaves (allmydata/hashtree.py)."""
import itertools
import os

ID = "C35"
LEAN_PROPS = "Tahoe.Props.C35"
DRIVER = "C35"
GENERATED = []
SOURCES = ["src/allmydata/hashtree.py"]
DESIGN_REF = "DESIGN.md §2 C35, Appendix A.2"
TECHNIQUE = ("Lean 4 theorems over an executable transcription of hashtree.py (CompleteBinaryTreeMixin index arithmetic, "
             "HashTree construction with padding, IncompleteHashTree.needed_hashes / set_hashes with its provisional "
             "insertion, per-level red-dot sets, set.pop() order as a parameter, rollback list, Python-int keys incl. "
             "negative aliasing, _name_hash); differential correspondence of whole set_hashes histories (outcome class "
             "and list contents after every call, set.pop() order injected), of needed_hashes / the validate-one-leaf "
             "step, HashTree construction and every index function against the real classes, with real SHA-256d hashes "
             "mapped to symbolic terms; a fixed corpus (one history per repaired defect and per seeded change) runs first")
LEVEL_TEXT = ("Proved in Lean (26 theorems, Tahoe.C35) for trees of any size, arbitrary adversarial batches (any values, any "
              "Python-int node numbers incl. stray/negative/too large, any dict order) and every set.pop() order: "
              "sound / accepted_leaf_genuine / sound_any_batch (an accepted call keeps the tree equal to the genuine tree "
              "wherever populated, under PairInjective); rollback / rollback_any_batch / every_exception_exit_restores + "
              "exits_are_named (every call that does not return normally ends in BadHashError, NotEnoughHashesError or "
              "IndexError and restores the list exactly); history_invariant (any history of accepted and rejected calls "
              "keeps size, root and agreement with the genuine tree); needed_hashes_accepted(_hashtree) / complete(_int_keys) "
              "(the genuine answer to needed_hashes plus the genuine leaf is accepted, for every list of leaves of any "
              "length incl. padding slots), needed_hashes_minimal (nothing less on the chain is ever accepted), "
              "genuine_batch_never_refuted (genuine values anywhere: accepted or NotEnoughHashesError, never refuted); "
              "order_irrelevant(_int_keys); closed_preserved / sib_closed_preserved (the tree-shape hypotheses are "
              "invariants); hashtree_is_genuine (HashTree(L) is a genuine padded Merkle tree). All for a presence test that "
              "never takes a stored hash for None — the code in /repo since fix b65c364, or the earlier code over non-empty "
              "hashes; the b\"\" and IndexError defects of the earlier code are proved counterexamples (Cfg.asIs). The model "
              "is tied to hashtree.py by a fixed corpus, exhaustive small scope (1..8 leaves), re-split / odd-length values, "
              "stray node numbers in every dict order and seeded histories to 64 leaves.")
LEVEL_NOTE = ("Lean kernel + standard axioms; model hand-written, tied by correspondence. Still assumptions: SHA-256d collision "
              "resistance, as the explicit hypothesis PairInjective (satisfied by the symbolic term instance; the real hashes "
              "are what the correspondence runs). Left open in the model: which of IndexError / BadHashError / "
              "NotEnoughHashesError a batch with a negative key written into an empty slot raises (pop-order dependent; "
              "rollback is proved for all). Not modelled: the exception message texts beyond _name_hash; an exception of any "
              "type other than the three named ones out of the real set_hashes is a correspondence disagreement and a "
              "monitor violation (the monitor demands the tree unchanged after ANY exception). The defects found in round 1 "
              "(falsy stored hash, IndexError escaping the rollback) are fixed in /repo (b65c364); the model the check runs "
              "is that repaired behaviour, C35_MODEL_MODE=asis runs the model of the earlier code.")
RULE = ("a case is one set_hashes call of a history on a real IncompleteHashTree (state before, hashes, leaves, pop order), or one "
        "validate-one-leaf step (needed_hashes answered genuinely, then set_hashes); distinct = distinct (num_leaves, "
        "tree-before, call) triples; non-trivial = the call supplies at least one hash to a tree of at least 2 leaves. "
        "Index-arithmetic / _name_hash / HashTree-construction / needed_hashes comparisons are counted as trivial cases. "
        "VERIF_CORPUS_ONLY=1 runs only the fixed corpus.")
TRUSTED = ["lean/Tahoe/Base/Merkle.lean is a hand transcription of hashtree.py (per-level sets as one insertion-ordered "
           "list filtered by depth; sibling() by parity, proved equal to the code's parent/lchild/rchild form; a red-dotted "
           "negative key summarised as BatchOutcome.unvalidatable instead of replaying the level loop)",
           "the harness maps byte strings to symbolic terms (atoms, empty-leaf hashes, pairs, raw atoms for values that are "
           "not 32-byte hashes); a stored value it cannot explain as the pair hash of the node's children is printed as raw "
           "hex and so shows up as a disagreement; for batches the model marks `reject` the implementation's IndexError / "
           "BadHashError / NotEnoughHashesError are compared as one class (list contents still exactly)",
           "set.pop() order is injected by shadowing the name `set` in the allmydata.hashtree module namespace at run time "
           "(priority orders only; the theorems cover every order)"]
ASSUMPTIONS = ["pair_hash (SHA-256d tagged pair hash, each input netstring-framed) is injective on byte strings of ANY length — "
               "hypothesis PairInjective of sound / sound_any_batch / history_invariant; the harness feeds re-splits of "
               "(left || right) at every boundary, prefixes and extensions of genuine values, after the genuine tree was "
               "hashed in the same process",
               "the presence test never takes a stored hash for None (StrictPresence): holds for /repo since b65c364 for every "
               "hash value, and for the earlier code over non-empty hashes",
               "the caller survives exceptions and keeps using the tree object (histories); keys of hashes/leaves are Python "
               "ints of any sign and size, values are bytes of any length"]

# Which behaviour the Lean model is run with: "fixed" = with fixes/C35-falsy-hash-and-indexerror.diff applied
# (`if self[i] is not None:` twice, IndexError also rolls back); "asis" = /repo's code as it is.
MODE = os.environ.get("C35_MODEL_MODE", "fixed")   # C35_MODEL_MODE=asis compares against the model of the unrepaired code


# ----------------------------------------------------------------------------- symbolic terms <-> real bytes

class Terms:
    """Terms: a<n> atom, e<i> empty_leaf_hash(i), z = b"", P<t><t> pair_hash.  Real bytes both ways.
    Atoms a<N> with N >= RAW_BASE are *raw* byte strings of any length (N - RAW_BASE = int("1" + hex, 16)):
    values an adversary may supply that are not hashes at all (prefixes, extensions, re-splits of genuine
    values).  For the Lean model they are just further atoms, distinct from every genuine hash."""
    RAW_BASE = 1 << 600

    def __init__(self):
        from allmydata import hashtree
        from allmydata.util.hashutil import tagged_hash
        self.ht = hashtree
        self.tagged_hash = tagged_hash
        self.t2b = {"z": b""}
        self.b2t = {b"": "z"}
        for i in range(140):
            self._reg("e%d" % i, hashtree.empty_leaf_hash(i))

    def _reg(self, term, b):
        old = self.b2t.get(b)
        if old is not None and old != term:
            raise AssertionError("hash collision between terms %s and %s" % (old, term))
        self.b2t[b] = term
        self.t2b[term] = b
        return b

    def split(self, term, pos=0):
        """parse one term starting at pos -> (end position)"""
        c = term[pos]
        if c == "z":
            return pos + 1
        if c in "ae":
            j = pos + 1
            while j < len(term) and term[j].isdigit():
                j += 1
            return j
        if c == "P":
            j = self.split(term, pos + 1)
            return self.split(term, j)
        raise ValueError(term)

    def bytes_of(self, term):
        b = self.t2b.get(term)
        if b is not None:
            return b
        if term[0] == "a":
            n = int(term[1:])
            if n >= self.RAW_BASE:
                return self._reg(term, bytes.fromhex(format(n - self.RAW_BASE, "x")[1:]))
            return self._reg(term, self.tagged_hash(b"verif C35 atom", term[1:].encode()))
        if term[0] == "e":
            return self._reg(term, self.ht.empty_leaf_hash(int(term[1:])))
        if term[0] == "P":
            j = self.split(term, 1)
            return self._reg(term, self.ht.pair_hash(self.bytes_of(term[1:j]), self.bytes_of(term[j:])))
        raise ValueError(term)

    def raw_term(self, b):
        """the term of an arbitrary byte string: its existing term if it is a value we already know, else a raw atom"""
        b = bytes(b)
        t = self.b2t.get(b)
        if t is not None:
            return t
        t = "a%d" % (self.RAW_BASE + int("1" + b.hex(), 16))
        self._reg(t, b)
        return t

    def show_tree(self, lst):
        """list of bytes/None -> terms; unknown values are explained bottom-up as pair hashes of their children."""
        n = len(lst)
        out = [None] * n
        for i in range(n - 1, -1, -1):
            v = lst[i]
            if v is None:
                out[i] = "n"
                continue
            t = self.b2t.get(v)
            if t is None and 2 * i + 2 < n and lst[2 * i + 1] is not None and lst[2 * i + 2] is not None:
                l, r = out[2 * i + 1], out[2 * i + 2]
                if not l.startswith("?") and not r.startswith("?") and self.ht.pair_hash(lst[2 * i + 1], lst[2 * i + 2]) == v:
                    t = "P" + l + r
                    self._reg(t, v)
            out[i] = t if t is not None else "?" + v.hex()
        return ",".join(out) if out else "-"


_TERMS = None


def terms():
    global _TERMS
    if _TERMS is None:
        _TERMS = Terms()
    return _TERMS


class PopSet(set):
    """set whose pop() follows a priority order (the model's `pick` oracle)."""
    prio = []

    def pop(self):
        for x in PopSet.prio:
            if x in self:
                self.remove(x)
                return x
        x = min(self)          # keys outside the priority list (negative stray keys): deterministic
        self.remove(x)
        return x


class pop_order:
    def __init__(self, prio):
        self.prio = prio

    def __enter__(self):
        from allmydata import hashtree
        PopSet.prio = list(self.prio)
        hashtree.set = PopSet       # shadows the builtin inside the module only

    def __exit__(self, *a):
        from allmydata import hashtree
        try:
            del hashtree.set
        except AttributeError:
            pass


# ----------------------------------------------------------------------------- running one history on the real code

def classify(exc):
    from allmydata import hashtree
    if exc is None:
        return "ok"
    if isinstance(exc, hashtree.BadHashError):
        return "bad"
    if isinstance(exc, hashtree.NotEnoughHashesError):
        return "notenough"
    if isinstance(exc, IndexError):
        return "index"
    return "exc-" + type(exc).__name__


def do_call(tree, call):
    tm = terms()
    hashes = {i: tm.bytes_of(t) for (i, t) in call["hashes"]}
    leaves = {k: tm.bytes_of(t) for (k, t) in call["leaves"]}
    exc = None
    with pop_order(call["prio"]):
        try:
            tree.set_hashes(hashes, leaves)
        except Exception as e:  # noqa  (whatever its type: the monitor wants the tree unchanged after ANY exception)
            exc = e
    do_call.last_exception = type(exc).__name__ if exc is not None else None
    return classify(exc)


def violation_signature(kind, before, call, outcome, first, history_flags):
    """Classifier of a property violation, computed from the failing call only (compared with known findings)."""
    supplied = dict(call["hashes"])
    for (k, t) in call["leaves"]:
        supplied[first + k] = t
    falsy_before = any(v == b"" for v in before)
    falsy_overwritten = any(0 <= i < len(before) and before[i] == b"" for i in supplied)
    if kind == "rollback":
        if outcome == "index":
            return "state-changed-on-indexerror"
        if falsy_overwritten or falsy_before:
            return "state-changed-on-reject-falsy-stored-hash"
        return "state-changed-on-reject"
    if kind == "sound":
        tm = terms()
        if any(len(tm.bytes_of(t)) not in (0, 32) for t in supplied.values()) and not (falsy_overwritten or falsy_before):
            return "forged-leaf-accepted-nonstandard-length-hash"
        if falsy_overwritten or falsy_before:
            return "forged-leaf-accepted-falsy-stored-hash"
        if history_flags.get("index_escaped"):
            return "forged-leaf-accepted-after-indexerror"
        return "forged-leaf-accepted"
    if kind == "complete":
        if falsy_before:
            return "genuine-rejected-falsy-stored-hash"
        return "genuine-rejected"
    return kind


def resolve_slot(i, size):
    """the list slot Python's self[i] touches (negative indices alias), or None when it raises IndexError"""
    if 0 <= i < size:
        return i
    if -size <= i < 0:
        return size + i
    return None


def exec_history(ctx, case, monitor=True):
    """Run case = {n, T:[leaf terms], calls:[{prio,hashes,leaves}]} on a real IncompleteHashTree.
    Returns the canonical output string (same format as the driver).  The monitor evaluates the property
    statement against the genuine tree HashTree(T):
      * after ANY exception from set_hashes the list is identical to the list before the call;
      * on a tree seeded with the genuine root, an accepted call stores no leaf value different from the
        genuine leaf;
      * the genuine hashes the tree asks for (+ the genuine leaf) are accepted.
    `good` is the state the tree must be in according to the statement (the list after the last legitimately
    accepted call); after a rejected batch that left something behind the later calls are still judged against
    it, so a forged leaf accepted / a genuine leaf refused *because of* the leftovers is reported as such."""
    from allmydata import hashtree
    tm = terms()
    n = case["n"]
    tree = hashtree.IncompleteHashTree(n)
    first = tree.first_leaf_num
    size = len(tree)
    T = hashtree.HashTree([tm.bytes_of(t) for t in case["T"]]) if case.get("T") is not None else None
    if T is not None:
        tm.show_tree(list(T))    # registers every node of the genuine tree
    outs = []
    flags = {}
    stop_monitor = not monitor or T is None or len(T) != len(tree)
    good = list(tree)
    dirty = False
    for ci, call in enumerate(case["calls"]):
        before = list(tree)
        # "genuine request": exactly the hashes the (good) tree asks for, all genuine, plus the genuine leaf
        genuine_request = False
        if not stop_monitor and len(call["leaves"]) == 1:
            k = call["leaves"][0][0]
            if k >= 0 and first + k < size:
                needed = set(i for i in path_needed(first + k) if good[i] is None)
                if set(i for (i, _) in call["hashes"]) == needed:
                    hs = {i: tm.bytes_of(t) for (i, t) in call["hashes"]}
                    genuine_request = all(hs[i] == T[i] for i in hs) and tm.bytes_of(call["leaves"][0][1]) == T[first + k]
        seeded = good[0] is not None and T is not None and good[0] == T[0]
        agrees = T is not None and len(T) == size and all(v is None or v == T[i] for i, v in enumerate(good))
        outcome = do_call(tree, call)
        excname = do_call.last_exception
        after = list(tree)
        outs.append(outcome + ":" + tm.show_tree(after))
        ctx.count("outcome:" + outcome)
        if excname:
            ctx.count("exception:" + excname)
        nontrivial = n >= 2 and (call["hashes"] or call["leaves"])
        ctx.case((n, tm.show_tree(before), repr(call)) if nontrivial else None)
        if outcome == "index" and after != before:
            flags["index_escaped"] = True
        if stop_monitor:
            continue
        info = {"n": n, "T": case["T"], "calls": case["calls"][:ci + 1]}
        # (1) tree unchanged after a rejected batch, whatever the exception
        if outcome != "ok":
            if after != before:
                ctx.violation("set_hashes raised %s but the tree changed (index %s)" % (
                    excname, [i for i in range(size) if after[i] != before[i]][:4]), info,
                    "tree-changed-after-rejected-batch:%s" % excname,
                    {"before": tm.show_tree(before), "after": tm.show_tree(after)})
                dirty = True
            elif genuine_request and seeded and agrees:
                # (3) the genuine hashes it asked for are accepted
                sig = "genuine-leaf-refused-after-rejected-batch" if dirty else \
                    violation_signature("complete", before, call, outcome, first, flags)
                ctx.violation("set_hashes rejected (%s) the genuine hashes it asked for" % excname, info, sig,
                              {"before": tm.show_tree(before)})
                if not dirty:
                    stop_monitor = True
            continue
        # (2) an accepted leaf is genuine (tree seeded with the trusted root)
        violated = False
        if seeded:
            supplied = [(resolve_slot(i, size), tm.bytes_of(t)) for (i, t) in call["hashes"]] + \
                       [(resolve_slot(first + k, size), tm.bytes_of(t)) for (k, t) in call["leaves"]]
            forged = sorted(set(j for (j, v) in supplied if j is not None and j >= first and v != T[j]))
            if not dirty:
                forged = sorted(set(forged) | set(i for i in range(first, size) if after[i] is not None and after[i] != T[i]))
            if forged:
                violated = True
                sig = "forged-leaf-accepted-after-rejected-batch" if dirty else \
                    violation_signature("sound", before, call, outcome, first, flags)
                ctx.violation("set_hashes accepted a leaf value different from the genuine leaf (leaf %s)" % (
                    [i - first for i in forged][:4]), info, sig, {"before": tm.show_tree(before), "after": tm.show_tree(after)})
                if not dirty:
                    stop_monitor = True
        if not violated:
            good = after
        if genuine_request:
            ctx.count("genuine-requests")
    return ";".join(outs) if outs else "-"


def fmt_assoc(pairs):
    return ",".join("%d=%s" % (i, t) for (i, t) in pairs) or "-"


def line_of(case):
    toks = ["hist", MODE, str(case["n"])]
    for c in case["calls"]:
        toks.append("%s|%s|%s" % (",".join(map(str, c["prio"])) or "-", fmt_assoc(c["hashes"]), fmt_assoc(c["leaves"])))
    return " ".join(toks)


# ----------------------------------------------------------------------------- genuine-tree helper (reference)

def roundup_pow2(x):
    a = 1
    while a < x:
        a *= 2
    return a


def genuine_terms(leaf_terms):
    """terms of every node of HashTree(leaf_terms), computed independently of the code (reference)."""
    n = roundup_pow2(len(leaf_terms))
    row = list(leaf_terms) + ["e%d" % i for i in range(len(leaf_terms), n)]
    rows = [row]
    while len(rows[-1]) > 1:
        last = rows[-1]
        rows.append(["P" + last[2 * i] + last[2 * i + 1] for i in range(len(last) // 2)])
    out = []
    for r in reversed(rows):
        out += r
    return out


def path_needed(idx):
    res = []
    while idx != 0:
        res.append(idx + 1 if idx % 2 == 1 else idx - 1)
        idx = (idx - 1) // 2
    return res


def orders(rng, size, k):
    ident = list(range(size))
    res = [ident, ident[::-1]]
    for _ in range(max(0, k - 2)):
        p = ident[:]
        rng.shuffle(p)
        res.append(p)
    return res[:k]


# ----------------------------------------------------------------------------- generators

FORGE = 1000   # forged atoms are a<FORGE + index>


ODD = "pqsxwy"   # non-hash byte strings derived from the genuine value v: see odd_value


def odd_value(choice, v):
    """prefixes / suffixes / extensions of a genuine 32-byte value (lengths 31, 1, 31, 33, 40, 64)"""
    return {"p": v[:31], "q": v[:1], "s": v[1:], "x": v + v[:1], "w": v + v[:8], "y": v + v}[choice]


def choice_term(choice, gen, idx):
    if choice in ODD:
        tm = terms()
        return tm.raw_term(odd_value(choice, tm.bytes_of(gen[idx])))
    return {"g": gen[idx], "f": "a%d" % (FORGE + idx), "z": "z"}[choice]


def resplit_terms(gen, left_idx, boundary):
    """(genuine left || genuine right) cut at another boundary: terms of the two pieces"""
    tm = terms()
    both = tm.bytes_of(gen[left_idx]) + tm.bytes_of(gen[left_idx + 1])
    return tm.raw_term(both[:boundary]), tm.raw_term(both[boundary:])


def sibling_of(i):
    return i + 1 if i % 2 == 1 else i - 1


def odd_length_cases(rng, max_n, boundaries, norders):
    """adversarial values that are not 32-byte hashes, on a tree seeded with the genuine root (the genuine tree
    has been built, i.e. every genuine pair has been hashed, in this process):
      (a) a sibling pair on the chain of leaf k replaced by a re-split of (genuine left || genuine right) at
          every boundary, the rest of the chain genuine;
      (b) one supplied value (a needed hash or the leaf) replaced by a prefix / suffix / extension of the
          genuine value, the rest genuine."""
    for n in range(1, max_n + 1):
        T = ["a%d" % i for i in range(n)]
        gen = genuine_terms(T)
        size = len(gen)
        first = (size + 1) // 2 - 1
        seed_call = {"prio": list(range(size)), "hashes": [(0, gen[0])], "leaves": []}
        for k in range(n):
            idx = first + k
            need = path_needed(idx)
            chain = [idx]
            while chain[-1] != 0:
                chain.append((chain[-1] - 1) // 2)
            # (a) re-split each sibling pair (c, sibling c) of the chain; deeper chain nodes stay genuine
            for c in chain[:-1]:
                left = min(c, sibling_of(c))
                for b in boundaries:
                    lt, rt = resplit_terms(gen, left, b)
                    vals = {i: gen[i] for i in need}
                    vals[idx] = gen[idx]
                    # nodes of the chain at or above c are not supplied (they are computed); c itself is supplied
                    # only when it is an internal node (then nothing below it is supplied)
                    vals[left], vals[left + 1] = lt, rt
                    below = [x for x in chain if x > c] if c != idx else []
                    for x in below:
                        vals.pop(x, None)
                        vals.pop(sibling_of(x), None)
                    leaves = [(k, vals.pop(idx))] if idx in vals else []
                    hashes = sorted(vals.items())
                    for prio in orders(rng, size, norders):
                        yield {"n": n, "T": T, "calls": [seed_call, {"prio": prio, "hashes": hashes, "leaves": leaves}]}
            # (b) one odd-length value
            for pos in need + [idx]:
                for c in ODD:
                    vals = {i: gen[i] for i in need}
                    vals[idx] = gen[idx]
                    vals[pos] = choice_term(c, gen, pos)
                    leaves = [(k, vals.pop(idx))]
                    yield {"n": n, "T": T, "calls": [seed_call, {"prio": list(range(size)), "hashes": sorted(vals.items()),
                                                               "leaves": leaves}]}


def stray_cases(rng, max_n, nperm):
    """adversarial batches with stray node numbers — negative (-1 … -2*size, Python list indexing aliases
    -size ≤ i < 0 onto real slots), ≥ tree size, nodes off the chain — in `hashes` and in `leaves`, in every
    dict ORDER relative to the forged / genuine entries (all permutations of up to 4 entries, else `nperm`
    seeded ones incl. stray first / last).  Each batch is followed by the forged leaf on its own (must be
    refused) and by the genuine request for that leaf (must be accepted)."""
    for n in range(2, max_n + 1):
        T = ["a%d" % i for i in range(n)]
        gen = genuine_terms(T)
        size = len(gen)
        first = (size + 1) // 2 - 1
        full = list(range(size))
        seed_call = {"prio": full, "hashes": [(0, gen[0])], "leaves": []}
        for k in range(n):
            idx = first + k
            sib = sibling_of(idx)
            need = path_needed(idx)
            forged = "a%d" % (FORGE + idx)
            forged_sib = "a%d" % (FORGE + sib)
            offchain = [i for i in range(1, size) if i not in need and i != idx]
            stray_keys = [-1, -2, -size + 1, -size, -size - 1, -2 * size, size, size + 1]
            stray_keys += [-(size - idx)]               # aliases the leaf itself
            if offchain:
                stray_keys += [offchain[0], offchain[-1]]
            stray_keys = sorted(set(stray_keys))
            bases = [
                ("forged-leaf", [("h", idx, forged)]),
                ("forged-pair", [("h", idx, forged), ("h", sib, forged_sib)]),
                ("forged-leaf-in-leaves", [("l", k, forged)]),
                ("genuine-chain", [("h", i, gen[i]) for i in need] + [("l", k, gen[idx])]),
            ]
            follow = [{"prio": full, "hashes": [], "leaves": [(k, forged)]},
                      {"prio": full, "hashes": [(i, gen[i]) for i in need], "leaves": [(k, gen[idx])]}]
            for bname, base in bases:
                for sk in stray_keys:
                    slot = resolve_slot(sk, size)
                    values = ["a%d" % (FORGE + 300 + (sk % 97))]
                    if slot is not None:
                        values.append(gen[slot])      # the genuine value of the aliased / off-chain slot
                    for sv in values:
                        variants = [base + [("h", sk, sv)]]
                        lk = sk - first                # the same node number through `leaves`
                        if not any(e[0] == "l" and e[1] == lk for e in base):
                            variants.append(base + [("l", lk, sv)])
                        for entries in variants:
                            if len(entries) <= 4:
                                perms = list(itertools.permutations(entries))
                            else:
                                perms = [tuple(entries), tuple(entries[-1:] + entries[:-1])]
                                for _ in range(nperm):
                                    e = entries[:]
                                    rng.shuffle(e)
                                    perms.append(tuple(e))
                            seen = set()
                            for perm in perms:
                                hashes = [(i, t) for (w, i, t) in perm if w == "h"]
                                leaves = [(i, t) for (w, i, t) in perm if w == "l"]
                                key = (tuple(hashes), tuple(leaves))
                                if key in seen or len(set(i for i, _ in hashes)) != len(hashes) \
                                        or len(set(i for i, _ in leaves)) != len(leaves):
                                    continue
                                seen.add(key)
                                prio = full if rng.random() < 0.5 else full[::-1]
                                yield {"n": n, "T": T, "calls": [seed_call, {"prio": prio, "hashes": hashes, "leaves": leaves}] + follow}


def exhaustive_cases(rng, max_n, with_prior, norders):
    """every leaf, every genuine/forged/missing/empty-string choice for each needed hash and the leaf, on a tree
    seeded with the genuine root, optionally after a genuine validation of another leaf."""
    for n in range(1, max_n + 1):
        T = ["a%d" % i for i in range(n)]
        gen = genuine_terms(T)
        size = len(gen)
        first = (size + 1) // 2 - 1
        seed_call = {"prio": list(range(size)), "hashes": [(0, gen[0])], "leaves": []}
        priors = [None]
        if with_prior:
            priors += list(range(n))
        for prior in priors:
            calls0 = [seed_call]
            populated = {0}
            if prior is not None:
                pidx = first + prior
                need = path_needed(pidx)
                calls0.append({"prio": list(range(size)), "hashes": [(i, gen[i]) for i in need if i != 0], "leaves": [(prior, gen[pidx])]})
                populated |= set(need) | {pidx}
                x = pidx
                while x != 0:
                    x = (x - 1) // 2
                    populated.add(x)
            for k in range(n):
                idx = first + k
                need = [i for i in path_needed(idx) if i not in populated]
                for combo in itertools.product("gfmz", repeat=len(need)):
                    for leafc in "gfz":
                        hashes = [(i, choice_term(c, gen, i)) for i, c in zip(need, combo) if c != "m"]
                        for prio in orders(rng, size, norders):
                            yield {"n": n, "T": T, "calls": calls0 + [{"prio": prio, "hashes": hashes,
                                                                      "leaves": [(k, choice_term(leafc, gen, idx))]}]}


def random_history(rng, max_leaves, ncalls):
    """seeded history: mostly-valid validations with forged / missing / extra / empty / out-of-range corners."""
    from allmydata import hashtree
    tm = terms()
    n = rng.choice([1, 2, 3, 4, 5, 7, 8, 9, 13, 16, 21, 32, 33, 50, 64])
    n = min(n, max_leaves)
    T = ["a%d" % i for i in range(n)]
    if rng.random() < 0.08:
        T[rng.randrange(n)] = "z"            # a genuine leaf equal to b"" (Python-falsy)
    gen = genuine_terms(T)
    size = len(gen)
    first = (size + 1) // 2 - 1
    shadow = hashtree.IncompleteHashTree(n)
    calls = []

    def perm():
        p = list(range(size))
        r = rng.random()
        if r < 0.2:
            return p
        if r < 0.3:
            return p[::-1]
        rng.shuffle(p)
        return p

    r = rng.random()
    if r < 0.85:
        calls.append({"prio": perm(), "hashes": [(0, gen[0])], "leaves": []})
    elif r < 0.9:
        calls.append({"prio": perm(), "hashes": [(0, "z")], "leaves": []})      # falsy root
    elif r < 0.95:
        calls.append({"prio": perm(), "hashes": [(0, "a%d" % (FORGE + 0))], "leaves": []})
    for c in calls:
        do_call(shadow, c)
    for _ in range(ncalls):
        k = rng.randrange(n)
        idx = first + k
        try:
            need = sorted(shadow.needed_hashes(k))
        except Exception:
            need = []
        style = rng.random()
        hashes = []
        for i in need:
            c = "g"
            if style > 0.55:
                c = rng.choice("ggggfmz" + "gggg" + ODD) if style < 0.9 else rng.choice("gfmz" + ODD)
            if c != "m":
                hashes.append((i, choice_term(c, gen, i)))
        if style > 0.7:
            # extra, unrequested hashes: already-known nodes (genuine or forged), unrelated nodes, out of range
            for _ in range(rng.randrange(0, 3)):
                r2 = rng.random()
                if r2 < 0.12:
                    i = size + rng.randrange(0, 3)
                    t = "a%d" % (FORGE + 500 + i)
                elif r2 < 0.3:
                    i = -rng.choice([1, 2, 3, size - 1, size, size + 1, 2 * size, rng.randrange(1, size + 1)])
                    slot = resolve_slot(i, size)
                    t = gen[slot] if slot is not None and rng.random() < 0.4 else "a%d" % (FORGE + 600 + (-i) % 89)
                else:
                    i = rng.randrange(size)
                    t = choice_term(rng.choice("ggfz" + ODD), gen, i)
                if i not in [j for (j, _) in hashes]:
                    hashes.append((i, t))
        rng.shuffle(hashes)
        leaves = []
        r3 = rng.random()
        if r3 < 0.75 or style <= 0.55:
            leaves.append((k, gen[idx]))
        elif r3 < 0.9:
            leaves.append((k, choice_term(rng.choice("fz" + ODD), gen, idx)))
        if style > 0.8 and rng.random() < 0.3:
            k2 = rng.randrange(n + 2) if rng.random() < 0.6 else -rng.randrange(1, size + 3)   # may be out of range / negative
            if k2 != k and k2 < 0:
                slot = resolve_slot(first + k2, size)
                leaves.append((k2, gen[slot] if slot is not None and rng.random() < 0.4 else "a%d" % (FORGE + 800 + (-k2) % 89)))
            elif k2 != k:
                leaves.append((k2, gen[first + k2] if first + k2 < size and rng.random() < 0.6 else "a%d" % (FORGE + 700 + k2)))
        if style > 0.9 and rng.random() < 0.3 and leaves:
            # the same node through both arguments (conflicting or equal)
            kk, t = leaves[0]
            hashes = [(i, x) for (i, x) in hashes if i != first + kk]
            hashes.append((first + kk, t if rng.random() < 0.5 else "a%d" % (FORGE + 900)))
        if n >= 2 and rng.random() < 0.12:
            # re-split attack on the leaf pair: (genuine left || genuine right) cut elsewhere, rest of the chain genuine
            left = min(idx, sibling_of(idx))
            b = rng.choice([0, 1, 8, 16, 24, 31, 33, 40, 48, 63, 64, rng.randrange(65)])
            lt, rt = resplit_terms(gen, left, b)
            vals = {i: gen[i] for i in need if i != sibling_of(idx)}
            vals[left], vals[left + 1] = lt, rt
            leaves = [(k, vals.pop(idx))]
            hashes = list(vals.items())
            rng.shuffle(hashes)
        call = {"prio": perm(), "hashes": hashes, "leaves": leaves}
        calls.append(call)
        do_call(shadow, call)
    return {"n": n, "T": T, "calls": calls}


# fixed corpus (run first, independent of VERIF_SEED): one minimal history per known mechanism — the defects repaired
# in /repo (b65c364: falsy root, falsy leaf, IndexError escaping the rollback) and the seeded changes C35-a/-b/-c.
# VERIF_CORPUS_ONLY=1 runs only this corpus.
def corpus():
    full = lambda size: list(range(size))
    res = []
    # b"" as the trusted root of a one-leaf tree, then a forged leaf
    res.append({"n": 1, "T": ["z"], "calls": [{"prio": [0], "hashes": [(0, "z")], "leaves": []},
                                               {"prio": [0], "hashes": [], "leaves": [(0, "a1000")]}]})
    # a validated genuine leaf equal to b"" is erased by a rejected forged call
    g = genuine_terms(["z", "a1"])
    res.append({"n": 2, "T": ["z", "a1"], "calls": [{"prio": full(3), "hashes": [(0, g[0])], "leaves": []},
                                                   {"prio": full(3), "hashes": [], "leaves": [(0, "z"), (1, "a1")]},
                                                   {"prio": full(3), "hashes": [], "leaves": [(0, "a1000")]}]})
    # an out-of-range index escapes the except clause and leaves unvalidated hashes behind; a forged leaf follows
    g = genuine_terms(["a0", "a1", "a2", "a3"])
    f1 = "P" + "a1000" + "a1001"
    res.append({"n": 4, "T": ["a0", "a1", "a2", "a3"],
                "calls": [{"prio": full(7), "hashes": [(0, g[0])], "leaves": []},
                          {"prio": full(7), "hashes": [(1, f1), (100, "a5")], "leaves": []},
                          {"prio": full(7), "hashes": [(4, "a1001")], "leaves": [(0, "a1000")]}]})
    # children known, parent unknown cannot arise through set_hashes: a sibling pair fills in its parent
    res.append({"n": 4, "T": ["a0", "a1", "a2", "a3"],
                "calls": [{"prio": full(7), "hashes": [(0, g[0])], "leaves": []},
                          {"prio": [6, 5, 4, 3, 2, 1, 0], "hashes": [(2, g[2])], "leaves": [(0, "a0"), (1, "a1")]},
                          {"prio": full(7), "hashes": [(6, "a3")], "leaves": [(2, "a2")]}]})
    # seeded C35-a (a pair that hashes to a parent "already held" is taken off the rollback list although that parent
    # is itself a provisional value of the same batch): forged leaf pair + their pair hash as node 1; node 1 then
    # fails against the root, the forged leaves must not survive; forged leaf again; genuine request
    f3, f4 = "a1003", "a1004"
    res.append({"n": 4, "T": ["a0", "a1", "a2", "a3"],
                "calls": [{"prio": full(7), "hashes": [(0, g[0])], "leaves": []},
                          {"prio": [6, 5, 4, 3, 2, 1, 0], "hashes": [(1, "P" + f3 + f4), (2, g[2]), (4, f4)], "leaves": [(0, f3)]},
                          {"prio": full(7), "hashes": [], "leaves": [(0, f3)]},
                          {"prio": full(7), "hashes": [(4, g[4]), (2, g[2])], "leaves": [(0, g[3])]}]})
    # seeded C35-b (pair_hash cached under the key a+b): (genuine left || genuine right) cut at byte 0 and at byte 40,
    # after the genuine tree was hashed in this process
    g2 = genuine_terms(["a0", "a1"])
    for b in (0, 40):
        lt, rt = resplit_terms(g2, 1, b)
        res.append({"n": 2, "T": ["a0", "a1"], "calls": [{"prio": full(3), "hashes": [(0, g2[0])], "leaves": []},
                                                         {"prio": full(3), "hashes": [(2, rt)], "leaves": [(0, lt)]}]})
    # seeded C35-c (an exception type outside the rollback clause, raised for a negative key after earlier entries of
    # the batch were written): forged node, then -1; forged leaf again; genuine request
    res.append({"n": 2, "T": ["a0", "a1"],
                "calls": [{"prio": full(3), "hashes": [(0, g2[0])], "leaves": []},
                          {"prio": full(3), "hashes": [(1, "a1001"), (-1, "a1396")], "leaves": []},
                          {"prio": full(3), "hashes": [], "leaves": [(0, "a1001")]},
                          {"prio": full(3), "hashes": [(2, g2[2])], "leaves": [(0, g2[1])]}]})
    # seeded C35-d (levels that only receive *computed* parents are never visited): a forged leaf pair with the
    # hashes higher up withheld must be refused (NotEnoughHashesError), not kept with its computed parent
    res.append({"n": 4, "T": ["a0", "a1", "a2", "a3"],
                "calls": [{"prio": full(7), "hashes": [(0, g[0])], "leaves": []},
                          {"prio": full(7), "hashes": [], "leaves": [(0, f3), (1, f4)]},
                          {"prio": full(7), "hashes": [(4, g[4]), (2, g[2])], "leaves": [(0, g[3])]}]})
    # seeded C35-e (building the BadHashError text for a conflict on node 0 raises another exception type, which
    # bypasses the rollback): a planted forged node 1 followed by a wrong root value; then the forged leaves under it
    res.append({"n": 4, "T": ["a0", "a1", "a2", "a3"],
                "calls": [{"prio": full(7), "hashes": [(0, g[0])], "leaves": []},
                          {"prio": full(7), "hashes": [(1, "P" + f3 + f4), (0, "a1000")], "leaves": []},
                          {"prio": full(7), "hashes": [(4, f4)], "leaves": [(0, f3)]},
                          {"prio": full(7), "hashes": [(4, g[4]), (2, g[2])], "leaves": [(0, g[3])]}]})
    return res


# ----------------------------------------------------------------------------- small-function correspondence

def small_functions(ctx):
    from allmydata import hashtree
    tm = terms()
    lines, impl, cases = [], [], []

    def add(line, out, case):
        lines.append(line)
        impl.append(out)
        cases.append(case)
        ctx.case(None)

    def attempt(f, *a):
        try:
            return f(*a)
        except IndexError:
            return "err"

    sizes = [1, 2, 3, 4, 5, 8, 9, 16] + ([31, 32, 33, 64] if ctx.tier == "thorough" else [33])
    for nl in sizes:
        t = hashtree.IncompleteHashTree(nl)
        ln = len(t)
        add("new %d" % nl, "%d %s" % (t.first_leaf_num, tm.show_tree(list(t))), {"new": nl})
        idxs = range(0, ln + 3) if ln <= 31 else sorted(set(ctx.rng.randrange(ln + 3) for _ in range(24)) | {0, ln - 1, ln})
        for i in idxs:
            for op in ("parent", "lchild", "rchild", "sibling"):
                r = attempt(getattr(t, op), i)
                add("idx %d %s %d" % (ln, op, i), str(r), {"len": ln, "op": op, "i": i})
            r = attempt(t.needed_for, i)
            add("idx %d needed_for %d" % (ln, i), r if r == "err" else (",".join(map(str, r)) or "-"), {"len": ln, "op": "needed_for", "i": i})
            add("idx %d depth_of %d" % (ln, i), str(hashtree.depth_of(i)), {"op": "depth_of", "i": i})
        for i in ([0, 1, t.first_leaf_num - 1, t.first_leaf_num, ln - 1] if ln > 1 else [0]):
            if 0 <= i < ln:
                # the description used in BadHashError texts, built inside set_hashes' try block: every node incl. 0
                try:
                    nm = t._name_hash(i)
                except Exception as e:  # noqa: reported as a disagreement, the run goes on
                    nm = "exc-" + type(e).__name__
                add("name %d %d %d" % (ln, t.first_leaf_num, i), nm, {"name_hash": ln, "i": i})
        add("dfs %d" % ln, ",".join("%d:%d" % x for x in t.depth_first()), {"dfs": ln})
        ctx.count("op:index-arithmetic")
    for x in range(0, 70):
        add("rup %d" % x, str(hashtree.roundup_pow2(x)), {"rup": x})
    # HashTree construction (padding with empty_leaf_hash) and HashTree.needed_hashes
    for nl in list(range(0, 10)) + [15, 16, 17, 33] + ([63, 64] if ctx.tier == "thorough" else []):
        L = ["a%d" % i for i in range(nl)]
        if nl >= 3 and ctx.rng.random() < 0.3:
            L[ctx.rng.randrange(nl)] = "z"
        T = hashtree.HashTree([tm.bytes_of(x) for x in L])
        shown = tm.show_tree(list(T))
        add("build %s" % (",".join(L) or "-"), "%d %s" % (T.first_leaf_num, shown), {"build": L})
        ref = ",".join(genuine_terms(L))
        if shown != ref:
            ctx.violation("HashTree(L) is not the Merkle tree of L padded with empty_leaf_hash(i)", {"build": L},
                          "hashtree-construction", {"impl": shown, "ref": ref})
        for leaf in range(0, roundup_pow2(nl) + 1):
            for inc in (0, 1):
                r = attempt(T.needed_hashes, leaf, bool(inc))
                add("cneeded %d %d %d" % (nl, leaf, inc), r if r == "err" else (",".join(map(str, sorted(r))) or "-"),
                    {"cneeded": nl, "leaf": leaf, "inc": inc})
        ctx.count("op:build")
    # IncompleteHashTree.needed_hashes on partially populated trees
    for _ in range(ctx.budget(60, 600)):
        nl = ctx.rng.choice([1, 2, 3, 4, 5, 8, 13, 16, 32])
        t = hashtree.IncompleteHashTree(nl)
        for i in range(len(t)):
            r = ctx.rng.random()
            if r < 0.4:
                t[i] = tm.bytes_of("a%d" % i)
            elif r < 0.45:
                t[i] = b""
        leaf = ctx.rng.randrange(0, roundup_pow2(nl) + 1)
        inc = ctx.rng.randrange(2)
        r = attempt(t.needed_hashes, leaf, bool(inc))
        add("needed %d %d %d %s" % (t.first_leaf_num, leaf, inc, tm.show_tree(list(t))),
            r if r == "err" else (",".join(map(str, sorted(r))) or "-"), {"needed": nl, "leaf": leaf, "inc": inc, "tree": tm.show_tree(list(t))})
        ctx.count("op:needed_hashes")
    model = ctx.model(lines)
    ctx.compare("hashtree.py index arithmetic / HashTree construction / needed_hashes", cases, impl, model)


def validate_cases(ctx):
    """the download step `validateLeaf` of the model: ask needed_hashes(k) of a partially validated real tree, answer
    with the genuine values + the genuine leaf, call set_hashes under a seeded pop order; compare the request, the
    outcome and the list; the monitor demands acceptance (the genuine hashes it asked for)."""
    import copy
    from allmydata import hashtree
    tm = terms()
    rng = ctx.subrng("validate")
    lines, impl, cases = [], [], []
    for _ in range(ctx.budget(150, 2500)):
        n = rng.choice([1, 2, 3, 4, 5, 6, 7, 8, 9, 13, 16, 17, 31, 32, 33, 64])
        T = ["a%d" % i for i in range(n)]
        gen = genuine_terms(T)
        size = len(gen)
        first = (size + 1) // 2 - 1
        real_T = hashtree.HashTree([tm.bytes_of(t) for t in T])
        tm.show_tree(list(real_T))
        tree = hashtree.IncompleteHashTree(n)
        tree.set_hashes({0: real_T[0]})
        for k0 in rng.sample(range(size - first), rng.randrange(0, min(size - first, 6) + 1)):   # padding slots too
            tree.set_hashes({i: real_T[i] for i in tree.needed_hashes(k0)}, leaves={k0: real_T[first + k0]})
        k = rng.randrange(size - first + 2)               # the last two are out of range
        prio = list(range(size))
        rng.shuffle(prio)
        before = tm.show_tree(list(tree))
        case = {"validate": n, "leaf": k, "prio": prio, "tree": before}
        try:
            needed = tree.needed_hashes(k)
        except IndexError:
            needed = None
        if needed is None or first + k >= size:
            out = "err"
        else:
            order = [i for i in path_needed(first + k) if i in needed]
            if set(order) != set(needed):
                ctx.violation("needed_hashes asks for a node off the leaf's chain", case, "needed-hashes-off-chain")
            t2 = copy.deepcopy(tree)
            outcome = do_call(t2, {"prio": prio, "hashes": [(i, gen[i]) for i in order], "leaves": [(k, gen[first + k])]})
            out = "%s %s:%s" % (fmt_assoc([(i, gen[i]) for i in order]), outcome, tm.show_tree(list(t2)))
            if outcome != "ok":
                ctx.violation("set_hashes rejected (%s) the genuine hashes it asked for" % do_call.last_exception, case,
                              "genuine-rejected", {"request": order})
            ctx.count("validate:needed=%d" % min(len(order), 4))
        lines.append("validate %d %d %s %s %s" % (first, k, ",".join(map(str, prio)), before, ",".join(gen)))
        impl.append(out)
        cases.append(case)
        ctx.case((n, before, k) if n >= 2 else None)
    ctx.compare("validateLeaf: needed_hashes answered genuinely, then set_hashes", cases, impl, ctx.model(lines))


# ----------------------------------------------------------------------------- entry points

def untuple(case):
    return {"n": case["n"], "T": case.get("T"),
            "calls": [{"prio": list(c["prio"]), "hashes": [tuple(x) for x in c["hashes"]],
                       "leaves": [tuple(x) for x in c["leaves"]]} for c in case["calls"]]}


def canonicalise(impl_out, model_out):
    """Where the model leaves the exception class open (`reject`: a red-dotted negative key — IndexError, or the
    BadHashError / NotEnoughHashesError of another node of the deepest level, whichever set.pop() meets first),
    any of those three classes of the implementation is mapped to `reject`; the list contents are compared as is."""
    if model_out is None or "reject:" not in model_out:
        return impl_out
    a, b = impl_out.split(";"), model_out.split(";")
    if len(a) != len(b):
        return impl_out
    res = []
    for x, y in zip(a, b):
        if y.startswith("reject:"):
            cls, _, tree = x.partition(":")
            if cls in ("bad", "notenough", "index"):
                x = "reject:" + tree
        res.append(x)
    return ";".join(res)


def run_batch(ctx, what, cases):
    impl = [exec_history(ctx, c) for c in cases]
    model = ctx.model([line_of(c) for c in cases])
    if model is not None:
        impl = [canonicalise(a, b) for a, b in zip(impl, model)]
        ctx.count("model-outcome:reject(red-dotted negative key)", sum(m.count("reject:") for m in model))
    ctx.compare(what, cases, impl, model)
    return impl


def run(ctx):
    if ctx.replay:
        case = untuple(ctx.replay["case"])
        out = run_batch(ctx, "replayed set_hashes history", [case])
        ctx.sample({"case": case, "impl": out[0][:300]})
        return
    # 1. fixed corpus (before anything seeded)
    cp = corpus()
    run_batch(ctx, "set_hashes history (corpus of known mechanisms)", cp)
    ctx.count("corpus-histories", len(cp))
    if os.environ.get("VERIF_CORPUS_ONLY") == "1":
        ctx.note("VERIF_CORPUS_ONLY=1: only the fixed corpus was run")
        return
    small_functions(ctx)
    validate_cases(ctx)
    # 2. exhaustive small scope
    thorough = ctx.tier == "thorough"
    batch = []
    nex = 0
    for case in exhaustive_cases(ctx.subrng("exh"), 8 if thorough else 4, with_prior=thorough or ctx.escalated,
                                 norders=4 if thorough else 3):
        batch.append(case)
        if len(batch) >= 4000:
            run_batch(ctx, "set_hashes history (exhaustive small scope)", batch)
            nex += len(batch)
            batch = []
    if batch:
        run_batch(ctx, "set_hashes history (exhaustive small scope)", batch)
        nex += len(batch)
    ctx.count("exhaustive-histories", nex)
    # 2b. byte strings that are not 32-byte hashes: re-splits of genuine pairs at every boundary, prefixes, extensions
    odd = list(odd_length_cases(ctx.subrng("odd"), 8 if thorough else 4,
                                list(range(65)) if (thorough or ctx.escalated) else list(range(0, 65, 3)) + [1, 31, 32, 40, 64],
                                2 if thorough else 1))
    for i in range(0, len(odd), 4000):
        run_batch(ctx, "set_hashes history (re-split / odd-length adversarial values)", odd[i:i + 4000])
    ctx.count("odd-length-histories", len(odd))
    # 2c. stray node numbers (negative, too large, off-chain) in every dict order, then forged / genuine follow-ups
    stray = list(stray_cases(ctx.subrng("stray"), 8 if thorough else (5 if ctx.escalated else 4), 4 if thorough else 2))
    if not thorough and not ctx.escalated and len(stray) > 3000:
        keep = ctx.subrng("stray-sample")
        stray = stray[:600] + keep.sample(stray[600:], 2400)
    for i in range(0, len(stray), 4000):
        run_batch(ctx, "set_hashes history (stray node numbers in every dict order)", stray[i:i + 4000])
    ctx.count("stray-index-histories", len(stray))
    if thorough:
        ctx.exhaustive = True
        ctx.note("exhaustive: 1..8 leaves, every leaf, every genuine/forged/missing/empty choice of each needed hash and of the leaf, "
                 "fresh root-seeded tree and after a genuine validation of every other leaf, 4 pop orders each (%d histories)" % nex)
    # 3. seeded histories up to 64 leaves
    nh = ctx.budget(500, 12000)
    cases = [random_history(ctx.rng, 64, ctx.rng.choice([2, 4, 8, 12])) for _ in range(nh)]
    for i in range(0, len(cases), 3000):
        outs = run_batch(ctx, "set_hashes history (seeded, up to 64 leaves)", cases[i:i + 3000])
        if i == 0:
            ctx.sample({"case": {"n": cases[0]["n"], "calls": cases[0]["calls"][:2]}, "impl": outs[0][:300]})
    ctx.count("seeded-histories", nh)
