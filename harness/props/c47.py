"""C47 — a successful mutable publish is recoverable (mutable/publish.py bookkeeping of write answers)."""
ID = "C47"
LEAN_PROPS = "Tahoe.Props.C47"
DRIVER = "C47"
GENERATED = []
SOURCES = ["src/allmydata/mutable/publish.py", "src/allmydata/mutable/layout.py", "src/allmydata/storage_client.py"]
DESIGN_REF = "DESIGN.md §2 C47"
TECHNIQUE = ("Lean 4 theorems over an executable model of the last phase of Publish: the write proxies (an answer and a "
             "failure are handed on unchanged), finish_publishing's per-proxy callback chain, the bookkeeping "
             "(_connection_problem, _got_write_answer, _push, _failure/_done; writers, goal, placed, bad_servers), "
             "update_goal, the proxies created per goal entry, and the wire form of the test vectors with the server's "
             "compare — for every arrival order and failure pattern; differential correspondence of seeded sequences "
             "through the real finish_publishing()/_push()/_got_write_answer()/_connection_problem(), the real update_goal, "
             "the real SDMF/MDMF write proxies, the real storage_client glue (Foolscap and HTTP) with a real storage "
             "server's verdict, and of the event trace and on-disk result of every real publish in grid scenarios with "
             "faults injected on writes; a fixed corpus first; implementation-side monitors that inspect the share files")
LEVEL_TEXT = ("Proved in Lean for every arrival order: success_implies_k_acked and success_implies_k_stored (success => >= k "
              "distinct share numbers acknowledged wrote=True and stored on the servers, no unexpected version seen), "
              "fewer_than_k_fails / fewer_than_k_stored_fails, refused_or_surprising_write_is_ucw, bookkeeping_sound, "
              "update_goal_covers / update_goal_sound, fault_free_publish_stores_all, wire_testv_guards (a write guarded by "
              "a test vector cannot land on a share holding anything else). Tied to publish.py, layout.py and "
              "storage_client.py at function level and on grid runs with failing servers.")
LEVEL_NOTE = ("Lean kernel + standard axioms; hand-transcribed model tied by correspondence; the DeferredList contract "
              "(the final _push runs after every proxy's Deferred fired) is an explicit hypothesis; the preference order "
              "among eligible servers in update_goal is correspondence only; share encoding, signing and the storage "
              "servers' byte-level behaviour are exercised on the grid, not verified here")
RULE = ("fixed corpus first (VERIF_CORPUS_ONLY=1 runs only it): bookkeeping sequences, grid scenarios, wire vectors and "
        "partition scenarios, one per seeded change; then (a) seeded Publish states (k 1..4, 1..8 proxies on 1..6 servers, "
        "several proxies per server) with one event per proxy in seeded order (answer wrote=T/F with read_data holding own, "
        "co-written, foreign-same-version and foreign-other-version shares, or a failure), driven through the real "
        "finish_publishing() — non-trivial = at least one failure or refused/surprising answer; (b) seeded update_goal "
        "inputs and the proxies the real publish()/update() set-up creates; (c) write-proxy outcomes (answered / refused / "
        "failed) for both formats and test vectors through the real storage_client glue onto a real storage server; "
        "(d) grid scenarios: 1..12 servers, SDMF and MDMF, create then up to 3 publishes (overwrite / update) with a fault "
        "plan per server on slot_testv_and_readv_and_writev (fail before the write, fail after it = lost answer, server "
        "down, hang, an older share replayed between survey and write) — one case per publish; (e) two writers on a "
        "partitioned grid, heal, publish with the stale servermap; distinct = distinct canonical inputs")
TRUSTED = ["lean/Tahoe/Mutable/PublishDecision.lean, PublishRun.lean and WireTestv.lean are hand transcriptions of the "
           "Publish bookkeeping, the proxy/callback layers and the test-vector glue",
           "harness/grid.py, and the call-through observation wrappers of harness/props/c47.py around Publish.publish/"
           "update/_push/_got_write_answer/_connection_problem/_failure and the storage servers' test-and-set"]
ASSUMPTIONS = ["DeferredList fires after each of its Deferreds fired exactly once (Twisted)",
               "each write proxy sends one slot_testv_and_readv_and_writev (finish_publishing) — true of both "
               "SDMFSlotWriteProxy and MDMFSlotWriteProxy in this code base",
               "'the new version is on a share' is read from the share file's checkstring (seqnum, root hash); the share "
               "body's integrity is C10's subject",
               "an exception outside the bookkeeping (e.g. update() of a file with a missing share number: KeyError in "
               "_push_segment, reported as NotEnoughServersError) is an error report, not a bookkeeping decision: counted, "
               "not compared"]

import struct

from props import _mutable_common as mc


def cs_bytes(i):
    """interned checkstring number -> a well-formed SDMF checkstring"""
    return struct.pack(">BQ32s16s", 0, i, bytes([i % 256]) * 32, b"\x05" * 16)


# ----------------------------------------------------------------------------- (a) bookkeeping on a real Publish object

def gen_pub(rng):
    nserv = rng.randrange(1, 7)
    nsh = rng.randrange(1, 9)
    k = rng.randrange(1, 5)
    writers = []
    for sh in range(nsh):
        for _ in range(1 if rng.random() < 0.85 else 2):
            w = (sh, rng.randrange(nserv))
            if w not in writers:
                writers.append(w)
    if rng.random() < 0.1:
        writers = writers[:rng.randrange(0, len(writers) + 1)]
    cs = 7
    order = list(writers)
    rng.shuffle(order)
    pfail = rng.choice([0.0, 0.1, 0.3, 0.6])
    prefuse = rng.choice([0.0, 0.0, 0.1])
    psur = rng.choice([0.0, 0.0, 0.15])
    evs = []
    for (sh, srv) in order:
        if rng.random() < pfail:
            evs.append(("p", sh, srv))
            continue
        rd = {sh: rng.choice([3, 3, cs])}
        for (sh2, srv2) in writers:
            if srv2 == srv and sh2 != sh and rng.random() < 0.7:
                rd[sh2] = rng.choice([3, cs, 4])
        if rng.random() < psur:
            rd[20 + rng.randrange(3)] = rng.choice([cs, 9, 3])
        evs.append(("a", sh, srv, rng.random() >= prefuse, sorted(rd.items())))
    return {"k": k, "cs": cs, "vi": rng.random() < 0.95, "writers": writers, "evs": evs}


def pub_line(c):
    def ev(e):
        if e[0] == "p":
            return "p:%d@%d" % (e[1], e[2])
        return "a:%d@%d:%s:%s" % (e[1], e[2], "T" if e[3] else "F", ",".join("%d=%d" % tuple(x) for x in e[4]) or "-")
    return "pub %d %d %s %s %s" % (c["k"], c["cs"], "T" if c["vi"] else "F",
                                   ",".join("%d@%d" % tuple(w) for w in c["writers"]) or "-",
                                   " ".join(ev(e) for e in c["evs"]))


class FakeWriter:
    """what Publish.finish_publishing asks of a write proxy; its Deferred is fired by the harness"""

    def __init__(self, shnum, server):
        self.shnum = shnum
        self.server = server
        self.d = None

    def put_verification_key(self, vk):
        pass

    def get_verinfo(self):
        return (5, b"r" * 32, b"i" * 16, 6, 6, 1, 10, b"prefix", ())

    def finish_publishing(self):
        from twisted.internet import defer
        self.d = defer.Deferred()
        return self.d


class FakeNode:
    def set_downloader_hints(self, hints):
        self.hints = hints


def impl_pub(rt, c):
    """the real Publish methods on an object carrying exactly this state"""
    from twisted.internet import defer
    from twisted.python.failure import Failure
    from allmydata.util.dictutil import DictOfSets
    from allmydata.mutable import publish as P
    from allmydata.mutable.servermap import ServerMap
    from allmydata.mutable.common import UncoordinatedWriteError, NotEnoughServersError
    servers = {i: mc.FakeServer(i) for i in range(8)}
    # built by the real __init__ and initialised by the real publish() set-up, so that whatever attributes the class
    # keeps internally (e.g. how it remembers surprises) exist in the shape the class gives them; the harness then
    # installs the state under test through the attributes the bookkeeping methods read
    p, _err = mc.real_publish(c["k"], 10, list(servers.values()))
    p._node = FakeNode()
    p.required_shares = c["k"]
    p.total_shares = 10
    p.segment_size = 6
    p.num_outstanding = 0
    p.writers = DictOfSets()
    ws = {}
    for (sh, srv) in c["writers"]:
        w = FakeWriter(sh, servers[srv])
        ws[(sh, srv)] = w
        p.writers.add(sh, w)
    p.goal = set((servers[srv], sh) for (sh, srv) in c["writers"]) or {(servers[0], 0)}
    p.placed = set()
    p.bad_servers = set()
    p._checkstring = cs_bytes(c["cs"])
    p.versioninfo = (5, b"r" * 32, b"i" * 16, 6, 6, c["k"], 10, b"prefix", ()) if c["vi"] else ""
    p._servermap = ServerMap()
    for i in (0, 2, 4):
        p._servermap.mark_server_reachable(servers[i])
    p.done_deferred = defer.Deferred()
    p._started = p._started_pushing = 0.0
    p._state = P.PUSHING_BLOCKS_STATE
    p._current_segment = 0
    carried_on = []
    p.push_segment = lambda segnum: carried_on.append(segnum)      # the encoding work is not under test
    res = []
    p.done_deferred.addBoth(res.append)
    p._push()
    rt.settle()
    known_writers = all((e[1], e[2]) in ws for e in c["evs"])
    if not res and known_writers and ws:
        # the real finish_publishing(): it hangs _connection_problem / _got_write_answer on every proxy's Deferred;
        # the answers arrive after its loop has finished, in the order of the case
        p.finish_publishing()
        if not c["vi"]:
            p.versioninfo = ""
        for e in c["evs"]:
            w = ws[(e[1], e[2])]
            if w.d is None or w.d.called:
                continue
            if e[0] == "p":
                w.d.errback(Failure(RuntimeError("boom")))
            else:
                w.d.callback((e[3], {sh: [cs_bytes(cs)] for (sh, cs) in e[4]}))
        p._state = P.DONE_STATE
        p._push()
        rt.settle()
    elif not res:
        for e in c["evs"]:
            w = ws.get((e[1], e[2])) or FakeWriter(e[1], servers[e[2]])
            if e[0] == "p":
                # the errback chain of finish_publishing: _connection_problem, whose None result then
                # reaches _got_write_answer
                r = p._connection_problem(Failure(RuntimeError("boom")), w)
                p._got_write_answer(r, w, 0.0)
            else:
                p._got_write_answer((e[3], {sh: [cs_bytes(cs)] for (sh, cs) in e[4]}), w, 0.0)
        p._state = P.DONE_STATE
        p._push()
        rt.settle()
    if not res:
        out = "no-result"
    elif res[0] is None:
        out = "success"
    elif isinstance(res[0], Failure):
        out = type(res[0].value).__name__
    else:
        out = repr(res[0])
    left = sorted((w.shnum, w.server.i) for wset in p.writers.values() for w in wset)
    goal = sorted((s.i, sh) for (s, sh) in p.goal) if c["writers"] else []
    return "%s;%s;%s;%s;%s;%s" % (out, "T" if getattr(p, "surprised") else "F",
                                  ",".join("%d@%d" % x for x in left) or "-",
                                  ",".join("%d.%d" % x for x in sorted((s.i, sh) for (s, sh) in p.placed)) or "-",
                                  ",".join(str(i) for i in sorted(s.i for s in p.bad_servers)) or "-",
                                  ",".join("%d.%d" % x for x in goal) or "-")


def monitor_pub(ctx, c, out, where, case=None):
    """the statement on one publish: success => k acknowledged share numbers and no unexpected version"""
    case = case or {"kind": "pub", "c": c}
    result = out.split(";")[0]
    failed = {(e[1], e[2]) for e in c["evs"] if e[0] == "p"}
    refused = {(e[1], e[2]) for e in c["evs"] if e[0] == "a" and not e[3]}
    okw = {(e[1], e[2]) for e in c["evs"] if e[0] == "a" and e[3]} - failed - refused
    acked = {sh for (sh, srv) in okw if (sh, srv) in [tuple(w) for w in c["writers"]]}
    placeable = {sh for (sh, srv) in [tuple(w) for w in c["writers"]] if (sh, srv) not in failed}
    unexpected = False
    for e in c["evs"]:
        if e[0] != "a":
            continue
        mine = {sh for (sh, srv) in [tuple(w) for w in c["writers"]] if srv == e[2]} | {e[1]}
        if any(sh not in mine and cs != c["cs"] for (sh, cs) in e[4]):
            unexpected = True
    if result == "success":
        if len(acked) < c["k"]:
            ctx.violation("publish reported success with %d acknowledged share numbers, k=%d" % (len(acked), c["k"]), case,
                          "success-with-fewer-than-k-acked-" + where)
        if refused:
            ctx.violation("publish reported success although a write was refused (wrote=False)", case,
                          "success-despite-refused-write-" + where)
        if unexpected:
            ctx.violation("publish reported success although an unexpected version was reported by a server", case,
                          "success-despite-unexpected-version-" + where)
    if len(placeable) < c["k"] and result == "success":
        ctx.violation("fewer than k share numbers could be placed but the publish reported success", case,
                      "success-with-fewer-than-k-placeable-" + where)
    if result not in ("success", "UncoordinatedWriteError", "NotEnoughServersError", "no-result"):
        ctx.count("pub-other-result:" + result)
    return bool(failed or refused or unexpected)


# ----------------------------------------------------------------------------- (a') the write proxies

def impl_proxy(mdmf, rpc):
    """the real SDMF/MDMF write proxy's finish_publishing() against a storage server that answers / refuses / fails:
    what does the Deferred handed to Publish fire with?"""
    from twisted.internet import defer
    from twisted.python.failure import Failure
    from allmydata.mutable.layout import MDMFSlotWriteProxy, SDMFSlotWriteProxy

    class SS:
        def slot_testv_and_readv_and_writev(self, si, secrets, tw, rv):
            if rpc[0] != "A":
                return defer.fail(RuntimeError("lost"))
            return defer.succeed((rpc[1], {sh: [cs_bytes(cs)] for (sh, cs) in rpc[2]}))
    cls = MDMFSlotWriteProxy if mdmf else SDMFSlotWriteProxy
    w = cls(0, SS(), b"s" * 16, (b"w" * 32, b"r" * 32, b"c" * 32), 2, 1, 2, 6, 6)
    w.put_block(b"abcdef", 0, b"s" * 16)
    w.put_encprivkey(b"e" * 100)
    w.put_blockhashes([b"h" * 32])
    w.put_sharehashes({0: b"h" * 32})
    w.put_root_hash(b"r" * 32)
    w.put_signature(b"g" * 256)
    w.put_verification_key(b"v" * 200)
    box = []
    w.finish_publishing().addBoth(box.append)
    if not box:
        return "no-result"
    r = box[0]
    if isinstance(r, Failure):
        return "failure"
    if not r:
        return "none"
    back = {bytes(cs_bytes(i)): i for i in range(32)}
    return "answer:%s:%s" % ("T" if r[0] else "F",
                             ",".join("%d=%d" % (sh, back.get(bytes(v[0]), -1)) for sh, v in sorted(r[1].items())) or "-")


def rpc_token(rpc):
    if rpc[0] == "A":
        return "A:%s:%s" % ("T" if rpc[1] else "F", ",".join("%d=%d" % tuple(x) for x in rpc[2]) or "-")
    return "B" if rpc[0] == "B" else "L:%s" % ("T" if rpc[1] else "F")


def gen_rpc(rng):
    r = rng.random()
    if r < 0.6:
        return ("A", rng.random() < 0.7, sorted({rng.randrange(4): rng.randrange(1, 12) for _ in range(rng.randrange(0, 3))}.items()))
    return ("B",) if r < 0.8 else ("L", rng.random() < 0.7)


# ----------------------------------------------------------------------------- (b) update_goal

def gen_goal(rng):
    nserv = rng.randrange(0, 8)
    total = rng.randrange(1, 11)
    full = list(range(nserv))
    rng.shuffle(full)
    permitted = {s: rng.random() < 0.85 for s in full}
    bad = [s for s in range(nserv + 1) if rng.random() < 0.2]
    goal = set()
    for sh in range(total + 1):
        if rng.random() < 0.5 and nserv:
            goal.add((rng.randrange(nserv), sh if rng.random() < 0.95 else rng.randrange(12)))
            if rng.random() < 0.15:
                goal.add((rng.randrange(nserv), sh))
    return {"total": total, "bad": bad, "full": [(s, permitted[s]) for s in full], "goal": sorted(goal)}


def goal_line(c):
    return "goal %d %s %s %s" % (c["total"], ",".join(map(str, c["bad"])) or "-",
                                 ",".join("%d:%s" % (s, "T" if b else "F") for (s, b) in c["full"]) or "-",
                                 ",".join("%d.%d" % tuple(x) for x in c["goal"]) or "-")


def impl_goal(c):
    from allmydata.mutable import publish as P
    servers = {i: mc.FakeServer(i) for i in range(10)}
    for (s, b) in c["full"]:
        servers[s].permitted = b
    p, _err = mc.real_publish(1, max(1, c["total"]), list(servers.values())[:1])
    p._first_write_error = None
    p._new_seqnum = 2
    p.total_shares = c["total"]
    p.bad_servers = set(servers[s] for s in c["bad"])
    p.full_serverlist = [servers[s] for (s, _b) in c["full"]]
    p.goal = set((servers[s], sh) for (s, sh) in c["goal"])
    try:
        p.update_goal()
    except Exception as e:
        return type(e).__name__
    return ",".join("%d.%d" % x for x in sorted((s.i, sh) for (s, sh) in p.goal)) or "-"


# ----------------------------------------------------------------------------- (c) grid scenarios with failing writes

FAULTS = ["ok", "ok", "ok", "before", "after", "down", "hang", "tamper", "tamper"]


def gen_scenario(rng):
    S = rng.randrange(1, 13)
    k = rng.randrange(1, 4)
    n = rng.randrange(k, 11)
    fmt = rng.choice("sm")
    heavy = rng.random() < 0.4
    steps = []
    for i in range(rng.randrange(2, 5)):
        plan = {}
        for s in range(S):
            f = rng.choice(FAULTS if heavy else FAULTS[:3] + ["before", "after", "down", "tamper"]) if rng.random() < (0.6 if heavy else 0.25) else "ok"
            if f == "hang" and rng.random() < 0.7:
                f = "before"
            if f != "ok":
                plan[str(s)] = f
        kind = "create" if i == 0 else rng.choice(["pub", "pub", "update"])
        steps.append({"kind": kind, "data": rng.randbytes(rng.choice([0, 9, 20, 35])).hex(),
                      "off": rng.randrange(0, 30), "faults": plan})
    return {"servers": S, "k": k, "n": n, "fmt": fmt, "sched": rng.randrange(1 << 30),
            "policy": rng.choice(["random", "random", "fifo", "lifo"]), "steps": steps}


class PubHooks:
    """call-through wrappers recording the event trace of every real Publish"""

    def __init__(self):
        self.pubs = []
        self.sidx = None
        self.served = []      # (server, shnums, wrote) of every test-and-set a storage server executed, in order

    def rec_of(self, p):
        for r in self.pubs:
            if r["p"] is p:
                return r
        r = {"p": p, "evs": [], "writers": None, "cs": None, "interned": {}, "result": None}
        self.pubs.append(r)
        return r

    def install(self):
        from allmydata.mutable import publish as P
        H = self
        self._saved = (P.Publish.publish, P.Publish.update, P.Publish._push, P.Publish._got_write_answer,
                       P.Publish._connection_problem, P.Publish._failure)
        o_publish, o_update, o_push, o_answer, o_problem, o_failure = self._saved

        def failure(p, f=None):
            if f:
                # an exception in the encode/push pipeline (e.g. update() of a file with a missing share number:
                # KeyError in _push_segment) reaches _failure through an errback: not a bookkeeping decision
                H.rec_of(p)["pipeline-error"] = type(f.value).__name__
            return o_failure(p, f)

        def finish(res, r):
            from twisted.python.failure import Failure
            r["result"] = "success" if not isinstance(res, Failure) else type(res.value).__name__
            return res

        def publish(p, newdata):
            r = H.rec_of(p)
            r["served_start"] = len(H.served)
            try:
                d = o_publish(p, newdata)
            except Exception as e:
                r["result"] = "raised:" + type(e).__name__
                raise
            return d.addBoth(finish, r)

        def update(p, data, offset, blockhashes, version):
            r = H.rec_of(p)
            r["served_start"] = len(H.served)
            try:
                d = o_update(p, data, offset, blockhashes, version)
            except Exception as e:
                r["result"] = "raised:" + type(e).__name__
                raise
            return d.addBoth(finish, r)

        def push(p, ignored=None):
            r = H.rec_of(p)
            if r["writers"] is None:
                r["writers"] = sorted((w.shnum, H.sidx(w.server)) for ws in p.writers.values() for w in ws)
                r["k"] = p.required_shares
            return o_push(p, ignored)

        def intern(r, cs):
            return r["interned"].setdefault(bytes(cs), len(r["interned"]) + 1)

        def answer(p, ans, writer, started):
            r = H.rec_of(p)
            if ans:
                wrote, rd = ans
                if r["cs"] is None:
                    r["cs"] = intern(r, p._checkstring)
                elif r["cs"] != intern(r, p._checkstring):
                    r["cs-changed"] = True
                r["vi"] = bool(p.versioninfo)
                r["evs"].append(("a", writer.shnum, H.sidx(writer.server), bool(wrote),
                                 sorted((sh, intern(r, v[0])) for sh, v in rd.items())))
            return o_answer(p, ans, writer, started)

        def problem(p, f, writer):
            r = H.rec_of(p)
            r["evs"].append(("p", writer.shnum, H.sidx(writer.server)))
            return o_problem(p, f, writer)
        P.Publish.publish, P.Publish.update, P.Publish._push = publish, update, push
        P.Publish._got_write_answer, P.Publish._connection_problem = answer, problem
        P.Publish._failure = failure

    def uninstall(self):
        from allmydata.mutable import publish as P
        (P.Publish.publish, P.Publish.update, P.Publish._push, P.Publish._got_write_answer,
         P.Publish._connection_problem, P.Publish._failure) = self._saved


def run_scenario(ctx, sc, acc):
    import grid
    from allmydata.mutable import publish
    from allmydata.mutable.publish import MutableData
    from allmydata.interfaces import SDMF_VERSION, MDMF_VERSION
    case = {"kind": "scenario", "sc": sc}
    H = PubHooks()
    saved_seg = publish.DEFAULT_MUTABLE_MAX_SEGMENT_SIZE
    publish.DEFAULT_MUTABLE_MAX_SEGMENT_SIZE = 16
    H.install()
    try:
        with grid.Runtime(seed=sc["sched"], policy=sc["policy"]) as rt:
            g = mc.make_grid("c47", rt, sc["servers"], 1, sc["k"], sc["n"])
            H.sidx = mc.server_number(g)
            for i_, w_ in g.wrappers.items():
                # record, at the server, the verdict of every test-and-set it executes (below the write proxies)
                class Served:
                    def __init__(self, original, i):
                        self._o, self._i = original, i

                    def __getattr__(self, name):
                        return getattr(self._o, name)

                    def remote_slot_testv_and_readv_and_writev(self, si, secrets, tw, rv):
                        res = self._o.remote_slot_testv_and_readv_and_writev(si, secrets, tw, rv)
                        H.served.append((self._i, sorted(tw), bool(res[0])))
                        return res
                w_.original = Served(w_.original, i_)
            try:
                c = g.clients[0]
                node = None
                snaps = []
                old_snap = None
                executed = {}          # (server, shnum) -> wrote flag of a request that was executed but whose answer was lost

                def W(d):
                    # publishes use no timers: pump only what is due now, so that a hung server is seen as
                    # quiescence at once (the servers' periodic crawler timers would otherwise keep the pump busy)
                    from twisted.python.failure import Failure
                    box = []
                    d.addBoth(box.append)
                    rt.pump(until=d, advance_time=False)
                    if not box:
                        raise grid.Stuck("quiescent")
                    if isinstance(box[0], Failure):
                        box[0].raiseException()
                    return box[0]

                def set_faults(plan):
                    for i, w in g.wrappers.items():
                        f = plan.get(str(i), "ok")
                        w.broken = (f == "down")
                        w.fault = None
                        if f == "tamper":
                            # the server "replays" an older copy of one share between the publisher's survey and its
                            # write: that write is refused, other shares of the same server are accepted
                            def fault(methname, args, kwargs, _i=i, _st={"done": False}):
                                if methname != "slot_testv_and_readv_and_writev" or _st["done"] or not old_snap:
                                    return None
                                _st["done"] = True
                                sh = sorted(args[2])[0]
                                mc.restore_files(old_snap, [(_i, sh)])
                                return None
                            w.fault = fault
                        if f in ("before", "after", "hang"):
                            def fault(methname, args, kwargs, _f=f, _w=w, _i=i):
                                if methname != "slot_testv_and_readv_and_writev":
                                    return None
                                if _f == "before":
                                    return "error"
                                if _f == "hang":
                                    return "hang"
                                # the write is executed, the answer is lost
                                r_ = _w.original.remote_slot_testv_and_readv_and_writev(*args, **kwargs)
                                for sh_ in args[2]:
                                    executed[(_i, sh_)] = bool(r_[0])
                                return "error"
                            w.fault = fault

                for idx, st in enumerate(sc["steps"]):
                    npubs = len(H.pubs)
                    data = bytes.fromhex(st["data"])
                    if node is not None:
                        snaps.append(mc.snapshot_files(g, node.get_storage_index()))
                    old_snap = snaps[-2] if len(snaps) >= 2 else None
                    executed.clear()
                    set_faults(st["faults"])
                    ctx.count("grid-step:" + st["kind"])
                    stuck = False
                    try:
                        if st["kind"] == "create":
                            node = W(c.create_mutable_file(
                                MutableData(data), version=MDMF_VERSION if sc["fmt"] == "m" else SDMF_VERSION,
                                unique_keypair=mc.keypair()))
                        elif node is None:
                            continue
                        elif st["kind"] == "pub":
                            W(node.overwrite(MutableData(data)))
                        else:
                            mv = W(node.get_best_mutable_version())
                            W(mv.update(MutableData(data), min(st["off"], mv.get_size())))
                        outcome = "success"
                    except grid.Stuck:
                        outcome, stuck = "stuck", True
                    except Exception as e:
                        outcome = mc.exc_name(e)
                    set_faults({})
                    ctx.count("grid-op:" + outcome)
                    step_pubs = H.pubs[npubs:]
                    for j_, r in enumerate(step_pubs):
                        p = r["p"]
                        # the statement: success requires that no unexpected version was encountered.  A server that
                        # refuses a test-and-set (wrote=False) has met a version the publisher did not expect, however
                        # the layers between server and Publish report it.
                        lo_ = r.get("served_start", len(H.served))
                        hi_ = step_pubs[j_ + 1].get("served_start", len(H.served)) if j_ + 1 < len(step_pubs) else len(H.served)
                        # (a refusal whose answer was lost on the way never reached the publisher: not "encountered")
                        refused_ = [x for x in H.served[lo_:hi_] if not x[2] and not all((x[0], sh_) in executed for sh_ in x[1])]
                        if refused_:
                            ctx.count("grid-publish-with-refused-test-and-set:" + str(r["result"]))
                            if r["result"] == "success":
                                ctx.violation("publish reported success although server(s) %r refused its test-and-set "
                                              "(wrote=False)" % sorted(set(x[0] for x in refused_)), case,
                                              "success-despite-refused-test-and-set-at-server", detail={"step": idx})
                        seq, rh = getattr(p, "_new_seqnum", None), getattr(p, "root_hash", None)
                        if r["result"] is None:
                            r["result"] = "no-result"
                        ctx.count("grid-publish:" + r["result"])
                        si = p._storage_index
                        disk = mc.disk_state(g, si)
                        holders = {sh for (i, sh), cs in disk.items() if cs and cs[0] != "?" and (cs[1], cs[2]) == (seq, rh)}
                        ctx.case(("gpub", sc["k"], len(holders), r["result"], tuple(sorted(st["faults"].items()))))
                        if r["result"] == "success":
                            if len(holders) < sc["k"]:
                                ctx.violation("publish reported success; the new version (seq %s) is on %d distinct share "
                                              "numbers on disk, k=%d" % (seq, len(holders), sc["k"]), case,
                                              "success-with-fewer-than-k-shares-on-disk", detail={"step": idx})
                            ctx.count("grid-success-shares:%s" % ("N" if len(holders) >= sc["n"] else ">=k"))
                        else:
                            ctx.count("grid-failed-publish-left-%s-shares" % ("k+" if len(holders) >= sc["k"] else "<k"))
                        if r.get("pipeline-error") or r["result"].startswith("raised:"):
                            # an exception outside the bookkeeping (encode/push pipeline, or raised synchronously by
                            # Publish.update, e.g. IndexError for an empty update): not a _push decision
                            ctx.count("grid-publish-pipeline-error:" + (r.get("pipeline-error") or r["result"]))
                        elif r["writers"] is not None and r["result"] != "no-result" and not r.get("cs-changed"):
                            mcase = {"k": r["k"], "cs": r["cs"] or 0, "vi": r.get("vi", True), "writers": r["writers"],
                                     "evs": r["evs"]}
                            left = sorted((w.shnum, H.sidx(w.server)) for ws in p.writers.values() for w in ws)
                            impl = "%s;%s;%s;%s;%s;%s" % (
                                r["result"], "T" if getattr(p, "surprised") else "F", ",".join("%d@%d" % x for x in left) or "-",
                                ",".join("%d.%d" % x for x in sorted((H.sidx(s), sh) for (s, sh) in p.placed)) or "-",
                                ",".join(str(i) for i in sorted(H.sidx(s) for s in p.bad_servers)) or "-",
                                ",".join("%d.%d" % x for x in sorted((H.sidx(s), sh) for (s, sh) in p.goal)) or "-")
                            acc["lines"].append(pub_line(mcase))
                            acc["impl"].append(impl)
                            acc["cases"].append({"kind": "grid-pub", "sc": sc, "step": idx, "line": acc["lines"][-1]})
                            monitor_pub(ctx, mcase, impl, "grid", case)
                            # end to end: what happened to each request, and which slots hold the new version on disk
                            arr = []
                            for e in r["evs"]:
                                if e[0] == "a":
                                    arr.append("%d@%d:A:%s:%s" % (e[1], e[2], "T" if e[3] else "F",
                                                                   ",".join("%d=%d" % tuple(x) for x in e[4]) or "-"))
                                elif (e[2], e[1]) in executed:
                                    arr.append("%d@%d:L:%s" % (e[1], e[2], "T" if executed[(e[2], e[1])] else "F"))
                                else:
                                    arr.append("%d@%d:B" % (e[1], e[2]))
                            on_disk = sorted((i2, sh2) for (i2, sh2), cs2 in disk.items()
                                             if cs2 and cs2[0] != "?" and (cs2[1], cs2[2]) == (seq, rh))
                            acc["rpc_lines"].append("rpc %d %d %s %s %s" % (
                                r["k"], r["cs"] or 0, "T" if r.get("vi", True) else "F",
                                ",".join("%d@%d" % tuple(w2) for w2 in r["writers"]) or "-", " ".join(arr)))
                            acc["rpc_impl"].append(impl + ";" + (",".join("%d.%d" % x for x in on_disk) or "-"))
                            acc["rpc_cases"].append({"kind": "grid-rpc", "sc": sc, "step": idx, "line": acc["rpc_lines"][-1]})
                    if stuck:
                        break
            finally:
                g.close()
    finally:
        H.uninstall()
        publish.DEFAULT_MUTABLE_MAX_SEGMENT_SIZE = saved_seg



# ----------------------------------------------------------------------------- (d) test vectors on the wire

WIRE_CORPUS = [
    # (offset, length, specimen hex, share contents hex or None = no such share)
    (0, 1, "", None), (0, 1, "", ""), (0, 1, "", "00"), (0, 1, "", "0102030405"),          # "must not exist yet"
    (0, 4, "01020304", "0102030405"), (0, 4, "01020304", "0902030405"), (0, 4, "01020304", None), (0, 4, "01020304", "0102"),
    (2, 2, "0304", "0102030405"), (0, 0, "", "0102"), (7, 3, "", "0102"),
]


def gen_wire(rng):
    share = None if rng.random() < 0.25 else rng.randbytes(rng.choice([0, 1, 5, 60]))
    r = rng.random()
    if r < 0.3:
        return (0, 1, "", None if share is None else share.hex())
    if r < 0.7 and share:
        n_ = rng.randrange(1, len(share) + 1)
        spec = bytearray(share[:n_])
        if rng.random() < 0.4:
            spec[rng.randrange(n_)] ^= 1
        return (0, n_, bytes(spec).hex(), share.hex())
    return (rng.randrange(0, 8), rng.randrange(0, 6), rng.randbytes(rng.randrange(0, 4)).hex(),
            None if share is None else share.hex())


def run_wire(ctx, cases):
    """the tuples the real storage_client glue (Foolscap and HTTP) builds for a proxy's test vector, and the verdict of a
    real storage server on that wire vector, vs the model (wireOf / passes)"""
    import grid
    from twisted.internet import defer
    from allmydata import storage_client as SC
    from allmydata.storage import http_client as HC
    lines, impl, jc = [], [], []
    secrets = (b"w" * 32, b"r" * 32, b"c" * 32)
    cap = {}

    class Rref:
        def callRemote(self, name, *a):
            cap["foolscap"] = a[2]
            return defer.succeed((True, {}))

    async def fake_rtw(self_, si, we, lr, lc, twv, rv):
        cap["http"] = twv

        class Res:
            success, reads = True, {}
        return Res()
    orig_rtw = HC.StorageClientMutables.read_test_write_chunks
    HC.StorageClientMutables.read_test_write_chunks = lambda self_, *a, **k: defer.ensureDeferred(fake_rtw(self_, *a, **k))
    try:
        with grid.Runtime(seed=0, policy="fifo") as rt:
            g = grid.Grid(grid.fresh_dir("c47w"), rt, num_servers=1, num_clients=0, k=1, happy=1, n=1)
            try:
                for idx, (off, ln, spec, share) in enumerate(cases):
                    case = {"kind": "wire", "c": [off, ln, spec, share]}
                    specb = bytes.fromhex(spec)
                    tw = {0: ([(off, ln, specb)], [], None)}
                    cap.clear()
                    SC._StorageServer(lambda: Rref()).slot_testv_and_readv_and_writev(b"s" * 16, secrets, tw, [])
                    SC._HTTPStorageServer.from_http_client(None).slot_testv_and_readv_and_writev(b"s" * 16, secrets, tw, [])
                    wire = cap["foolscap"][0][0][0]
                    hv = cap["http"][0].test_vectors[0]
                    http_t = (hv.offset, hv.size, hv.specimen)
                    # a real storage server's verdict on the wire vector
                    si = b"w%015d" % idx
                    ss = g.storage[0]
                    if share is not None:
                        ss.slot_testv_and_readv_and_writev(si, secrets, {0: ([], [(0, bytes.fromhex(share))], None)}, [])
                    verdict = ss.slot_testv_and_readv_and_writev(si, secrets, {0: ([tuple(wire)], [], None)}, [])[0]
                    impl.append("%d,%d,%s,%s;%s" % (wire[0], wire[1], wire[2].decode(), mc.hx(wire[3]), "T" if verdict else "F"))
                    lines.append("testv %d %d %s %s" % (off, ln, spec or "-", "N" if share is None else (share or "-")))
                    jc.append(case)
                    ctx.case(("wire", off, ln, spec, share))
                    if http_t != (off, ln, specb):
                        ctx.violation("the HTTP client turns the test vector (%d, %d, %r) into %r" % (off, ln, specb, http_t), case,
                                      "http-test-vector-altered")
                    # statement: a write succeeds only if the share still holds what the publisher saw, or does not exist:
                    # the must-not-exist vector must fail on every non-empty share, a checkstring vector on any other content
                    if (off, ln, spec) == (0, 1, "") and share not in (None, "") and verdict:
                        ctx.violation("the 'share must not exist yet' test vector went out as %r and PASSES on an existing "
                                      "%d-byte share" % (tuple(wire), len(share) // 2), case, "must-not-exist-vector-passes-on-share")
                    if off == 0 and ln == len(specb) > 0 and verdict and (share is None or bytes.fromhex(share)[:ln] != specb):
                        ctx.violation("a checkstring test vector passes on a share that does not start with it", case,
                                      "checkstring-vector-passes-on-other-share")
            finally:
                g.close()
    finally:
        HC.StorageClientMutables.read_test_write_chunks = orig_rtw
    ctx.compare("test vectors: the 4-tuple storage_client._StorageServer puts on the wire and a real storage server's verdict "
                "on it vs wireOf / passes", jc, impl, ctx.model(lines))


# ----------------------------------------------------------------------------- (e) partitioned writers with stale maps

def gen_partition(rng):
    S = rng.randrange(3, 7)
    k = rng.randrange(1, 3)
    n = rng.randrange(max(2 * k, 2), max(2 * k, min(S, 6)) + 1)
    return {"family": "partition", "servers": S, "k": k, "n": n, "fmt": rng.choice("sm"), "sched": rng.randrange(1 << 30),
            "policy": rng.choice(["fifo", "random", "lifo"]), "split": rng.randrange(1 << 16)}


PARTITION_CORPUS = [
    {"family": "partition", "servers": 4, "k": 2, "n": 4, "fmt": "s", "sched": 7, "policy": "fifo", "split": 0},
    {"family": "partition", "servers": 4, "k": 2, "n": 4, "fmt": "m", "sched": 7, "policy": "fifo", "split": 0},
    {"family": "partition", "servers": 5, "k": 1, "n": 4, "fmt": "s", "sched": 8, "policy": "random", "split": 5},
]


def run_partition(ctx, sc):
    """Writer A surveys while it reaches only some servers; writer B (same cap) reaches only the others and publishes;
    the partition heals; A publishes with its stale servermap.  Statement: A may report success only if no unexpected
    version was encountered -- it must not replace a share holding a version its servermap did not contain and still say
    success; and B's successfully reported version is not silently lost."""
    import grid
    from allmydata.mutable.publish import MutableData
    from allmydata.mutable.common import MODE_WRITE
    from allmydata.interfaces import SDMF_VERSION, MDMF_VERSION
    case = {"kind": "scenario", "sc": sc}
    k, n = sc["k"], sc["n"]
    try:
        with grid.Runtime(seed=sc["sched"], policy=sc["policy"]) as rt:
            g = mc.make_grid("c47p", rt, sc["servers"], 2, k, n)
            sidx = mc.server_number(g)
            try:
                nodeA = rt.wait(g.clients[0].create_mutable_file(
                    MutableData(b"version one " * 20), version=MDMF_VERSION if sc["fmt"] == "m" else SDMF_VERSION,
                    unique_keypair=mc.keypair()))
                nodeB = g.clients[1].create_node_from_uri(nodeA.get_uri())
                si = nodeA.get_storage_index()
                holders = sorted(set(i for (i, _sh) in mc.disk_state(g, si)))
                # split the share-holding servers into two sides, each with >= k share numbers if possible
                order = holders[sc["split"] % len(holders):] + holders[:sc["split"] % len(holders)]
                sideA = set(order[:max(1, len(order) // 2)])
                sideB = set(g.wrappers) - sideA

                def partition(reachable):
                    for i, w in g.wrappers.items():
                        w.fault = None if i in reachable else (lambda methname, args, kwargs: "error")
                partition(sideA)
                try:
                    smA = rt.wait(nodeA.get_servermap(MODE_WRITE))
                except Exception as e:
                    ctx.count("partition-A-survey-error:" + mc.exc_name(e))
                    return
                believed = {(sidx(s), sh): (v[0], v[1]) for (s, sh), (v, _t) in smA.get_known_shares().items()}
                partition(sideB)
                try:
                    rt.wait(nodeB.overwrite(MutableData(b"written by B " * 20)))
                    b_ok = True
                except grid.Stuck:
                    raise
                except Exception as e:
                    b_ok = False
                    ctx.count("partition-B-error:" + mc.exc_name(e))
                partition(set(g.wrappers))
                before = {key: cs and cs[1:3] for key, cs in mc.disk_state(g, si).items()}
                b_version = None
                if b_ok:
                    newer = [v for v in before.values() if v and v not in believed.values()]
                    b_version = newer[0] if newer else None
                try:
                    rt.wait(nodeA.upload(MutableData(b"written by A " * 20), smA))
                    a_result = "success"
                except grid.Stuck:
                    raise
                except Exception as e:
                    a_result = mc.exc_name(e)
                after = {key: cs and cs[1:3] for key, cs in mc.disk_state(g, si).items()}
                replaced_unexpected = sorted(key for key, new in after.items()
                                             if before.get(key) is not None and before[key] != new and believed.get(key) != before[key])
                ctx.count("partition-%s-A:%s" % ("B-ok" if b_ok else "B-failed", a_result))
                ctx.case(("partition", sc["fmt"], k, n, sc["servers"], b_ok, a_result, len(replaced_unexpected)))
                if a_result == "success" and replaced_unexpected:
                    ctx.violation("a publish with a stale servermap reported success although it replaced share(s) %r that held a "
                                  "version its servermap did not contain" % replaced_unexpected, case,
                                  "success-despite-unexpected-version-on-disk")
                if b_version is not None and a_result != "UncoordinatedWriteError":
                    left = len({sh for (i, sh), v in after.items() if v == b_version})
                    if left < k:
                        ctx.violation("B's successfully reported version is left with %d < k shares after A's publish, which "
                                      "ended with %s (no UncoordinatedWriteError)" % (left, a_result), case,
                                      "successful-publish-silently-replaced")
            finally:
                g.close()
    except grid.Stuck:
        ctx.count("grid-stuck")
    except Exception:
        import traceback
        ctx.disagree("partition scenario could not be driven to the end", case, traceback.format_exc()[-800:], None)
        ctx.count("grid-harness-exception")


CORPUS = [
    {"k": 2, "cs": 7, "vi": True, "writers": [(0, 0), (1, 1), (2, 2)],
     "evs": [("a", 1, 1, True, [(1, 3), (2, 7)]), ("p", 2, 2), ("a", 0, 0, True, [(0, 3)])]},
    {"k": 2, "cs": 7, "vi": True, "writers": [(0, 0), (1, 1), (2, 2)],
     "evs": [("p", 1, 1), ("p", 2, 2), ("a", 0, 0, True, [])]},
    {"k": 2, "cs": 7, "vi": True, "writers": [(0, 0), (1, 0), (2, 0)],
     "evs": [("p", 1, 0), ("a", 0, 0, True, [(0, 3), (1, 3), (2, 3)]), ("a", 2, 0, True, [(0, 7), (1, 3), (2, 3)])]},
    {"k": 1, "cs": 7, "vi": True, "writers": [(0, 0)], "evs": [("a", 0, 0, False, [(0, 9)])]},
    {"k": 3, "cs": 7, "vi": True, "writers": [(0, 0), (1, 1)], "evs": [("a", 0, 0, True, []), ("a", 1, 1, True, [])]},
    {"k": 1, "cs": 7, "vi": False, "writers": [(0, 0), (0, 1)], "evs": [("a", 0, 1, True, [(5, 7)]), ("a", 0, 0, True, [(5, 8)])]},
    # one case per known mechanism (seeded changes and repaired defects), so that re-introducing one is caught here:
    # C47-a: share 0 has two holders, the holders of shares 1 and 2 fail -> one distinct share number < k
    {"k": 2, "cs": 7, "vi": True, "writers": [(0, 0), (0, 1), (1, 2), (2, 3)],
     "evs": [("p", 1, 2), ("a", 0, 0, True, [(0, 3)]), ("p", 2, 3), ("a", 0, 1, True, [(0, 3)])]},
    # C47-c: 4 of 5 requests fail; each failure must drop its own proxy (k = 3)
    {"k": 3, "cs": 7, "vi": True, "writers": [(0, 0), (1, 1), (2, 2), (3, 3), (4, 4)],
     "evs": [("p", 0, 0), ("p", 2, 2), ("a", 4, 4, True, [(4, 3)]), ("p", 1, 1), ("p", 3, 3)]},
    {"k": 3, "cs": 7, "vi": True, "writers": [(0, 0), (1, 1), (2, 2), (3, 3), (4, 4)],
     "evs": [("p", 4, 4), ("p", 3, 3), ("a", 0, 0, True, [(0, 3)]), ("p", 1, 1), ("p", 2, 2)]},
    # C12-b: a refusal from a server, then an accepted write from the same server: still UncoordinatedWriteError
    {"k": 1, "cs": 7, "vi": True, "writers": [(0, 0), (1, 0), (2, 1)],
     "evs": [("a", 0, 0, False, [(0, 9), (1, 3)]), ("a", 1, 0, True, [(0, 9), (1, 3)]), ("a", 2, 1, True, [(2, 3)])]},
    {"k": 1, "cs": 7, "vi": True, "writers": [(0, 0), (1, 0)],
     "evs": [("a", 1, 0, False, [(0, 3), (1, 9)]), ("a", 0, 0, True, [(0, 3), (1, 9)])]},
]

# grid scenarios of the fixed corpus
GRID_CORPUS = [
    # C47-b: MDMF, requests to two of three servers fail before reaching them: one stored share number < k = 2
    {"servers": 3, "k": 2, "n": 3, "fmt": "m", "sched": 5, "policy": "fifo",
     "steps": [{"kind": "create", "data": "00112233445566778899", "off": 0, "faults": {}},
               {"kind": "pub", "data": "aabbccddeeff00112233", "off": 0, "faults": {"0": "before", "1": "before"}}]},
    {"servers": 3, "k": 2, "n": 3, "fmt": "s", "sched": 6, "policy": "fifo",
     "steps": [{"kind": "create", "data": "00112233445566778899", "off": 0, "faults": {}},
               {"kind": "pub", "data": "aabbccddeeff00112233", "off": 0, "faults": {"1": "before", "2": "after"}}]},
    # C12-c: MDMF, a server replays an older share between survey and write: the refusal must surface as UCW
    {"servers": 2, "k": 1, "n": 4, "fmt": "m", "sched": 7, "policy": "fifo",
     "steps": [{"kind": "create", "data": "0011223344", "off": 0, "faults": {}},
               {"kind": "pub", "data": "5566778899", "off": 0, "faults": {}},
               {"kind": "pub", "data": "aabbccddee", "off": 0, "faults": {"0": "tamper"}}]},
]


def json_copy(x):
    import json
    return json.loads(json.dumps(x))


def corpus_only():
    import os
    return bool(os.environ.get("VERIF_CORPUS_ONLY"))


def untuple_case(c):
    c = dict(c)
    c["writers"] = [tuple(w) for w in c["writers"]]
    c["evs"] = [tuple(e[:4]) + ([tuple(x) for x in e[4]],) if e[0] == "a" else tuple(e) for e in c["evs"]]
    return c



def replay_case(replay):
    """the case of a replay file: a violation's case, or the case of the first recorded disagreement"""
    if replay.get("case"):
        return replay["case"]
    for d in replay.get("correspondence_disagreements", []) + replay.get("disagreements", []):
        if d.get("case"):
            return d["case"]
    raise KeyError("replay file holds no case")

def run(ctx):
    import grid
    pubs, goals, scs = [], [], []
    if ctx.replay:
        c = replay_case(ctx.replay)
        if c.get("kind") == "pub":
            pubs = [untuple_case(c["c"])]
        elif c.get("kind") == "goal":
            goals = [c["c"]]
        elif c.get("kind") == "wire":
            run_wire(ctx, [tuple(c["c"])])
            return
        elif c.get("kind") == "scenario" and c["sc"].get("family") == "partition":
            run_partition(ctx, c["sc"])
            return
        elif c.get("kind") == "grid-pub" or c.get("kind") == "scenario":
            scs = [c["sc"]]
    else:
        rnd = not corpus_only()
        pubs = [dict(c) for c in CORPUS] + [gen_pub(ctx.rng) for _ in range(ctx.budget(1200, 20000) if rnd else 0)]
        goals = [gen_goal(ctx.rng) for _ in range(ctx.budget(600, 10000) if rnd else 0)]
        scs = [json_copy(sc) for sc in GRID_CORPUS] + [gen_scenario(ctx.rng) for _ in range(ctx.budget(90, 1500) if rnd else 0)]
    # (a)
    impl = []
    with grid.Runtime(seed=0, policy="fifo") as rt:
        for c in pubs:
            try:
                out = impl_pub(rt, c)
            except Exception:
                import traceback
                out = "harness-exception"
                ctx.disagree("the real Publish could not be driven for this case", {"kind": "pub", "c": c},
                             traceback.format_exc()[-800:], None)
                ctx.count("pub-harness-exception")
            impl.append(out)
            nontrivial = monitor_pub(ctx, c, out, "function")
            line = pub_line(c)
            ctx.case(("pub", line) if nontrivial else None)
            ctx.count("pub-result:" + out.split(";")[0])
    lines = [pub_line(c) for c in pubs]
    model = ctx.model(lines)
    ctx.compare("Publish bookkeeping (_push, _connection_problem, _got_write_answer, _failure/_done): result, surprised, "
                "writers left, placed, bad_servers", [{"kind": "pub", "c": c} for c in pubs], impl, model)
    if pubs:
        ctx.sample({"pub": lines[-1][:300], "impl": impl[-1]})
    # (b)
    gimpl = []
    for c in goals:
        try:
            gimpl.append(impl_goal(c))
        except Exception as e:
            gimpl.append("harness-exception:" + type(e).__name__)
    glines = [goal_line(c) for c in goals]
    for c, o, l in zip(goals, gimpl, glines):
        ctx.case(("goal", l) if (c["bad"] or c["goal"]) else None)
        ctx.count("goal-result:" + ("error" if o.endswith("Error") else "ok"))
        if not o.endswith("Error"):
            # the statement's premise for "k shares placed": update_goal gives every share number a home
            homes = {int(x.split(".")[1]) for x in o.split(",")} if o != "-" else set()
            if not set(range(c["total"])) <= homes:
                ctx.violation("update_goal left share numbers %r without a server" % sorted(set(range(c["total"])) - homes),
                              {"kind": "goal", "c": c}, "update-goal-homeless-share")
            if any(int(x.split(".")[0]) in c["bad"] for x in o.split(",") if x != "-"):
                ctx.violation("update_goal kept or chose a bad server", {"kind": "goal", "c": c}, "update-goal-bad-server")
    ctx.compare("Publish.update_goal (resulting goal or NotEnoughServersError)", [{"kind": "goal", "c": c} for c in goals],
                gimpl, ctx.model(glines))
    if goals:
        ctx.sample({"goal": glines[-1], "impl": gimpl[-1]})
    # (c)
    acc = {"lines": [], "impl": [], "cases": [], "rpc_lines": [], "rpc_impl": [], "rpc_cases": []}
    for sc in scs:
        run_scenario(ctx, sc, acc)
    ctx.compare("event traces of real publishes on the grid (result, surprised, writers left, placed, bad_servers, goal)",
                acc["cases"], acc["impl"], ctx.model(acc["lines"]))
    ctx.compare("real publishes end to end: per-request outcome (answered / failed before / executed but answer lost) in "
                "arrival order -> result, bookkeeping sets, and the slots that hold the new version on disk",
                acc["rpc_cases"], acc["rpc_impl"], ctx.model(acc["rpc_lines"]))
    if not ctx.replay:
        run_wire(ctx, list(WIRE_CORPUS) + [gen_wire(ctx.rng) for _ in range(0 if corpus_only() else ctx.budget(150, 2000))])
        for psc in PARTITION_CORPUS:
            run_partition(ctx, dict(psc))
        for _ in range(0 if corpus_only() else ctx.budget(25, 400)):
            run_partition(ctx, gen_partition(ctx.rng))
    # publish()/update(): one write proxy per goal entry (real set-up code, both formats, creation and update)
    wl, wi, wc = [], [], []
    from allmydata.mutable.servermap import ServerMap
    from allmydata.mutable.common import MODE_WRITE
    combos = [] if ctx.replay else ([(2, 5, 3, False, "publish"), (1, 3, 1, True, "publish"), (3, 10, 4, False, "update"),
                                     (2, 4, 6, True, "update")] +
                                    [(ctx.rng.randrange(1, 4), ctx.rng.randrange(3, 11), ctx.rng.randrange(1, 8),
                                      ctx.rng.random() < 0.5, ctx.rng.choice(["publish", "update"]))
                                     for _ in range(0 if corpus_only() else ctx.budget(40, 400))])
    for (k_, n_, ns_, mdmf_, op_) in combos:
        servers_ = [mc.FakeServer(i) for i in range(ns_)]
        sm_, ver_ = None, None
        if op_ == "update":
            sm_ = ServerMap()
            ver_ = (3, b"r" * 32, None if mdmf_ else b"i" * 16, 6, 6, k_, n_, b"p", ())
            for sh_ in range(0, n_, 2):
                sm_.add_new_share(servers_[sh_ % ns_], sh_, ver_, 0)
            sm_.set_last_update(MODE_WRITE, 0)
        try:
            p_, _e = mc.real_publish(k_, n_, servers_, sm_, mdmf=mdmf_, op=op_, version=ver_)
            goal_ = sorted((s_.i, sh_) for (s_, sh_) in p_.goal)
            wi.append(",".join("%d@%d" % x for x in sorted((w_.shnum, w_.server.i) for ws_ in p_.writers.values() for w_ in ws_)) or "-")
        except Exception as e:
            goal_, _ = [], wi.append("harness-exception:" + type(e).__name__)
        wl.append("wog " + (",".join("%d.%d" % x for x in goal_) or "-"))
        wc.append({"kind": "wog", "k": k_, "n": n_, "servers": ns_, "mdmf": mdmf_, "op": op_})
        ctx.case(("wog", k_, n_, ns_, mdmf_, op_))
    ctx.compare("write proxies created by the real publish()/update() set-up vs writersOfGoal(goal)", wc, wi, ctx.model(wl))
    # the write proxies: what the Deferred handed to Publish fires with
    pc, pi, pl = [], [], []
    rpcs = [] if ctx.replay else ([("B",), ("L", True), ("A", False, [(0, 9)]), ("A", True, [(0, 3)])] +
                                  [gen_rpc(ctx.rng) for _ in range(0 if corpus_only() else ctx.budget(60, 600))])
    for rpc in rpcs:
        for mdmf in (False, True):
            pc.append({"kind": "proxy", "mdmf": mdmf, "rpc": list(rpc)})
            try:
                pi.append(impl_proxy(mdmf, rpc))
            except Exception as e:
                pi.append("harness-exception:" + type(e).__name__)
            pl.append("proxy " + rpc_token(rpc))
            # from the statement: a request the server never acknowledged must not reach Publish as an acknowledgement,
            # and a refusal must reach it as a refusal
            if rpc[0] != "A" and pi[-1] != "failure":
                ctx.violation("a failed write request reached the publisher as %r instead of a failure" % pi[-1], pc[-1],
                              "proxy-hides-failed-request-" + ("mdmf" if mdmf else "sdmf"))
            if rpc[0] == "A" and not rpc[1] and not pi[-1].startswith("answer:F"):
                ctx.violation("a refused test-and-set reached the publisher as %r" % pi[-1], pc[-1],
                              "proxy-hides-refusal-" + ("mdmf" if mdmf else "sdmf"))
            ctx.case(("proxy", mdmf, rpc_token(rpc)))
            ctx.count("proxy-%s:%s" % ("mdmf" if mdmf else "sdmf", pi[-1].split(":")[0]))
    ctx.compare("SDMFSlotWriteProxy / MDMFSlotWriteProxy finish_publishing(): an answer and a failure are handed on unchanged",
                pc, pi, ctx.model(pl))
    if acc["lines"]:
        ctx.sample({"grid-pub": acc["lines"][-1][:300], "impl": acc["impl"][-1]})
