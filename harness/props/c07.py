"""C07 — share placement is complete, respects read-only servers, maximizes spread
(immutable/happiness_upload.py: share_placement and helpers; immutable/upload.py: PeerSelector, the caller whose
get_share_placements() is the plan the uploader works from)."""
import itertools
import os

ID = "C07"
LEAN_PROPS = "Tahoe.Props.C07"
DRIVER = "C07"
GENERATED = []
SOURCES = ["src/allmydata/immutable/happiness_upload.py", "src/allmydata/immutable/upload.py"]
DESIGN_REF = "DESIGN.md §2 C07, §3 (C07 row)"
TECHNIQUE = ("Lean 4 theorems over an executable transcription of share_placement and its helpers (three matching phases on "
             "the shared Edmonds-Karp model of C08, homeless-share distribution with its priority queue, round-robin); "
             "differential correspondence on int ids < 8 (exact returned mapping, plus every internal _calculate_mappings / "
             "_distribute_homeless_shares call observed inside real runs, plus the graph builders); the caller PeerSelector is "
             "modelled as a state machine (plan = share_placement of the current state) and driven through operation "
             "histories (add_peer / add_peer_with_share / mark_readonly_peer / mark_bad_peer / get_share_placements), every "
             "returned plan compared with the model and checked against the state; the allocation rounds of "
             "Tahoe2ServerSelector.get_shareholders are modelled as far as the selector sees them (Answer, roundOps, roundStates: "
             "exactly the failed or timed-out queries demote) and compared at every get_share_placements() of real selections "
             "on the in-process grid with a server that raises or never answers (15 s query timeout on the virtual clock) on "
             "allocate_buckets / get_buckets, first / second / last server asked; re-uploads on the grid after servers turned "
             "read-only (selector state at the first plan vs the shares on disk and vs the Lean toldState); fixed corpus first "
             "(one input per seeded change C07-a..e and per repaired defect), VERIF_CORPUS_ONLY=1 runs only it; monitor = the "
             "three clauses of the statement with a brute-force / matching optimum, failed-server-still-writable, "
             "existing-share-relation-wrong, selection-unhappy-although-achievable")
LEVEL_TEXT = ("proved in Lean for all inputs, over the model of the repository's code (Cfg.fixed; the two defects found were repaired in "
              "/repo by 9abb482 and b0ebc0d): placement_total, placement_returns, readonly_only_existing, spread_maximal / "
              "spread_ge_matching (no placement respecting the read-only clause uses more distinct servers; three-phase "
              "composition via the C08 maximum-matching theory), phase_is_maximum_matching; for the caller: plan_is_fresh, "
              "state_ignores_gets, told_state_is_ground_truth, failed_server_not_writable, plan_after_failed_allocation, and per "
              "allocation round round_demotes_every_failure (error, lost connection and query timeout alike), "
              "round_changes_nothing_else, failed_earlier_stays_out, plan_after_round_spread_maximal, "
              "plan_after_round_reaches_happiness; the model of the code before the repairs (Cfg.asIs) carries machine-checked "
              "counterexamples; no _partial theorem remains. Correspondence + monitor only: that get_shareholders feeds the selector "
              "exactly toldState / roundOps. Monitor only (not modelled): the loop's exit tests and the UploadUnhappinessError verdict "
              "(they depend on the trackers' allocated buckets; the value compared is C08's upload_effective_happiness)")
LEVEL_NOTE = ("Lean kernel + standard axioms; model hand-written, tied by exact correspondence on ids < 8 where CPython's set order is "
              "ascending (exhaustive small scopes, selector histories, grid selections and re-uploads); larger layouts and "
              "byte-string ids are checked at property level only")
RULE = ("a case is one call of share_placement (or one observed internal helper call, or one direct helper call) on a generated "
        "layout; distinct = distinct (function, arguments incl. dict order); non-trivial = at least one pre-existing share "
        "(helpers: at least one peer and one share); a selector history counts one case (non-trivial = it records at least "
        "one existing share), every get_share_placements() in it is checked; a grid selection run and a grid re-upload count one "
        "case each (every plan of the run is checked)")
TRUSTED = [
    "lean/Tahoe/Happiness/Placement.lean is a hand transcription of immutable/happiness_upload.py (share_placement and helpers)",
    "CPython iterates a set of ints < 8 in ascending order and PriorityQueue.get returns the least tuple (the model relies on "
    "both for the step-by-step correspondence; the property clauses are checked on byte-string ids as well)",
    "the harness observes internal calls by wrapping the module globals _calculate_mappings and _distribute_homeless_shares, and "
    "PeerSelector.get_share_placements on the grid, at run time",
    "lean/Tahoe/Happiness/Selector.lean is a hand transcription of upload.py PeerSelector and of what "
    "Tahoe2ServerSelector._buckets_allocated reports to it (only Failure answers, as mark_readonly_peer with KeyError swallowed); "
    "the harness keeps its own reference state from the meaning of the operations and never reads the plan's inputs back from "
    "the object under test",
    "harness/grid.py (in-process grid from production classes, seeded scheduler, virtual clock, fault injection error / hang) for "
    "the Tahoe2ServerSelector and re-upload runs",
]
ASSUMPTIONS = [
    "domain of the statement: at least one writable server; writable and read-only sets disjoint; every server with "
    "pre-existing shares is in one of the two sets; pre-existing share numbers are among the shares to place "
    "(what PeerSelector builds for one encoding); entries of servers outside both sets (bad servers) are outside the domain: "
    "there the code may hand a share to a bad server, e.g. share_placement({'w0'},{},{0,1},{'b0':{1}}) gives {1:'b0'}",
    "selector histories follow the uploader's discipline for the monitored plans (a server is marked bad only while it has no "
    "recorded shares, as in _handle_existing_response); plans requested in other states are compared with the model only",
    "grid selections use 6 servers, k=2, happy=4, n=4 with one failing server (5 healthy servers for 4 shares), re-uploads 4-6 "
    "servers with 1-2 read-only ones (readonly_storage; a full disk is not simulated)",
]

SIG_RO = "ro-peer-assigned-share-it-lacks"
SIG_TOTAL = "share-unassigned-or-unknown-server"
SIG_SPREAD_DROPPED = "spread-below-optimum-writable-peer-dropped"
SIG_SPREAD_OTHER = "spread-below-optimum-other"
SIG_UNHAPPY = "selection-unhappy-although-achievable"
SIG_RELATION = "existing-share-relation-wrong:"      # + readonly | writable
SIG_CLASSIFICATION = "server-classification-wrong"


# ----------------------------------------------------------------------------- encodings

def enc_ids(xs):
    xs = list(xs)
    return ",".join(str(x) for x in xs) if xs else "-"


def enc_setmap(items):
    if not items:
        return "-"
    return ";".join("%d:%s" % (k, ",".join(str(x) for x in v)) for k, v in items)


def enc_graph(g):
    if not g:
        return "-"
    return ";".join(",".join(str(x) for x in row) if row else "." for row in g)


def enc_placement(d):
    if not d:
        return "-"
    return ",".join("%d>%d" % (k, v) for k, v in d.items())


def enc_mappings(d):
    """share -> set([peer]) | None (or bare peer index for _compute_maximum_graph)"""
    if not d:
        return "-"
    out = []
    for k, v in d.items():
        if v is None:
            out.append("%d>N" % k)
        elif isinstance(v, (set, frozenset)):
            (p,) = tuple(v)
            out.append("%d>%d" % (k, p))
        else:
            out.append("%d>%d" % (k, v))
    return ",".join(out)


# ----------------------------------------------------------------------------- reference (monitor)

def kuhn_max_matching(adj):
    """adj: left -> iterable of right; size of a maximum matching (augmenting paths; written from the definition)"""
    match_r = {}

    def try_augment(l, seen):
        for r in adj[l]:
            if r in seen:
                continue
            seen.add(r)
            if r not in match_r or try_augment(match_r[r], seen):
                match_r[r] = l
                return True
        return False

    return sum(1 for l in adj if try_augment(l, set()))


def optimum_spread(W, R, S, ex):
    """largest number of distinct servers over all total placements that give a read-only server only shares it holds:
    a maximum matching of servers to shares where writable servers may take any share (needs >= 1 writable server,
    which then absorbs the unmatched shares)"""
    S = set(S)
    adj = {}
    for w in W:
        adj[("w", w)] = sorted(S)
    for r in R:
        adj[("r", r)] = sorted(set(ex.get(r, ())) & S)
    return kuhn_max_matching(adj)


def brute_optimum_spread(W, R, S, ex):
    S = sorted(S)
    servers = list(W) + list(R)
    best = 0
    for assign in itertools.product(servers, repeat=len(S)):
        if all((p in W) or (s in ex.get(p, ())) for s, p in zip(S, assign)):
            best = max(best, len(set(assign)))
    return best


_CROSS = [0]


def clauses(W, R, S, ex, res):
    """evaluate the three clauses of the statement on a returned placement; returns list of (signature, text)"""
    bad = []
    W, R, S = set(W), set(R), set(S)
    if not isinstance(res, dict) or any((s not in res) or (res[s] not in W and res[s] not in R) for s in S):
        bad.append((SIG_TOTAL, "a share number has no server (or a server outside both sets)"))
        return bad
    if any((p in R) and (s not in ex.get(p, ())) for s, p in res.items()):
        bad.append((SIG_RO, "a read-only server is assigned a share it does not hold"))
    hap = len(set(res.values()))
    opt = optimum_spread(W, R, S, ex)
    _CROSS[0] += 1
    if (len(S) <= 3 and len(W) + len(R) <= 3) or (len(S) <= 4 and len(W) + len(R) <= 4 and _CROSS[0] % 40 == 0):
        # the matching-based optimum is itself cross-checked against exhaustive enumeration of all placements
        b = brute_optimum_spread(W, R, S, ex)
        if b != opt:
            raise AssertionError("reference optimum disagrees with brute force: %r" % ((W, R, S, ex, opt, b),))
    if hap < opt:
        ro_assigned = {s for s, p in res.items() if p in R}
        used = set(res.values())
        dropped = any((w not in used) and ex.get(w) and set(ex[w]) <= ro_assigned for w in W)
        bad.append((SIG_SPREAD_DROPPED if dropped else SIG_SPREAD_OTHER,
                    "placement uses %d distinct servers, %d are achievable" % (hap, opt)))
    return bad


# ----------------------------------------------------------------------------- running the real code

class Observer:
    """wraps _calculate_mappings and _distribute_homeless_shares (module globals used by share_placement)"""

    def __init__(self):
        from allmydata.immutable import happiness_upload as up
        self.up = up
        self.calls = []

    def __enter__(self):
        up = self.up
        self.saved = (up._calculate_mappings, up._distribute_homeless_shares)
        calc, dist = self.saved

        def w_calc(peers, shares, servermap=None):
            args = (sorted(peers), sorted(shares),
                    sorted((k, sorted(v)) for k, v in servermap.items()) if servermap else [])
            r = calc(peers, shares, servermap)
            self.calls.append(("calc", args, enc_mappings(r)))
            return r

        def w_dist(mappings, homeless, p2s):
            args = (enc_mappings(mappings), sorted(homeless), [(k, sorted(v)) for k, v in p2s.items()])
            dist(mappings, homeless, p2s)
            self.calls.append(("dist", args, enc_mappings(mappings)))

        up._calculate_mappings, up._distribute_homeless_shares = w_calc, w_dist
        return self

    def __exit__(self, *a):
        self.up._calculate_mappings, self.up._distribute_homeless_shares = self.saved


def call_impl(up, W, R, S, ex_items):
    """ex_items: list of (peer, list of shares) in dict insertion order"""
    try:
        return up.share_placement(set(W), set(R), set(S), {k: set(v) for k, v in ex_items})
    except Exception as e:  # noqa
        return "exc:" + type(e).__name__


def layout_case(W, R, S, ex_items):
    return {"peers": sorted(W), "readonly": sorted(R), "shares": sorted(S), "existing": [[k, sorted(v)] for k, v in ex_items]}


def place_line(W, R, S, ex_items):
    return "place %s %s %s %s" % (enc_ids(sorted(W)), enc_ids(sorted(R)), enc_ids(sorted(S)),
                                  enc_setmap([(k, sorted(v)) for k, v in ex_items]))


def exhaustive_layouts(max_servers, max_shares, pairs=None):
    for n in range(1, max_servers + 1):
        for ns in range(1, max_shares + 1):
            if pairs is not None and (n, ns) not in pairs:
                continue
            for romask in range((1 << n) - 1):          # at least one writable
                W = [p for p in range(n) if not romask >> p & 1]
                R = [p for p in range(n) if romask >> p & 1]
                for bits in range(1 << (n * ns)):
                    ex = []
                    for p in range(n):
                        sh = [s for s in range(ns) if bits >> (p * ns + s) & 1]
                        if sh:
                            ex.append((p, sh))
                    yield W, R, list(range(ns)), ex


def random_layout(rng, max_servers, max_shares, ids=None):
    n = rng.randint(1, max_servers)
    ns = rng.randint(1, max_shares)
    servers = list(range(n))
    if ids == "perm8":
        servers = rng.sample(range(8), n)
    nro = rng.randint(0, n - 1) if rng.random() < 0.8 else 0
    R = rng.sample(servers, nro)
    W = [p for p in servers if p not in R]
    S = list(range(ns)) if ids != "perm8" else sorted(rng.sample(range(8), ns))
    dens = rng.choice([0.1, 0.25, 0.4, 0.7])
    keyp = rng.choice([0.3, 0.6, 0.9])
    order = servers[:]
    rng.shuffle(order)
    ex = []
    for p in order:
        if rng.random() < keyp:
            sh = [s for s in S if rng.random() < dens]
            if sh or rng.random() < 0.05:
                ex.append((p, sh))
    return W, R, S, ex


# FIXED CORPUS (runs first, independent of VERIF_SEED): one minimal input per known mechanism -- the two defects repaired in
# /repo (9abb482 shared indexedShares list, b0ebc0d dropped writable peer) and the seeded changes C07-a, C07-b; C07-c (stale
# plan in PeerSelector) is SELECTOR_CORPUS[0] plus GRID_CORPUS (which also holds C07-e: timed-out allocation)
CORPUS = [
    # DESIGN §3 probe (ids relabelled w0,w1,r0,r1 -> 0,1,2,3): read-only peer gets a share it lacks on the unfixed tree
    ([0, 1], [2, 3], [0], [(1, [0]), (2, [0])]),
    ([0], [2, 3], [0], [(3, [0])]),
    ([2], [0, 1], [0], [(1, [0])]),
    # a writable peer whose only existing share went to a read-only peer is dropped from the later phases
    ([1, 2], [0], [0, 1, 2], [(0, [0]), (1, [1, 2]), (2, [0])]),
    ([0, 1], [2, 3, 4], [0, 1, 2], [(0, [0, 1, 2]), (1, [0]), (3, [0, 1])]),
    # seeded C07-a (flow update `= 1` in _compute_maximum_graph does not cancel a back edge): server 0 holds {0,1},
    # server 1 only {0}; the existing-shares phase must undo the greedy first match: 2 servers achievable
    ([0, 1], [], [0, 1], [(0, [0, 1]), (1, [0])]),
    # seeded C07-b (read-only phase result merged last: its share->None placeholder overwrites the later placement):
    # the read-only server holds two shares, only one can be matched to it; 3 servers achievable
    ([1, 2], [0], [0, 1, 2], [(0, [0, 2])]),
    ([0, 1], [2], [0, 1, 2], [(2, [0, 1]), (0, [2])]),
    # plain layouts
    ([0, 1, 2], [], [0, 1, 2, 3], []),
    ([0], [], [0, 1, 2], [(0, [0, 1, 2])]),
    ([0, 1], [2], [0, 1, 2, 3], [(2, [0, 1, 2, 3])]),
]


SELECTOR_CORPUS = [
    # seeded C07-c: plan, the only planned server is demoted to read-only, plan again
    (1, [("a", 0), ("a", 1), ("g",), ("r", 0), ("g",)]),
    (3, [("a", 0), ("a", 1), ("a", 2), ("s", 2, 0), ("r", 2), ("g",), ("r", 0), ("g",), ("s", 1, 2), ("g",)]),
    # the same after add_peer_with_share / mark_bad_peer / add_peer between the plans
    (2, [("a", 0), ("a", 1), ("a", 2), ("g",), ("s", 1, 0), ("g",), ("b", 2), ("g",), ("a", 3), ("g",), ("r", 1), ("g",)]),
]


def corpus_only():
    return os.environ.get("VERIF_CORPUS_ONLY") == "1"


def run_direct(ctx, part="all"):
    from allmydata.immutable import happiness_upload as up
    rng = ctx.rng
    thorough = ctx.tier == "thorough"

    # ---- A. exact correspondence + monitor on int ids < 8
    layouts = []
    if ctx.replay:
        c = ctx.replay.get("case") or {}
        if "peers" in c and all(isinstance(x, int) for x in c["peers"] + c["readonly"]):
            layouts.append((c["peers"], c["readonly"], c["shares"], [(k, v) for k, v in c["existing"]]))
    elif part == "corpus":
        layouts += CORPUS
    else:
        if part == "all":
            layouts += CORPUS
        if thorough:
            layouts += list(exhaustive_layouts(4, 4))
            layouts += list(exhaustive_layouts(3, 5, pairs={(1, 5), (2, 5), (3, 5)}))
            ctx.exhaustive = True
            ctx.note("exhaustive: <=4 servers x <=4 shares and <=3 servers x 5 shares (every read-only subset, every relation); "
                     "4 servers x 5 shares (15 * 2^20 layouts) is sampled")
            for _ in range(60000):
                romask = rng.randrange(15); bits = rng.getrandbits(20)
                W = [p for p in range(4) if not romask >> p & 1]; R = [p for p in range(4) if romask >> p & 1]
                ex = [(p, [x for x in range(5) if bits >> (p * 5 + x) & 1]) for p in range(4)]
                layouts.append((W, R, list(range(5)), [(p, sh) for p, sh in ex if sh]))
        else:
            layouts += list(exhaustive_layouts(3, 3))
            layouts += list(exhaustive_layouts(2, 5, pairs={(1, 4), (2, 4), (1, 5), (2, 5)}))
        for _ in range(ctx.budget(6000, 100000)):
            W, R, S, ex = random_layout(rng, 8, 8, ids="perm8" if rng.random() < 0.5 else None)
            layouts.append((W, R, S, ex))

    descr, impl_outs, lines = [], [], []
    h_descr, h_impl, h_lines = [], [], []
    spec_descr, spec_ref, spec_lines = [], [], []
    spec_budget = ctx.budget(4000, 40000)
    observe_budget = ctx.budget(8000, 60000)
    with Observer() as obs:
        for i, (W, R, S, ex) in enumerate(layouts):
            obs.calls = []
            res = call_impl(up, W, R, S, ex)
            case = layout_case(W, R, S, ex)
            exd = {k: set(v) for k, v in ex}
            if isinstance(res, str):
                ctx.violation("share_placement raised " + res, case, "exception-" + res)
                impl_outs.append(res)
            else:
                for sig, text in clauses(W, R, S, exd, res):
                    ctx.violation(text, dict(case, placement=sorted(res.items())), sig)
                    ctx.count("clause-fails:" + sig)
                impl_outs.append(enc_placement(res))
                if len(spec_lines) < spec_budget:
                    # the Lean-side specification functions (distinctServers, Holds) against their Python meaning
                    spec_lines.append("spread " + enc_placement(res)); spec_ref.append(str(len(set(res.values()))))
                    spec_descr.append({"fn": "distinctServers (Lean spec)", "placement": sorted(res.items())})
                    if ex:
                        hp = rng.choice(sorted(set(W) | set(R))); hs = rng.choice(S)
                        spec_lines.append("holds %s %d %d" % (enc_setmap([(k, sorted(v)) for k, v in ex]), hp, hs))
                        spec_ref.append("T" if hs in exd.get(hp, ()) else "F")
                        spec_descr.append({"fn": "Holds (Lean spec)", "existing": [[k, sorted(v)] for k, v in ex], "peer": hp, "share": hs})
                ctx.count("placement:distinct-servers=%d" % min(9, len(set(res.values()))))
            descr.append(case)
            lines.append(place_line(W, R, S, ex))
            ctx.case(("place", lines[-1], tuple(k for k, _ in ex)) if ex else None)
            ctx.count("layout:ro=%d" % min(len(R), 4))
            if len(h_lines) < observe_budget:
                for kind, args, out in obs.calls:
                    if kind == "calc":
                        h_descr.append({"fn": "_calculate_mappings (observed)", "args": args, "layout": case})
                        h_impl.append(out)
                        h_lines.append("calc 11 %s %s %s" % (enc_ids(args[0]), enc_ids(args[1]), enc_setmap(args[2])))
                        ctx.case(("calc", h_lines[-1]) if args[0] and args[1] else None)
                        ctx.count("observed:_calculate_mappings")
                    else:
                        h_descr.append({"fn": "_distribute_homeless_shares (observed)", "args": args, "layout": case})
                        h_impl.append(out)
                        h_lines.append("dist %s %s %s" % (args[0], enc_ids(args[1]), enc_setmap(args[2])))
                        ctx.case(("dist", h_lines[-1]))
                        ctx.count("observed:_distribute_homeless_shares")
    model = ctx.model(lines)
    if model is not None:
        fixed, asis_agree = [], 0
        for m, a in zip(model, impl_outs):
            parts = dict(p.split("=", 1) for p in m.split(" "))
            fixed.append(parts["fixed"])
            if parts["asis"] == a:
                asis_agree += 1
        ctx.count("impl-equals-as-is-model", asis_agree)
        ctx.count("impl-equals-repaired-model", sum(1 for f, a in zip(fixed, impl_outs) if f == a))
        ctx.compare("share_placement returned mapping (dict order) vs model of the repaired code", descr, impl_outs, fixed)
    ctx.compare("Lean specification functions distinctServers / Holds vs their Python meaning", spec_descr, spec_ref,
                ctx.model(spec_lines))
    ctx.count("spec:distinctServers/Holds", len(spec_lines))
    ctx.compare("internal helper calls observed inside share_placement vs model of the repaired code",
                h_descr, h_impl, ctx.model(h_lines))
    ctx.sample({"line": lines[min(3, len(lines) - 1)], "impl": impl_outs[min(3, len(lines) - 1)]})

    if ctx.replay:
        c = ctx.replay.get("case") or {}
        if "peers" in c and not all(isinstance(x, int) for x in c["peers"] + c["readonly"]):
            unhx = bytes.fromhex if c.get("ids") == "bytes" else (lambda x: x)
            W, R, S = [unhx(x) for x in c["peers"]], [unhx(x) for x in c["readonly"]], c["shares"]
            ex = [(unhx(k), v) for k, v in c["existing"]]
            res = call_impl(up, W, R, S, ex)
            for sig, text in clauses(W, R, S, {k: set(v) for k, v in ex}, res):
                ctx.violation(text, c, sig)
            ctx.case(("replay", repr(c)))
        return
    if part == "corpus":
        return

    # ---- B. direct helper calls (graph builders, _compute_maximum_graph) on ids < 8
    b_descr, b_impl, b_lines = [], [], []
    for _ in range(ctx.budget(600, 10000)):
        npeer = rng.randint(0, 5); nshare = rng.randint(0, 6)
        peers = sorted(rng.sample(range(8), npeer)); shares = sorted(rng.sample(range(8), nshare))
        sm = []
        for p in rng.sample(range(8), rng.randint(0, 5)):
            sh = sorted(s for s in range(8) if rng.random() < 0.35)
            sm.append((p, sh))
        g = up._servermap_flow_graph(set(peers), set(shares), {k: set(v) for k, v in sm})
        b_descr.append({"fn": "_servermap_flow_graph", "peers": peers, "shares": shares, "servermap": sm})
        b_impl.append(enc_graph(g))
        b_lines.append("smfg 11 %s %s %s" % (enc_ids(peers), enc_ids(shares), enc_setmap(sm)))
        ctx.case(("smfg", b_lines[-1]) if peers and shares and sm else None)
        pi = list(range(1, npeer + 1)); si = list(range(npeer + 1, npeer + nshare + 1))
        g2 = up._flow_network(pi, si)
        b_descr.append({"fn": "_flow_network", "peerIndices": pi, "shareIndices": si})
        b_impl.append(enc_graph(g2))
        b_lines.append("fn %s %s" % (enc_ids(pi), enc_ids(si)))
        ctx.case(("fn", b_lines[-1]) if pi and si else None)
        for gg in ([g, g2] if g else [g2]):
            gcopy = [list(r) for r in gg]
            mg = up._compute_maximum_graph(gcopy, si)
            b_descr.append({"fn": "_compute_maximum_graph", "graph": gg, "shareIndices": si})
            b_impl.append(enc_mappings(mg))
            b_lines.append("cmg %s %s" % (enc_graph(gg), enc_ids(si)))
            ctx.case(("cmg", b_lines[-1]) if pi and si else None)
        ctx.count("helpers:smfg/fn/cmg")
    ctx.compare("graph builders and _compute_maximum_graph vs model of the repaired code", b_descr, b_impl, ctx.model(b_lines))

    # ---- C. property level: larger layouts (int ids beyond the exact range, 20-byte ids)
    for _ in range(ctx.budget(2500, 40000)):
        W, R, S, ex = random_layout(rng, 20, 30)
        kind = "int"
        if rng.random() < 0.5:
            kind = "bytes"
            ids = {}
            for p in W + R:
                ids[p] = bytes(rng.getrandbits(8) for _ in range(20))
            if len(set(ids.values())) != len(ids):
                continue
            W = [ids[p] for p in W]; R = [ids[p] for p in R]; ex = [(ids[p], v) for p, v in ex]
        res = call_impl(up, W, R, S, ex)
        hx = (lambda x: x.hex()) if kind == "bytes" else (lambda x: x)
        case = {"peers": [hx(x) for x in W], "readonly": [hx(x) for x in R],
                "shares": S, "existing": [[hx(k), v] for k, v in ex], "ids": kind}
        if isinstance(res, str):
            ctx.violation("share_placement raised " + res, case, "exception-" + res)
        else:
            for sig, text in clauses(W, R, S, {k: set(v) for k, v in ex}, res):
                ctx.violation(text, case, sig)
                ctx.count("clause-fails:" + sig)
        ctx.case(("place-large", kind, repr(case)) if ex else None)
        ctx.count("layout-large:" + kind)


# ----------------------------------------------------------------------------- the caller: PeerSelector histories

OP_NAMES = {"f": "allocation_failed", "a": "add_peer", "s": "add_peer_with_share", "r": "mark_readonly_peer", "b": "mark_bad_peer",
            "g": "get_share_placements"}


class RefState:
    """what the selector has been told, kept by the harness from the meaning of the operations (reference for the
    monitor; never read back from the object under test)"""

    def __init__(self, total):
        self.total = total
        self.W, self.R, self.B = set(), set(), set()
        self.ex = {}            # insertion ordered

    def apply(self, op):
        k = op[0]
        if k == "a":
            self.W.add(op[1])
        elif k == "s":
            self.ex.setdefault(op[1], set()).add(op[2])
        elif k == "r":
            self.R.add(op[1]); self.W.discard(op[1])
        elif k == "b":
            if op[1] in self.W:
                self.W.discard(op[1]); self.B.add(op[1])
            elif op[1] in self.R:
                self.R.discard(op[1]); self.B.add(op[1])

    def in_domain(self):
        return (bool(self.W) and not (self.W & self.R) and all(k in self.W or k in self.R for k in self.ex)
                and all(sh < self.total for v in self.ex.values() for sh in v))


def enc_op(op):
    return ":".join(str(x) for x in op)


def enc_sel_state(peers, ro, bad, ex_items):
    return "S:%s|%s|%s|%s" % (enc_ids(sorted(peers)), enc_ids(sorted(ro)), enc_ids(sorted(bad)),
                              enc_setmap([(k, sorted(v)) for k, v in ex_items]))


def gen_history(rng, ids, max_total):
    """mostly the uploader's discipline (add every server, demote some, record shares, plan, demote a server that failed,
    plan again, ...) plus a few out-of-discipline operations (correspondence only)"""
    total = rng.randint(1, max_total)
    servers = rng.sample(ids, rng.randint(1, len(ids)))
    ref = RefState(total)
    ops = []

    def do(op):
        ops.append(op); ref.apply(op)
    first = servers[:rng.randint(1, len(servers))]
    for p in first:
        do(("a", p))
    for p in first:
        if rng.random() < 0.3 and len(ref.W) > 1:
            do(("r", p))
    dens = rng.choice([0.0, 0.15, 0.4, 0.7])
    for p in first:
        for sh in range(total):
            if rng.random() < dens:
                do(("s", p, sh))
    wild = rng.random() < 0.15
    for _ in range(rng.randint(1, 12)):
        x = rng.random()
        known = sorted(ref.W | ref.R)
        if x < 0.35:
            do(("g",))
        elif x < 0.55 and len(ref.W) > (0 if wild else 1):
            do(("r", rng.choice(sorted(ref.W))))          # a server failed allocate_buckets: demoted
        elif x < 0.65:
            fresh = [p for p in servers if p not in ref.W and p not in ref.R and p not in ref.B]
            if fresh:
                do(("a", rng.choice(fresh)))
        elif x < 0.8 and known:
            do(("s", rng.choice(known), rng.randrange(total)))
        elif x < 0.88:
            cand = [p for p in known if p not in ref.ex and (len(ref.W - {p}) > 0 or wild)]
            if cand:
                do(("b", rng.choice(cand)))
        elif wild:
            y = rng.random()
            if y < 0.4:
                do(("r", rng.choice(ids)))                  # possibly not writable: KeyError after the add
            elif y < 0.7:
                do(("b", rng.choice(ids)))                  # possibly unknown / holding shares
            else:
                do(("s", rng.choice(ids), rng.randrange(total + 1)))
    do(("g",))
    return total, ops


def demotion_histories(max_servers, max_shares):
    """the seeded scenario, exhaustively: build a layout, plan, demote one writable server, plan again"""
    for W, R, S, ex in exhaustive_layouts(max_servers, max_shares):
        if len(W) < 2:
            continue
        base = [("a", p) for p in sorted(W + R)] + [("r", p) for p in R] + [("s", p, sh) for p, shs in ex for sh in shs]
        for f in W:
            yield len(S), base + [("g",), ("r", f), ("g",)]


def run_history(ctx, PeerSelector, up, total, ops, idmap=None, idseed=None):
    """drive a real PeerSelector; returns the output string (exact ids only) after checking every plan"""
    m = (lambda p: idmap[p]) if idmap else (lambda p: p)
    ps = PeerSelector(1, total, 1, 1)
    ref = RefState(total)
    outs = []
    since = []
    for i, op in enumerate(ops):
        k = op[0]
        try:
            if k == "a":
                ps.add_peer(m(op[1])); outs.append("-")
            elif k == "s":
                ps.add_peer_with_share(m(op[1]), op[2]); outs.append("-")
            elif k == "r":
                ps.mark_readonly_peer(m(op[1])); outs.append("-")
            elif k == "b":
                ps.mark_bad_peer(m(op[1])); outs.append("-")
            else:
                plan = ps.get_share_placements()
                inv = {v: kk for kk, v in idmap.items()} if idmap else None
                plan_i = {sh: (inv[p] if inv else p) for sh, p in plan.items()}
                outs.append(enc_placement(plan_i))
                ctx.count("selector:plans")
                if ref.in_domain():
                    S = list(range(total))
                    exd = {kk: set(v) for kk, v in ref.ex.items()}
                    bad = clauses(ref.W, ref.R, S, exd, plan_i)
                    if bad:
                        fresh = up.share_placement(set(m(p) for p in ref.W), set(m(p) for p in ref.R), set(S),
                                                   {m(kk): set(v) for kk, v in ref.ex.items()})
                        fresh_i = {sh: (inv[p] if inv else p) for sh, p in fresh.items()}
                        stale = not clauses(ref.W, ref.R, S, exd, fresh_i)
                        case = {"selector_history": {"total": total, "ops": [list(o) for o in ops[:i + 1]],
                                                     "ids": "bytes" if idmap else "int", "idseed": idseed},
                                "state": layout_case(ref.W, ref.R, S, list(ref.ex.items())),
                                "plan": sorted(plan_i.items())}
                        for sig, text in bad:
                            if stale:
                                sig = "stale-plan-after:" + ("+".join(sorted(set(OP_NAMES[o] for o in since))) or "nothing")
                                text = ("get_share_placements() returned a plan that does not fit the selector's current "
                                        "state (a fresh share_placement of that state does): " + text)
                            ctx.violation(text, case, sig)
                            ctx.count("clause-fails:" + sig)
                    else:
                        since = []      # ops since the last plan that fitted the state
                else:
                    ctx.count("selector:plans-outside-domain")
                    since = []
        except KeyError:
            outs.append("KeyError")
        if k != "g":
            since.append(k)
        ref.apply(op)
        ctx.count("selector-op:" + OP_NAMES[k])
    if idmap:
        return None
    outs.append(enc_sel_state(ps.peers, ps.readonly_peers, ps.bad_peers, list(ps.existing_shares.items())))
    return ";".join(outs)


def run_selector(ctx, histories=None, part="all"):
    from allmydata.immutable.upload import PeerSelector
    from allmydata.immutable import happiness_upload as up
    rng = ctx.subrng("selector")
    exact = []
    if histories is None and part == "corpus":
        histories = [(t, o, "int", None) for (t, o) in SELECTOR_CORPUS]
    if histories is None:
        if ctx.tier == "thorough":
            exact += list(demotion_histories(3, 3))
            exact += list(demotion_histories(4, 2))
        else:
            exact += list(demotion_histories(3, 2))
            exact += [h for h in demotion_histories(2, 3)]
        for _ in range(ctx.budget(2500, 60000)):
            exact.append(gen_history(rng, list(range(8)), 6))
    else:
        exact = [(t, o) for (t, o, kind, _sd) in histories if kind == "int"]
    descr, impl, lines = [], [], []
    for total, ops in exact:
        impl.append(run_history(ctx, PeerSelector, up, total, ops))
        descr.append({"selector_history": {"total": total, "ops": [list(o) for o in ops], "ids": "int"}})
        lines.append("sel 11 %d %s" % (total, " ".join(enc_op(o) for o in ops)))
        ctx.case(("sel", lines[-1]) if any(o[0] == "s" for o in ops) else None)
    ctx.compare("PeerSelector history (every returned plan, exceptions, final state) vs the selector state machine over the "
                "repaired share_placement model", descr, impl, ctx.model(lines))
    if lines:
        ctx.sample({"line": lines[-1][:160], "impl": impl[-1][:200]})
    # property level on 20-byte ids and more servers
    big = []
    if histories is None:
        for _ in range(ctx.budget(400, 8000)):
            n = rng.randint(2, 12)
            big.append(gen_history(rng, list(range(n)), rng.choice([4, 10, 20])) + (rng.getrandbits(32),))
    else:
        big = [(t, o, sd or 0) for (t, o, kind, sd) in histories if kind == "bytes"]
    for total, ops, sd in big:
        r2 = __import__("random").Random(sd)
        ids = sorted(set(o[1] for o in ops if len(o) > 1))
        idmap = {p: bytes(r2.getrandbits(8) for _ in range(20)) for p in ids}
        run_history(ctx, PeerSelector, up, total, ops, idmap=idmap, idseed=sd)
        ctx.case(("sel-bytes", total, tuple(ops)) if any(o[0] == "s" for o in ops) else None)


GRID_CORPUS = [
    # seeded C07-c (stale plan after the demotion) and the plain failing-server scenario: allocate_buckets raises
    {"seed": 20070707, "policy": "random", "fault": "error", "method": "allocate_buckets", "rank": 1},
    # seeded C07-e (a timed-out allocation no longer demotes the server): the server never answers allocate_buckets, the
    # 15 s query timeout fires; first / second / last server asked
    {"seed": 1, "policy": "fifo", "fault": "hang", "method": "allocate_buckets", "rank": 1},
    {"seed": 2, "policy": "random", "fault": "hang", "method": "allocate_buckets", "rank": 2},
    {"seed": 5, "policy": "lifo", "fault": "hang", "method": "allocate_buckets", "rank": 4},
    # the existing-shares query fails / times out: the server is bad from the first plan on
    {"seed": 3, "policy": "random", "fault": "hang", "method": "get_buckets", "rank": 1},
    {"seed": 4, "policy": "fifo", "fault": "error", "method": "get_buckets", "rank": 6},
]
SIG_STILL_WRITABLE = "failed-server-still-writable:"     # + error | hang


def grid_case(seed, policy="random", fault="error", method="allocate_buckets", rank=1):
    return {"seed": seed, "policy": policy, "fault": fault, "method": method, "rank": rank}


def run_grid(ctx, cases=None):
    """the uploader's real server selection on the in-process grid (6 servers, k=2, happy=4, n=4) with one server whose
    allocate_buckets / get_buckets fails -- raises, or never answers so that the 15 s query timeout fires (the virtual clock
    jumps) -- at the first / second / last server asked.  5 healthy servers remain for 4 shares, so selection must succeed;
    and from the plan after the failure on, the failed server must not be in the writable set the plan is computed from."""
    import grid
    from allmydata.immutable import upload
    from allmydata.immutable.upload import Tahoe2ServerSelector, UploadStatus
    from allmydata.interfaces import UploadUnhappinessError
    from allmydata.util.happinessutil import servers_of_happiness, merge_servers
    from allmydata.util import hashutil
    if cases is None:
        rng = ctx.subrng("grid")
        cases = []
        for _ in range(ctx.budget(6, 120)):
            method = rng.choice(["allocate_buckets", "allocate_buckets", "get_buckets"])
            cases.append(grid_case(rng.randrange(1 << 20), rng.choice(["random", "random", "fifo", "lifo"]),
                                   rng.choice(["error", "hang", "hang"]), method,
                                   rng.choice([1, 2, 4] if method == "allocate_buckets" else [1, 2, 6])))
    descr, impl, lines = [], [], []
    r_descr, r_impl, r_lines = [], [], []
    for gc in cases:
        seed = gc["seed"]
        case = {"grid_selection": dict(gc, servers=6, k=2, happy=4, n=4)}
        plans = []
        orig = upload.PeerSelector.get_share_placements

        def recording(self, plans=plans, orig=orig):
            plan = orig(self)
            plans.append({"plan": dict(plan), "peers": set(self.peers), "readonly": set(self.readonly_peers),
                          "bad": set(self.bad_peers)})
            return plan
        with grid.Runtime(seed=seed, policy=gc["policy"]) as rt:
            g = grid.Grid(grid.fresh_dir("c07"), rt, num_servers=6, num_clients=1, k=2, happy=4, n=4, max_segment_size=64)
            try:
                victim = []
                asked = []
                failed_at = []          # number of plans computed when the fault first struck
                queries = []            # (plans computed so far, server, answer kind) for every real allocate_buckets query

                def make_fault(i):
                    def fault(methname, args, kwargs):
                        r = fault1(methname, args, kwargs)
                        if methname == "allocate_buckets":
                            queries.append((len(plans), i, {"error": "e", "hang": "t"}.get(r, "o")))
                        return r

                    def fault1(methname, args, kwargs):
                        # the rank-th distinct server that is asked (for allocate_buckets: asked to really allocate something)
                        # breaks for that method and stays broken
                        if methname == gc["method"] and (methname != "allocate_buckets" or args[3]):
                            if i not in asked:
                                asked.append(i)
                            if not victim and len(asked) == gc["rank"]:
                                victim.append(i)
                            if victim and victim[0] == i:
                                if not failed_at:
                                    failed_at.append(len(plans))
                                return gc["fault"]
                        return None
                    return fault
                for i in g.wrappers:
                    g.wrappers[i].fault = make_fault(i)
                c = g.clients[0]
                si = hashutil.tagged_hash(b"c07-grid", b"%d" % seed)[:16]
                sel = Tahoe2ServerSelector("c07g%d" % seed, upload_status=UploadStatus())
                upload.PeerSelector.get_share_placements = recording
                try:
                    d = sel.get_shareholders(c.storage_broker, c._secret_holder, si, 100, 25, 4, 4, 2, 4, 500)
                    outcome, trackers, already = "ok", [], {}
                    try:
                        (trackers, already) = rt.wait(d)
                    except UploadUnhappinessError as e:
                        outcome = "unhappy: " + str(e)[:200]
                finally:
                    upload.PeerSelector.get_share_placements = orig
                num = {g.serverid(i): i for i in range(6)}
                vid = g.serverid(victim[0]) if victim else None
                used = set(t.get_serverid() for t in trackers)
                happiness = servers_of_happiness(merge_servers(already, set(trackers))) if outcome == "ok" else None
            finally:
                g.close()
        to_num = lambda sid: num.get(sid, -1)
        case["victim"] = victim[0] if victim else None
        case["plans"] = [{"plan": sorted((sh, to_num(p)) for sh, p in pl["plan"].items()),
                          "writable": sorted(to_num(p) for p in pl["peers"]),
                          "readonly": sorted(to_num(p) for p in pl["readonly"])} for pl in plans]
        ctx.case(("grid-selection", repr(sorted(gc.items()))))
        ctx.count("grid-selection:%s-%s" % (gc["method"], gc["fault"]))
        # 1. the verdict: 5 healthy servers for 4 shares, happy = 4
        if outcome != "ok":
            ctx.violation("server selection declared the upload unhappy although 5 healthy servers remain for 4 shares "
                          "(happy=4) after server #%s %s on %s: %s"
                          % (victim, "raised" if gc["fault"] == "error" else "never answered (query timeout)", gc["method"], outcome),
                          case, SIG_UNHAPPY)
            ctx.count("grid-selection:unhappy")
        elif happiness < 4 or (vid is not None and vid in used):
            ctx.violation("server selection returned happiness %d (< 4) or kept the failing server" % happiness, case, SIG_UNHAPPY)
        else:
            ctx.count("grid-selection:ok")
        # 2. from the plan after the failure on, the failed server is not writable
        if victim and failed_at:
            for k, pl in enumerate(plans):
                if k >= failed_at[0] and vid in pl["peers"]:
                    ctx.violation("plan #%d was computed with server #%d still in the writable set although its %s had %s "
                                  "before that plan was requested" % (k + 1, victim[0], gc["method"],
                                                                     "raised" if gc["fault"] == "error" else "timed out"),
                                  case, SIG_STILL_WRITABLE + gc["fault"])
                    ctx.count("clause-fails:" + SIG_STILL_WRITABLE + gc["fault"])
                    break
        # 3. the selector's server sets at the last plan vs the model after the specification history: every server added;
        #    a failed existing-shares query marks the server bad; a failed allocation (any reason, incl. timeout) demotes it
        if plans:
            ops = [("a", i) for i in range(6)]
            if victim and failed_at and failed_at[0] < len(plans):
                ops.append(("b", victim[0]) if gc["method"] == "get_buckets" else ("f", victim[0]))
            lines.append("sel 11 4 %s" % " ".join(enc_op(o) for o in ops))
            last = plans[-1]
            impl.append("S:%s|%s|%s" % (enc_ids(sorted(to_num(p) for p in last["peers"])),
                                        enc_ids(sorted(to_num(p) for p in last["readonly"])),
                                        enc_ids(sorted(to_num(p) for p in last["bad"]))))
            descr.append(case)
            # 4. every get_share_placements() of the loop vs the model of the allocation rounds (Lean roundStates): the
            #    writable / read-only / bad sets the plan is computed from, and the number of distinct servers it uses
            if gc["method"] == "allocate_buckets":
                rounds = []
                for k in range(1, len(plans)):
                    qs = [(i, kind) for (pk, i, kind) in queries if pk == k]
                    rounds.append(",".join("%d:%s" % q for q in qs) if qs else ".")
                r_lines.append("rounds 4 6 - - " + " ".join(rounds))
                r_impl.append(";".join("%s|%s|%s|spread=%d" % (enc_ids(sorted(to_num(p) for p in pl["peers"])),
                                                               enc_ids(sorted(to_num(p) for p in pl["readonly"])),
                                                               enc_ids(sorted(to_num(p) for p in pl["bad"])),
                                                               len(set(pl["plan"].values()))) for pl in plans))
                r_descr.append(dict(case, rounds=rounds))
                ctx.count("grid-selection:rounds", len(rounds))
    r_model = ctx.model(r_lines)
    if r_model is not None:
        def _spread(field):
            st, plan = field.rsplit("|", 1)
            servers = set(x.split(">")[1] for x in plan.split(",")) if plan not in ("-", "hang") else set()
            return "%s|spread=%d" % (st, len(servers))
        r_model = [";".join(_spread(f) for f in m.split(";")) for m in r_model]
    ctx.compare("server sets and spread at every get_share_placements() of the allocation loop vs the Lean model of the rounds "
                "(roundStates: exactly the failed or timed-out queries demote)", r_descr, r_impl, r_model)
    model = ctx.model(lines)
    if model is not None:
        model = [m[m.rindex("S:"):].rsplit("|", 1)[0] for m in model]
    ctx.compare("selector server sets at the last plan of a grid selection vs the model after the specification history "
                "(failed get_buckets = mark_bad_peer, failed or timed-out allocate_buckets = allocationFailed)", descr, impl, model)


# ----------------------------------------------------------------------------- re-upload on the grid: the planner's input

REUPLOAD_CORPUS = [
    # seeded C07-d: one server of four turns read-only after the first upload and keeps its share; the re-upload needs
    # that share to reach happiness 4 (the other shares deleted / kept; three delivery policies)
    {"servers": 4, "k": 2, "happy": 4, "n": 4, "readonly": [1], "delete_others": True, "seed": 2, "policy": "random"},
    {"servers": 4, "k": 2, "happy": 4, "n": 4, "readonly": [2], "delete_others": False, "seed": 8, "policy": "lifo"},
    {"servers": 5, "k": 2, "happy": 4, "n": 4, "readonly": [0, 3], "delete_others": True, "seed": 7, "policy": "fifo"},
]
REUPLOAD_DATA = b"C07 share placement, planner input " * 40


def run_reupload(ctx, cases):
    """upload a file, turn servers read-only, upload the same file again through the real uploader; at the first
    get_share_placements() of the second upload compare what the selector was told (server classes, existing-share relation)
    with the ground truth on disk, check the plan against the TRUE relation, and the outcome against the reachable happiness"""
    import grid
    from allmydata import uri
    from allmydata.immutable import upload
    from allmydata.interfaces import UploadUnhappinessError
    from allmydata.storage.server import FoolscapStorageServer
    descr, impl, lines = [], [], []
    for case in cases:
        nsrv, n, happy = case["servers"], case["n"], case["happy"]
        rec = {}
        orig = upload.PeerSelector.get_share_placements

        def recording(self, rec=rec, orig=orig):
            plan = orig(self)
            if "plan" not in rec:
                rec["plan"] = dict(plan)
                rec["peers"] = set(self.peers); rec["readonly"] = set(self.readonly_peers); rec["bad"] = set(self.bad_peers)
                rec["existing"] = {k: set(v) for k, v in self.existing_shares.items()}
            return plan
        with grid.Runtime(seed=case["seed"], policy=case["policy"]) as rt:
            g = grid.Grid(grid.fresh_dir("c07r"), rt, num_servers=nsrv, num_clients=1, k=case["k"], happy=happy, n=n,
                          max_segment_size=128)
            try:
                c = g.clients[0]
                conv = b"c" * 16
                res = rt.wait(c.upload(upload.Data(REUPLOAD_DATA, convergence=conv)))
                si = uri.from_string(res.get_uri()).get_storage_index()
                for i in case["readonly"]:
                    ss = g.storage[i]
                    ss.readonly_storage = True
                    g.wrappers[i].version = FoolscapStorageServer(ss).remote_get_version()
                if case["delete_others"]:
                    for (i, shnum, path) in g.share_files(si):
                        if i not in case["readonly"]:
                            os.remove(path)
                num = {g.serverid(i): i for i in range(nsrv)}
                held = {i: set() for i in range(nsrv)}
                for (i, shnum, path) in g.share_files(si):
                    held[i].add(shnum)
                R = set(case["readonly"]); W = set(range(nsrv)) - R
                S = list(range(n))
                truth = {i: sh for i, sh in held.items() if sh}
                upload.PeerSelector.get_share_placements = recording
                try:
                    outcome = "ok"
                    try:
                        rt.wait(c.upload(upload.Data(REUPLOAD_DATA, convergence=conv)))
                    except UploadUnhappinessError as e:
                        outcome = "unhappy: " + str(e)[:160]
                finally:
                    upload.PeerSelector.get_share_placements = orig
            finally:
                g.close()
        rcase = {"grid_reupload": case, "on_disk": {str(i): sorted(v) for i, v in truth.items()}}
        ctx.case(("grid-reupload", repr(sorted(case.items()))))
        ctx.count("grid-reupload:" + case["policy"])
        if "plan" not in rec:
            ctx.violation("the second upload never asked for a plan (%s)" % outcome, rcase, "no-plan-requested")
            continue
        to_num = lambda sid: num.get(sid, -1)
        got_ex = {to_num(k): set(v) for k, v in rec["existing"].items() if v}
        plan = {sh: to_num(p) for sh, p in rec["plan"].items()}
        rcase["told"] = {"peers": sorted(to_num(p) for p in rec["peers"]), "readonly": sorted(to_num(p) for p in rec["readonly"]),
                         "existing": {str(k): sorted(v) for k, v in got_ex.items()}}
        rcase["plan"] = sorted(plan.items())
        # 1. the planner's input against the ground truth (the spec: every answer is booked under the answering server)
        if set(to_num(p) for p in rec["peers"]) != W or set(to_num(p) for p in rec["readonly"]) != R:
            ctx.violation("the selector's writable / read-only server sets differ from the servers' actual state", rcase,
                          SIG_CLASSIFICATION)
        for cls, members in (("readonly", R), ("writable", W)):
            wrong = [i for i in sorted(members) if got_ex.get(i, set()) != truth.get(i, set())]
            extra = [k for k in got_ex if k not in W and k not in R]
            if wrong or (cls == "writable" and extra):
                ctx.violation("existing shares recorded for %s server(s) %s differ from the shares on disk "
                              "(recorded %s, on disk %s)" % (cls, wrong + extra, {k: sorted(got_ex.get(k, ())) for k in wrong + extra},
                                                             {k: sorted(truth.get(k, ())) for k in wrong}), rcase, SIG_RELATION + cls)
                ctx.count("clause-fails:" + SIG_RELATION + cls)
        # 2. the plan against the TRUE relation
        for sig, text in clauses(W, R, S, truth, plan):
            ctx.violation(text + " (first plan of the re-upload, judged on the shares actually on disk)", rcase, sig)
            ctx.count("clause-fails:" + sig)
        # 3. the verdict
        opt = optimum_spread(W, R, S, truth)
        if opt >= happy and outcome != "ok":
            ctx.violation("upload declared unhappy although %d >= %d distinct servers were reachable: %s" % (opt, happy, outcome),
                          rcase, SIG_UNHAPPY)
            ctx.count("grid-reupload:unhappy-although-achievable")
        # 4. the selector state the model reaches from the ground truth (spec history) vs the state the real selector was in
        lines.append("told %d %d %s %s" % (n, nsrv, enc_ids(sorted(R)), enc_setmap([(i, sorted(truth[i])) for i in sorted(truth)])))
        impl.append(enc_sel_state([to_num(p) for p in rec["peers"]], [to_num(p) for p in rec["readonly"]],
                                  [to_num(p) for p in rec["bad"]], sorted(got_ex.items())))
        descr.append(rcase)
    model = ctx.model(lines)
    ctx.compare("selector state at the first plan of a re-upload vs the state the ground truth prescribes (Lean toldState: "
                "every server added, read-only ones demoted, every share on disk booked under its server)", descr, impl, model)


def random_reupload_cases(ctx):
    rng = ctx.subrng("reupload")
    out = []
    for _ in range(ctx.budget(12, 300)):
        nsrv = rng.choice([4, 4, 5, 6])
        nro = rng.choice([1, 1, 2])
        out.append({"servers": nsrv, "k": 2, "happy": rng.choice([3, 4]), "n": 4, "readonly": sorted(rng.sample(range(nsrv), nro)),
                    "delete_others": rng.random() < 0.5, "seed": rng.randrange(1 << 20),
                    "policy": rng.choice(["random", "random", "fifo", "lifo"])})
    return out


def run(ctx):
    if not ctx.replay:
        # the fixed corpus first (no random generation before it)
        run_direct(ctx, part="corpus")
        run_selector(ctx, part="corpus")
        run_grid(ctx, GRID_CORPUS)
        run_reupload(ctx, REUPLOAD_CORPUS)
        if corpus_only():
            ctx.note("VERIF_CORPUS_ONLY=1: only the fixed corpus was run (%d layouts, %d selector histories, %d grid selections, %d re-uploads)"
                     % (len(CORPUS), len(SELECTOR_CORPUS), len(GRID_CORPUS), len(REUPLOAD_CORPUS)))
            return
        run_direct(ctx, part="rest")
        run_selector(ctx, part="rest")
        run_grid(ctx)
        run_reupload(ctx, random_reupload_cases(ctx))
        return
    if ctx.replay:
        c = ctx.replay.get("case") or {}
        if "selector_history" in c:
            h = c["selector_history"]
            run_selector(ctx, [(h["total"], [tuple(o) for o in h["ops"]], h.get("ids", "int"), h.get("idseed"))])
            return
        if "grid_reupload" in c:
            run_reupload(ctx, [c["grid_reupload"]])
            return
        if "grid_selection" in c:
            gs = c["grid_selection"]
            run_grid(ctx, [grid_case(gs["seed"], gs.get("policy", "random"), gs.get("fault", "error"),
                                     gs.get("method", "allocate_buckets"), gs.get("rank", 1))])
            return
        run_direct(ctx)
        return
