"""Worker process of the C15 check: parse cap strings in given ORDERS with cold class-level state.

stdin: JSON {"reload": bool, "orders": [[hex, hex, ...], ...]}
stdout: JSON [[ "<describe> | <to_string hex>", ... ], ...]

A fresh process starts with whatever uri.py caches per class empty.  With "reload": true the module
allmydata.uri is re-executed before every order (new class objects, so class-level caches are cold again)
which lets one process run hundreds of orders; a few orders are additionally run in really fresh processes.
"""
import importlib
import json
import os
import sys

sys.path.insert(0, os.path.dirname(os.path.dirname(os.path.abspath(__file__))))
import common  # noqa: E402

common.setup_impl_path()
from props import _uri_common as U  # noqa: E402


def main():
    req = json.load(sys.stdin)
    import twisted.python.components as comps
    comps.ALLOW_DUPLICATES = True          # uri.py registers adapters at import time
    import allmydata.uri as uri
    out = []
    for order in req["orders"]:
        if req.get("reload"):
            uri = importlib.reload(uri)
        res = []
        for h in order:
            s = bytes.fromhex(h)
            try:
                c = uri.from_string(s)
                res.append("%s | %s" % (U.describe(c), U.to_string_or_assert(c)))
            except Exception as e:   # reported as a disagreement by the parent
                res.append("EXC %s" % type(e).__name__)
        out.append(res)
    json.dump(out, sys.stdout)


if __name__ == "__main__":
    main()
