"""C02 — immutable downloads never return wrong bytes (corruption campaigns on the in-process grid + the
downloader's field-level decision compared with the Lean model on single-share k=1 files)."""
import os
import struct

from common import hx

ID = "C02"
LEAN_PROPS = "Tahoe.Props.C02"
DRIVER = "C02"
GENERATED = []
SOURCES = ["src/allmydata/immutable/downloader/share.py", "src/allmydata/immutable/downloader/node.py",
           "src/allmydata/immutable/downloader/segmentation.py", "src/allmydata/immutable/downloader/fetcher.py",
           "src/allmydata/hashtree.py", "src/allmydata/immutable/layout.py", "src/allmydata/uri.py",
           "src/allmydata/util/hashutil.py"]
DESIGN_REF = "DESIGN.md §2 C02"
TECHNIQUE = ("Lean 4 proofs over an executable model of the downloader's validation chain (Share._get_satisfaction stage by stage: "
             "offset table, UEB, share hash chain, block hash root, block hash tree, crypttext hash tree, data block; process_blocks/"
             "_check_ciphertext_hash; the fetcher's per-segment collection; Segmentation's read loop with its segment-size guess and "
             "both retry paths) on top of the hash-tree soundness of C35, for an abstract collision-free hash and an adversary that "
             "chooses every field of every answer afresh on every pass; node invariants (NodeInv for the stored UEB + ciphertext hash "
             "tree, ShInv for the share hash tree and the block hash trees of all share numbers) proved over arbitrary histories. "
             "Correspondence with real SHA-256d and the real UEB parser: Share._satisfy_offsets on crafted tables; "
             "Segmentation._got_segment on arbitrary (wanted range, handed segment); whole downloads of k=1 files from one share with "
             "one field altered / truncated / swapped and from sequences of consistently forged shares, real outcome vs the Lean chain "
             "on the same share bytes. Monitor on the in-process grid: a fixed corpus (one case per repaired defect and per seeded "
             "change, VERIF_CORPUS_ONLY=1 runs only it), then corruption campaigns on stored shares of real uploads, consistent "
             "forgeries, wrong segment-size guesses, servers that change their answers between reads")
LEVEL_TEXT = ("Proved (14 theorems) for every ciphertext, encoding, erasure decoder, set.pop order, segment-size guess and every "
              "sequence of arbitrary server answers: delivered_segment_genuine (a delivered segment is the genuine ciphertext segment "
              "at its offset, after any history of the node); read_prefix_correct / read_prefix_correct_plaintext (bytes written by "
              "read() are always a prefix of the requested range, a completed read wrote exactly the range; plaintext through "
              "position-wise CTR); forged_ueb_rejected, wrong_encoding_rejected, bad_header_rejected (rejection at the UEB / header "
              "step, node untouched); share_chain_stage_sound, block_root_anchored, block_hash_tree_stage_sound, accepted_block_genuine, "
              "ct_hash_stage_sound (each stage keeps its tree a partial copy of the published tree; an accepted block is the "
              "uploader's block); rejected_share_cannot_poison_node and accepted_block_genuine_history (the node invariants survive "
              "every pass of every share and process_blocks: a block any share reports COMPLETE is genuine after any history). "
              "Hypotheses: collision-free tagged hashes, injective pair hash, strict presence test in hashtree.py (true of 32-byte "
              "hashes), pack/unpack round trip of the published UEB (C38), acceptable encoding parameters. Not covered here: that a "
              "read ends (C46) and ends successfully when k good shares exist (C03).")
LEVEL_NOTE = ("Lean kernel + standard axioms; hand-written model tied to the code by function-level and end-to-end runs; zfec, AES "
              "(DecryptingConsumer is modelled as a position-wise xor, its counter arithmetic is exercised by ranged reads, not "
              "transcribed), Twisted/foolscap plumbing and the request bookkeeping (Spans, C37) are exercised, not verified; share "
              "selection / timers (C03/C46) are outside the model: a Script is the sequence of share passes that happened. The "
              "defect found here (never-ending request loop on a share truncated inside its header) is repaired in /repo (ea42624); "
              "its corpus case stays.")
RULE = ("fixed corpus first (independent of the seed): truncation inside the header on 1 / all shares; a full foreign share set with "
        "its own UEB under 8 delivery orders; consistently forged shares carrying the genuine UEB offered 3-5 times to one node; a "
        "later segment's blocks corrupt in more than N-k shares; ranged first reads with a too-small segment-size guess. Then one "
        "case = one download of a real uploaded file (k/N/segment size incl. multi-segment and v1/v2 share layouts) after one "
        "mutation of the stored shares: byte flip in a named region (version, block_size, data_size, each offset field, block data, "
        "plaintext/crypttext hash tree, block hashes, share hashes, UEB length, UEB), header field set to an edge value, truncation "
        "at a section boundary, swap between share numbers / files / encodings, a server rewriting its share between reads, or the "
        "consistent-forgery family (internally consistent shares of other content with the genuine or a forged UEB on m=1..N "
        "servers, g<k genuine shares left, seeded delivery orders, two re-reads on the same node), or the bad-guess family "
        "(upload segment size smaller/equal/larger than the downloader's guess, ranged FIRST read on a fresh filenode at offsets "
        "around every guessed and real segment boundary, with and without a corrupted share; thorough: a real 5 MiB file with "
        "2 MiB segments against the unpatched 1 MiB guess); "
        "applied to 1, N-k+1 or all shares; distinct = distinct (file, mutation, targets, read range, seed); non-trivial = the "
        "mutation changed at least one stored byte. Function-level cases: crafted offset tables; (wanted range, handed segment) "
        "pairs for _got_segment; k=1 file, one share kept, one mutation, whole-file read; k=1 forged share sequences.")
TRUSTED = ["harness/grid.py (in-process grid, seeded scheduler, fault hook)",
           "lean/Tahoe/Immutable/IntegrityBytes.lean reads the share bytes the way layout.py lays them out (driver side)",
           "DownloadNode.default_max_segment_size is set per bad-guess case (the guess itself is computed by the real code)"]
ASSUMPTIONS = ["SHA-256d tagged hashes are collision-free; pair_hash injective (hypotheses CollisionFree / PairInjective)",
               "hash values are never the empty string (StrictPresence; true of 32-byte SHA-256d outputs)",
               "uri.unpack_extension(pack_extension(d)) returns the published fields (Setup.ser_ok; C38)",
               "AES-CTR is a position-wise xor with a keystream (read_prefix_correct_plaintext)",
               "zfec with k=1 produces copies of the segment (checked on every function-level case)",
               "the ShareFile container layout: 12-byte header, data, leases (used to rewrite share bodies)"]

FIELDS = ["block_size", "data_size", "data", "plaintext_hash_tree", "crypttext_hash_tree", "block_hashes", "share_hashes",
          "uri_extension"]


# ----------------------------------------------------------------------------- share file helpers

def read_body(path):
    from allmydata.storage.immutable import ShareFile
    sf = ShareFile(path)
    return sf.read_share_data(0, sf._lease_offset - sf._data_offset)


def write_body(path, body):
    """rewrite the container with a new share body (leases kept)"""
    from allmydata.storage.immutable import ShareFile
    sf = ShareFile(path)
    with open(path, "rb") as f:
        raw = f.read()
    head, leases = raw[:sf._data_offset], raw[sf._lease_offset:]
    with open(path, "wb") as f:
        f.write(head + body + leases)


def parse(body):
    """(version, fieldsize, {field: value}, {field: (pos, len) of the header field})"""
    (ver,) = struct.unpack(">L", body[:4])
    fs = 4 if ver == 1 else 8
    vals, pos = {}, {}
    for i, name in enumerate(FIELDS):
        p = 4 + i * fs
        vals[name] = int.from_bytes(body[p:p + fs], "big")
        pos[name] = (p, fs)
    return ver, fs, vals, pos


def regions(body):
    """named byte ranges of a well-formed share body"""
    ver, fs, v, pos = parse(body)
    ueb_len = int.from_bytes(body[v["uri_extension"]:v["uri_extension"] + fs], "big")
    r = {"version": (0, 4)}
    for name in FIELDS:
        r["hdr:" + name] = pos[name]
    r["data"] = (v["data"], v["plaintext_hash_tree"] - v["data"])
    r["plaintext_hash_tree"] = (v["plaintext_hash_tree"], v["crypttext_hash_tree"] - v["plaintext_hash_tree"])
    r["crypttext_hash_tree"] = (v["crypttext_hash_tree"], v["block_hashes"] - v["crypttext_hash_tree"])
    r["block_hashes"] = (v["block_hashes"], v["share_hashes"] - v["block_hashes"])
    r["share_hashes"] = (v["share_hashes"], v["uri_extension"] - v["share_hashes"])
    r["ueb_length"] = (v["uri_extension"], fs)
    r["ueb"] = (v["uri_extension"] + fs, ueb_len)
    return r


def gen_mutation(rng, body, allow_swap=True):
    r = regions(body)
    ver, fs, v, pos = parse(body)
    c = rng.random()
    if c < 0.40:
        names = [n for n in r if r[n][1] > 0]
        name = rng.choice(names)
        if name == "share_hashes" and rng.random() < 0.5:
            # hit a hash number (2 bytes in front of every 32-byte hash)
            ent = rng.randrange(r[name][1] // 34)
            off = ent * 34 + rng.randrange(2)
        else:
            off = rng.randrange(r[name][1])
        return {"kind": "flip", "region": name, "off": off, "xor": rng.choice([1, 0x80, 0xff, rng.randrange(1, 256)])}
    if c < 0.65:
        name = rng.choice(FIELDS)
        cur = v[name]
        big = (1 << (8 * fs)) - 1
        val = rng.choice([0, 1, cur + 1, max(cur - 1, 0), cur + 32, max(cur - 32, 0), cur + 34, len(body), len(body) - 1,
                          len(body) + 1, big, big // 2, v[rng.choice(FIELDS)], 0x24, 0x44])
        return {"kind": "setfield", "field": name, "value": min(val, big)}
    if c < 0.8:
        bounds = sorted({0, 3, 4, 0x24, 0x44, len(body) - 1} | {r[n][0] for n in r} | {r[n][0] + r[n][1] for n in r})
        at = rng.choice(bounds) + rng.choice([0, 0, -1, 1])
        return {"kind": "truncate", "at": max(0, min(at, len(body) - 1))}
    if c < 0.86:
        return {"kind": "version", "value": rng.choice([0, 2 if ver == 1 else 1, 3, 0x01000000, 0xffffffff])}
    if allow_swap:
        return {"kind": rng.choice(["swap-share", "swap-file", "swap-encoding"]), "pick": rng.randrange(1 << 16)}
    return {"kind": "flip", "region": "data", "off": 0, "xor": 0xff}


def apply_mutation(m, body, others):
    """others: {'share': [bodies of the other share numbers], 'file': [...], 'encoding': [...]}"""
    k = m["kind"]
    if k == "flip":
        r = regions(body)
        start, ln = r[m["region"]]
        p = start + (m["off"] % max(ln, 1))
        if p >= len(body):
            return body
        return body[:p] + bytes([body[p] ^ m["xor"]]) + body[p + 1:]
    if k == "setfield":
        ver, fs, v, pos = parse(body)
        p, ln = pos[m["field"]]
        return body[:p] + int(m["value"]).to_bytes(ln, "big") + body[p + ln:]
    if k == "truncate":
        return body[:m["at"]]
    if k == "version":
        return struct.pack(">L", m["value"]) + body[4:]
    if k.startswith("swap-"):
        pool = others.get(k[5:], [])
        if not pool:
            return body
        return pool[m["pick"] % len(pool)]
    raise ValueError(k)


def mut_class(m):
    k = m["kind"]
    if k == "flip":
        return "flip:" + m["region"]
    if k == "setfield":
        return "setfield:" + m["field"]
    return k


# ----------------------------------------------------------------------------- running a read

STEP_LIMIT = 12000


class Recorder:
    """IConsumer that records every write"""

    def __init__(self):
        self.chunks = []
        self.done = False

    def registerProducer(self, p, streaming):
        self.producer = p

    def unregisterProducer(self):
        self.producer = None

    def write(self, data):
        self.chunks.append(bytes(data))


def quiesce(rt, grid_mod):
    """run what is due now, but never follow a never-ending request loop for long"""
    try:
        rt.steps = 0
        rt.pump(until=None, max_steps=STEP_LIMIT, advance_time=False)
    except grid_mod.Stuck:
        rt.pending[:] = []
        for dc in list(rt.clock.getDelayedCalls()):
            dc.cancel()
        rt._reset_eventual_queue()
    except Exception:
        pass


def do_read(rt, grid_mod, node, off, size):
    """(bytes delivered to the consumer, 'ok' | 'error:<Exc>' | 'hang')"""
    from zope.interface import implementer, directlyProvides
    from twisted.internet.interfaces import IConsumer
    rec = Recorder()
    directlyProvides(rec, IConsumer)
    from twisted.python.failure import Failure
    box = []
    d = node.read(rec, off, size)
    d.addBoth(box.append)
    stuck = None
    try:
        rt.steps = 0
        rt.pump(until=d, max_steps=STEP_LIMIT)
    except grid_mod.Stuck as e:
        stuck = e
    if box:
        end = "error:" + type(box[0].value).__name__ if isinstance(box[0], Failure) else "ok"
    elif stuck is not None:
        # still busy after STEP_LIMIT scheduler steps (a healthy read of these files takes < 2000)
        end = "livelock"
    else:
        end = "hang"          # quiescent with the Deferred unfired
    if stuck is not None:
        rt.pending[:] = []
        for dc in list(rt.clock.getDelayedCalls()):
            dc.cancel()
        rt._reset_eventual_queue()
    quiesce(rt, grid_mod)
    return b"".join(rec.chunks), end


def livelock_class(case):
    """the input class of a never-ending request loop: which part of the share the server cannot supply"""
    m = case.get("mutation") or {}
    if m.get("kind") == "truncate":
        return "truncated-header" if m["at"] < 0x44 else "truncated-share"
    return case.get("mclass", "?")


def fresh_node(c, cap):
    """a new filenode with a new DownloadNode (the nodemaker caches immutable nodes by cap)"""
    c.nodemaker._node_cache.clear()
    return c.create_node_from_uri(cap)


def check_read(ctx, case, truth, off, size, got, end):
    """the statement: delivered bytes are a prefix of the requested range; the end is the truth or an error"""
    want = truth[off:] if size is None else truth[off:off + size]
    cls = case["mclass"]
    if got != want[:len(got)]:
        first = next((i for i, (a, b) in enumerate(zip(got, want)) if a != b), min(len(got), len(want)))
        ctx.violation("the consumer received bytes that are not a prefix of the requested range", case,
                      "wrong-bytes-" + cls, {"first_diff": first, "len_got": len(got), "len_want": len(want)})
        return
    if end == "ok" and got != want:
        ctx.violation("the read reported success but delivered only %d of %d bytes" % (len(got), len(want)), case,
                      "short-success-" + cls)
    elif end in ("hang", "livelock") and case.get("second_read"):
        # whether a *later* read on a node whose earlier read failed terminates is C46's statement
        ctx.count("reread-hang (C46)")
    elif end == "hang":
        ctx.violation("the read neither finished nor failed (quiescent with the Deferred unfired)", case, "hang-" + cls)
    elif end == "livelock":
        ctx.violation("the read neither finished nor failed: the downloader keeps re-sending requests (still busy after %d "
                      "scheduler steps)" % STEP_LIMIT, case, "livelock-" + livelock_class(case))
    ctx.count("end:" + end.split(":")[0])
    if end.startswith("error:"):
        ctx.count("error:" + end[6:])


FILES = [  # (size, k, n, max_segment_size)
    (100, 1, 1, 32), (150, 1, 3, 64), (200, 2, 4, 64), (333, 3, 5, 42), (56, 1, 2, 1000), (700, 3, 10, 128), (1000, 4, 6, 250),
    (64, 2, 2, 32), (500, 5, 8, 100), (273, 1, 5, 64)]


def file_data(size, salt):
    import random
    r = random.Random("c02-%d-%d" % (size, salt))
    return bytes(r.randrange(256) for _ in range(size))


def restore(g, si, snap):
    """bring every share file back to its uploaded state (re-creating deleted ones is not needed here)"""
    for (srv, shnum, path), body in snap.items():
        if read_body(path) != body:
            write_body(path, body)


def splice_ueb(forged_body, genuine_body):
    """the share of ANOTHER file (blocks, block hash tree, crypttext hash tree, share hash chain: all mutually
    consistent, across share numbers too) carrying the GENUINE uri extension block of this file"""
    _, fs1, v1, _ = parse(forged_body)
    _, fs2, v2, _ = parse(genuine_body)
    ln = int.from_bytes(genuine_body[v2["uri_extension"]:v2["uri_extension"] + fs2], "big")
    ueb = genuine_body[v2["uri_extension"] + fs2:v2["uri_extension"] + fs2 + ln]
    return forged_body[:v1["uri_extension"]] + ln.to_bytes(fs1, "big") + ueb


def run_forgeries(ctx, rt, grid, g, c, cap, si, raw, data, size, k, n, other_by_shnum, fidx, seed, n_forge, lines, impl, lcases,
                  fixed=None):
    """consistent-forgery family: internally consistent shares of other content (every tree the adversary can
    recompute is recomputed) with the genuine or a forged UEB, on m = 1..N servers, g = 0..k-1 genuine shares
    left, several delivery orders, re-reads on the same node"""
    import random
    from allmydata import uri
    rng = random.Random("c02-forgery-%s-%s" % (fidx, seed))
    keys = sorted(raw)                      # (server, shnum, path), one share per server
    u = uri.from_string(cap)
    mode = hashtree_mode()
    genuine = {t: read_body_raw(raw[t]) for t in keys}
    for fi in range(len(fixed) if fixed is not None else n_forge):
        # full restore
        for t in g.share_files(si):
            os.unlink(t[2])
        fx = fixed[fi] if fixed is not None else None
        if fx is not None:
            variant, placement = fx["variant"], fx["placement"]
            forged_srv, genuine_srv = list(fx["forged_servers"]), list(fx["genuine_servers"])
            m, gcount = len(forged_srv), len(genuine_srv)
        else:
            variant = rng.choice(["genuine-ueb", "genuine-ueb", "genuine-ueb", "forged-ueb"])
            placement = rng.choice(["own", "own", "same"])
            m = rng.choice([1, 2, 3, min(n, k + 2), n, rng.randrange(1, n + 1)])
            m = max(1, min(m, n))
            gcount = rng.randrange(0, k) if k > 1 else 0
            order = list(range(len(keys)))
            rng.shuffle(order)
            forged_srv = order[:m]
            genuine_srv = order[m:m + gcount]
        same_sh = keys[forged_srv[0]][1]
        offered = []
        for idx in forged_srv:
            t = keys[idx]
            shnum = same_sh if placement == "same" else t[1]
            if shnum not in other_by_shnum:
                continue
            fb = other_by_shnum[shnum]
            if variant == "genuine-ueb":
                fb = splice_ueb(fb, genuine[t])
            path = os.path.join(os.path.dirname(t[2]), "%d" % shnum)
            os.makedirs(os.path.dirname(path), exist_ok=True)
            with open(path, "wb") as f:
                f.write(raw[t])
            write_body(path, fb)
            offered.append((shnum, fb))
        for idx in genuine_srv:
            t = keys[idx]
            os.makedirs(os.path.dirname(t[2]), exist_ok=True)
            with open(t[2], "wb") as f:
                f.write(raw[t])
        rt.policy = fx["policy"] if fx is not None else rng.choice(["random", "random", "fifo", "lifo"])
        rt.rng.seed("c02-forgery-order-%s-%s-%s" % (fidx, seed, fx["order"] if fx is not None else fi))
        case = {"kind": "forgery-corpus" if fx is not None else "forgery", "file": fidx, "seed": seed, "fi": fi,
                "variant": variant, "placement": placement,
                "forged_servers": sorted(forged_srv), "genuine_servers": sorted(genuine_srv), "policy": rt.policy,
                "mclass": "forgery:%s:%s" % (variant, placement)}
        node = fresh_node(c, cap)
        rdc = rng.random() if fx is None else 0.0
        if rdc < 0.7:
            off, rsize = 0, None
        else:
            off = rng.randrange(0, size)
            rsize = rng.randrange(1, size - off + 1)
        got, end = do_read(rt, grid, node, off, rsize)
        check_read(ctx, dict(case, off=off, size=rsize), data, off, rsize, got, end)
        first = (got, end)
        # the same node again (its hash trees, dead shares and the finder's state are retained), twice
        for again in (1, 2):
            if end in ("hang", "livelock"):
                break
            got2, end2 = do_read(rt, grid, node, 0, None)
            check_read(ctx, dict(case, second_read=again, mclass=case["mclass"] + "+reread"), data, 0, None, got2, end2)
            end = end2
        ctx.case(("forgery", fidx, seed, fi))
        ctx.count("forgery:%s:%s" % (variant, placement))
        ctx.count("forgery-m:" + ("1" if m == 1 else "2" if m == 2 else "3+"))
        # the same adversarial share sequence through the Lean chain (k = 1: the block is the segment): every
        # segment request is offered every forged copy
        if k == 1 and gcount == 0 and off == 0 and rsize is None and offered and lines is not None:
            lines.append("dlseq %s %s %d %d %d %d %s" % (mode, hx(u.uri_extension_hash), k, n, size, size,
                                                         ",".join("%d:%s" % (sh, hx(b)) for sh, b in offered)))
            impl.append("len=%d end=%s" % (len(first[0]), "done" if first[1] == "ok" else "fail"))
            lcases.append(case)


def read_body_raw(rawbytes):
    """share body inside raw container bytes (12-byte header, data, 72-byte leases)"""
    (ver, _unused, nleases) = struct.unpack(">LLL", rawbytes[:12])
    return rawbytes[12:len(rawbytes) - 72 * nleases]


def run_campaign(ctx, fidx, n_mut, seed, n_forge=0, flines=None, fimpl=None, fcases=None, fixed_forgeries=None,
                 fixed_muts=None):
    import grid
    import random
    from allmydata.immutable import upload
    from allmydata import uri
    rng = random.Random("c02-campaign-%s-%s" % (fidx, seed))
    size, k, n, maxseg = FILES[fidx % len(FILES)]
    data = file_data(size, fidx)
    conv = b"c02-convergence!"
    with grid.Runtime(seed=seed, policy=rng.choice(["random", "random", "fifo", "lifo"])) as rt:
        g = grid.Grid(grid.fresh_dir("c02"), rt, num_servers=n, k=k, happy=1, n=n, max_segment_size=maxseg)
        try:
            c = g.clients[0]
            res = rt.wait(c.upload(upload.Data(data, convergence=conv)))
            cap = res.get_uri()
            si = uri.from_string(cap).get_storage_index()
            snap = {t: read_body(t[2]) for t in g.share_files(si)}
            # material for swaps: another file with the same parameters, and another encoding of the same data
            others = {"share": None, "file": [], "encoding": []}
            res2 = rt.wait(c.upload(upload.Data(file_data(size, fidx + 1000), convergence=conv)))
            si2 = uri.from_string(res2.get_uri()).get_storage_index()
            others["file"] = [read_body(p) for (_, _, p) in g.share_files(si2)]
            other_by_shnum = {shnum: read_body(p) for (_, shnum, p) in g.share_files(si2)}
            c.encoding_params["max_segment_size"] = max(1, maxseg // 2)
            res3 = rt.wait(c.upload(upload.Data(data, convergence=conv)))
            si3 = uri.from_string(res3.get_uri()).get_storage_index()
            others["encoding"] = [read_body(p) for (_, _, p) in g.share_files(si3)]
            c.encoding_params["max_segment_size"] = maxseg
            rt.settle()
            keys = sorted(snap)
            raw = {}
            for t in keys:
                with open(t[2], "rb") as f:
                    raw[t] = f.read()
            # sanity: the untouched file downloads
            node = c.create_node_from_uri(cap)
            got, end = do_read(rt, grid, node, 0, None)
            base_case = {"file": fidx, "seed": seed, "mclass": "none"}
            check_read(ctx, base_case, data, 0, None, got, end)
            if end != "ok":
                ctx.violation("download of the untouched file failed", base_case, "clean-download-failed")
                return
            for mi in range(n_mut):
                restore(g, si, snap)
                for w in g.wrappers.values():
                    w.fault = None
                some_body = snap[keys[0]]
                m = gen_mutation(rng, some_body)
                how_many = rng.choice([1, 1, n - k + 1, n - k + 1, n, rng.randrange(1, n + 1)])
                targets = rng.sample(range(len(keys)), min(how_many, len(keys)))
                flaky = rng.random() < 0.2
                flaky_at = rng.randrange(0, 6)
                flaky_back = rng.choice([None, flaky_at + rng.randrange(1, 4)])
                rdc = rng.random()
                if rdc < 0.6:
                    off, rsize = 0, None
                else:
                    off = rng.randrange(0, size)
                    rsize = rng.randrange(1, size - off + 1)
                case = {"file": fidx, "seed": seed, "mi": mi, "mutation": m, "mclass": mut_class(m),
                        "targets": sorted(targets), "flaky": [flaky_at, flaky_back] if flaky else None, "off": off, "size": rsize}
                changed = 0
                plans = []
                for ti in targets:
                    t = keys[ti]
                    body = snap[t]
                    o = dict(others)
                    o["share"] = [snap[t2] for t2 in keys if t2[1] != t[1]]
                    nb = apply_mutation(m, body, o)
                    if nb != body:
                        changed += 1
                    plans.append((t, nb))
                if flaky:
                    # the server answers from the good share first, then from the mutated one (and maybe back)
                    by_srv = {}
                    for (t, nb) in plans:
                        by_srv[t[0]] = (t, nb)
                    for srv, (t, nb) in by_srv.items():
                        st = {"reads": 0}

                        def fault(methname, args, kwargs, st=st, t=t, nb=nb):
                            if methname == "read":
                                if st["reads"] == flaky_at:
                                    write_body(t[2], nb)
                                if flaky_back is not None and st["reads"] == flaky_back:
                                    write_body(t[2], snap[t])
                                st["reads"] += 1
                            return None
                        g.wrappers[srv].fault = fault
                else:
                    for (t, nb) in plans:
                        write_body(t[2], nb)
                node = fresh_node(c, cap)
                got, end = do_read(rt, grid, node, off, rsize)
                check_read(ctx, case, data, off, rsize, got, end)
                # a second read through the same node (hash trees and share objects are retained)
                if rng.random() < 0.3 and end not in ("hang", "livelock"):
                    got2, end2 = do_read(rt, grid, node, 0, None)
                    check_read(ctx, dict(case, second_read=True, mclass=case["mclass"] + "+reread"), data, 0, None, got2, end2)
                good_left = len(keys) - len(set(targets))
                if not flaky and changed and end == "ok" and good_left < k and m["kind"] not in ("flip", "setfield") :
                    ctx.count("success-with-fewer-than-k-untouched")
                ctx.case((fidx, seed, mi) if changed else None)
                ctx.count("mut:" + case["mclass"])
                ctx.count("targets:" + ("1" if len(targets) == 1 else "all" if len(targets) == len(keys) else "some"))
                if flaky:
                    ctx.count("flaky-server")
            for w in g.wrappers.values():
                w.fault = None
            for fm in (fixed_muts or []):
                # a fixed mutation of fixed targets, whole-file read on a fresh node
                restore(g, si, snap)
                for ti in fm["targets"]:
                    t = keys[ti]
                    write_body(t[2], apply_mutation(fm["mutation"], snap[t], {"share": [snap[t2] for t2 in keys if t2[1] != t[1]],
                                                                               "file": others["file"], "encoding": others["encoding"]}))
                case = {"kind": "mutation-corpus", "file": fidx, "seed": seed, "mutation": fm["mutation"], "targets": fm["targets"],
                        "mclass": mut_class(fm["mutation"]), "off": 0, "size": None}
                got, end = do_read(rt, grid, fresh_node(c, cap), 0, None)
                check_read(ctx, case, data, 0, None, got, end)
                ctx.case(("mutation-corpus", fidx, repr(fm)))
                ctx.count("corpus:mutation")
            if n_forge or fixed_forgeries:
                if fixed_forgeries:
                    restore(g, si, snap)
                run_forgeries(ctx, rt, grid, g, c, cap, si, raw, data, size, k, n, other_by_shnum, fidx, seed, n_forge,
                              flines, fimpl, fcases, fixed=fixed_forgeries)
        finally:
            for w in g.wrappers.values():
                w.fault = None
            g.close()


# ----------------------------------------------------------------------------- function level: k=1, one share

K1_FILES = [(100, 1, 1, 32), (70, 1, 2, 1000), (130, 1, 3, 50), (96, 1, 1, 32), (257, 1, 2, 64)]


def hashtree_mode():
    import inspect
    from allmydata import hashtree
    src = inspect.getsource(hashtree.IncompleteHashTree.set_hashes)
    return "asis" if "if self[i]:" in src else "fixed"


def run_k1(ctx, fidx, n_mut, seed):
    import grid
    import random
    from allmydata.immutable import upload
    from allmydata import uri
    rng = random.Random("c02-k1-%s-%s" % (fidx, seed))
    size, k, n, maxseg = K1_FILES[fidx % len(K1_FILES)]
    data = file_data(size, 5000 + fidx)
    lines, impl, cases = [], [], []
    mode = hashtree_mode()
    with grid.Runtime(seed=seed, policy="random") as rt:
        g = grid.Grid(grid.fresh_dir("c02k1"), rt, num_servers=n, k=k, happy=1, n=n, max_segment_size=maxseg)
        try:
            c = g.clients[0]
            res = rt.wait(c.upload(upload.Data(data, convergence=b"c02-k1-converge!")))
            cap = res.get_uri()
            u = uri.from_string(cap)
            si = u.get_storage_index()
            files = g.share_files(si)
            snap = {t: read_body(t[2]) for t in files}
            secs = set()
            for t, b in snap.items():
                rg = regions(b)
                secs.add(b[rg["data"][0]:rg["data"][0] + rg["data"][1]])
            if len(secs) != 1:
                ctx.note("zfec k=1 shares are not copies of one another: function-level cases skipped")
                return
            # the ciphertext (what the downloader's consumer sees below DecryptingConsumer) is not observable here;
            # the observable is the plaintext length delivered and the end state
            keys = sorted(snap)
            raw = {}
            for t in keys:
                with open(t[2], "rb") as f:
                    raw[t] = f.read()
            for mi in range(n_mut):
                keep = keys[rng.randrange(len(keys))]
                m = gen_mutation(rng, snap[keep], allow_swap=(len(keys) > 1))
                if m["kind"] in ("swap-file", "swap-encoding"):
                    m = {"kind": "swap-share", "pick": m["pick"]}
                o = {"share": [snap[t2] for t2 in keys if t2[1] != keep[1]]}
                nb = apply_mutation(m, snap[keep], o)
                for t in keys:
                    if t == keep:
                        with open(t[2], "wb") as f:
                            f.write(raw[t])
                        write_body(t[2], nb)
                    elif os.path.exists(t[2]):
                        os.unlink(t[2])
                node = fresh_node(c, cap)
                got, end = do_read(rt, grid, node, 0, None)
                case = {"kind": "k1", "file": fidx, "seed": seed, "mi": mi, "mutation": m, "mclass": mut_class(m),
                        "shnum": keep[1]}
                check_read(ctx, case, data, 0, None, got, end)
                lines.append("dl %s %s %d %d %d %d %d %s" % (mode, hx(u.uri_extension_hash), k, n, size, keep[1], size, hx(nb)))
                impl.append("len=%d end=%s" % (len(got), "done" if end == "ok" else "fail"))
                if end in ("hang", "livelock"):
                    ctx.count("k1-" + end)
                cases.append(case)
                ctx.case(("k1", fidx, seed, mi) if nb != snap[keep] else None)
                ctx.count("k1:" + case["mclass"])
                ctx.count("k1-end:" + end.split(":")[0])
        finally:
            g.close()
    outs = ctx.model(lines)
    if outs is not None:
        norm = []
        for o in outs:
            p = dict(x.split("=", 1) for x in o.split(" ") if "=" in x)
            norm.append("len=%s end=%s" % (p.get("len"), "done" if p.get("end") == "done" else "fail") if p else o)
        ctx.compare("whole download of a k=1 file from one share with one mutation: bytes delivered and done/failed, "
                    "real downloader vs the Lean chain on the same share bytes", cases, impl, norm)


# ----------------------------------------------------------------------------- segment-size guess wrong in either direction

def run_gotseg(ctx):
    """Segmentation._got_segment on arbitrary (wanted range, handed segment): slice written or WrongSegmentError"""
    from allmydata.immutable.downloader.segmentation import Segmentation
    from allmydata.immutable.downloader.common import WrongSegmentError
    rng = ctx.rng

    class Ev:
        def update(self, *a):
            pass

    class Node:
        _si_prefix = "x"

    lines, impl, cases = [], [], []
    for _ in range(ctx.budget(400, 6000)):
        seglen = rng.choice([1, 2, 7, 16, 32, rng.randrange(1, 60)])
        start = rng.choice([0, seglen, 2 * seglen, rng.randrange(0, 100)])
        off = max(0, start + rng.choice([-seglen - 1, -seglen, -3, -1, 0, 1, seglen - 1, seglen, seglen + 1, rng.randrange(-40, 80)]))
        size = rng.choice([1, 2, seglen, seglen + 5, 1000, rng.randrange(1, 50)])
        seg = bytes((start + i) % 251 for i in range(seglen))
        rec = Recorder()
        sg = Segmentation.__new__(Segmentation)
        sg._node = Node()
        sg._offset, sg._size = off, size
        sg._consumer = rec
        sg._read_ev = Ev()
        sg._lp = None
        sg._hungry = False           # so that _maybe_fetch_next does nothing
        sg._alive = True
        sg._active_segnum = None
        sg._cancel_segment_request = None
        try:
            sg._got_segment((start, seg, 0.0), 0)
            got = b"".join(rec.chunks)
            out = "%d %d" % (off - start, len(got))
            want = bytes((off + i) % 251 for i in range(len(got)))
            if got != want:
                ctx.violation("_got_segment wrote bytes of the handed segment that are not file[offset:...]",
                              {"kind": "gotseg", "off": off, "size": size, "start": start, "len": seglen},
                              "wrong-bytes-on-badguess-gotseg")
        except WrongSegmentError:
            out = "wrong"
        lines.append("gotseg %d %d %d %d" % (off, size, start, seglen))
        impl.append(out)
        cases.append({"kind": "gotseg", "off": off, "size": size, "start": start, "len": seglen})
        ctx.case(("gotseg", off, size, start, seglen))
        ctx.count("gotseg:" + ("wrong" if out == "wrong" else "slice"))
    ctx.compare("Segmentation._got_segment: slice of the handed segment / WrongSegmentError", cases, impl, ctx.model(lines))


BADGUESS_FILES = [  # (size, k, n, upload max_segment_size, downloader default_max_segment_size)
    (700, 3, 5, 128, 40), (700, 3, 5, 128, 300), (700, 3, 5, 128, 129), (333, 1, 2, 40, 100), (333, 1, 2, 100, 40),
    (1000, 4, 6, 250, 60), (1000, 4, 6, 60, 250), (500, 2, 3, 1000, 64), (500, 2, 3, 64, 1 << 20), (257, 1, 1, 64, 17)]


def next_multiple(x, k):
    return -(-x // k) * k


def badguess_reads(rng, size, seg, guess, count):
    """(offset, size) pairs around every guessed and real segment boundary"""
    bounds = sorted({b for b in list(range(0, size + 1, seg)) + list(range(0, size + 1, guess)) if 0 < b < size})
    out = []
    for _ in range(count):
        if bounds and rng.random() < 0.85:
            off = rng.choice(bounds) + rng.choice([-1, 0, 0, 1, 2, seg // 2, guess // 2, -(guess // 2)])
        else:
            off = rng.randrange(1, size)
        off = max(1, min(off, size - 1))
        rsize = rng.choice([1, 2, 7, guess, seg, seg + 1, size, None, rng.randrange(1, size - off + 1)])
        out.append((off, rsize))
    return out


def run_badguess_case(ctx, spec, reads, seed, corrupt_plan, big=False):
    """first read on a fresh filenode, ranged, with the downloader's segment-size guess differing from the real one"""
    import grid
    import random
    from allmydata.immutable import upload
    from allmydata.immutable.downloader.node import DownloadNode
    from allmydata import uri
    size, k, n, maxseg, gmax = spec
    if big:
        r = random.Random("c02-big-%d" % size)
        chunk = bytes(r.randrange(256) for _ in range(65521))
        data = (chunk * (size // len(chunk) + 1))[:size]
    else:
        data = file_data(size, 9000 + maxseg)
    seg = next_multiple(min(maxseg, size), k)
    guess = next_multiple(min(size, gmax), k)
    saved = DownloadNode.default_max_segment_size
    with grid.Runtime(seed=seed, policy="random") as rt:
        g = grid.Grid(grid.fresh_dir("c02bg"), rt, num_servers=n, k=k, happy=1, n=n, max_segment_size=maxseg)
        try:
            DownloadNode.default_max_segment_size = gmax
            c = g.clients[0]
            rt.steps = 0
            res = rt.wait(c.upload(upload.Data(data, convergence=b"c02-badguess-cv!")), max_steps=20_000_000)
            cap = res.get_uri()
            si = uri.from_string(cap).get_storage_index()
            files = sorted(g.share_files(si))
            snap = {t: read_body(t[2]) for t in files}
            for ri, (off, rsize) in enumerate(reads):
                corrupt = corrupt_plan[ri % len(corrupt_plan)]
                for t in files:
                    if read_body(t[2]) != snap[t]:
                        write_body(t[2], snap[t])
                if corrupt is not None and not big:
                    t = files[corrupt % len(files)]
                    rg = regions(snap[t])
                    p = rg["data"][0] + (off // max(k, 1)) % max(rg["data"][1], 1)
                    b = snap[t]
                    write_body(t[2], b[:p] + bytes([b[p] ^ 0xff]) + b[p + 1:])
                gs, rs = off // guess, off // seg
                rel = "lt" if gs < rs else "eq" if gs == rs else "gt" if gs < -(-size // seg) else "beyond"
                case = {"kind": "badguess", "spec": list(spec), "off": off, "size": rsize, "seed": seed, "corrupt": corrupt,
                        "big": big, "guess": guess, "segsize": seg, "mclass": "on-badguess-" + rel}
                node = fresh_node(c, cap)
                if big:
                    global STEP_LIMIT
                    old, STEP_LIMIT = STEP_LIMIT, 400000
                    try:
                        got, end = do_read(rt, grid, node, off, rsize)
                    finally:
                        STEP_LIMIT = old
                else:
                    got, end = do_read(rt, grid, node, off, rsize)
                check_read(ctx, case, data, off, rsize, got, end)
                if end.startswith("error") and corrupt is None:
                    # an error is permitted by C02's statement; that an intact file stays readable is C03/C04's.
                    # (seen on the unchanged tree when the guessed segnum lies beyond the real segment count: the
                    # hash requests computed from the guessed tree fall past the end of the share, every share is
                    # abandoned with DataUnavailable and the read ends in NotEnoughSharesError instead of being retried)
                    ctx.count("badguess-intact-read-failed:%s:%s" % (rel, end[6:]))
                ctx.case(("badguess", tuple(spec), off, rsize, corrupt))
                ctx.count("badguess:guess-%s-real" % ("<" if guess < seg else "=" if guess == seg else ">"))
                ctx.count("badguess:segnum-" + rel)
        finally:
            DownloadNode.default_max_segment_size = saved
            g.close()


def run_badguess(ctx):
    rng = ctx.rng
    per = ctx.budget(22, 120)
    for spec in BADGUESS_FILES:
        size, k, n, maxseg, gmax = spec
        seg = next_multiple(min(maxseg, size), k)
        guess = next_multiple(min(size, gmax), k)
        reads = badguess_reads(rng, size, seg, guess, per)
        run_badguess_case(ctx, spec, reads, rng.randrange(1 << 30), [None, None, 0, None, 1])
    if ctx.tier == "thorough":
        # one real file with segments larger than the downloader's real default guess (1 MiB): nothing is patched
        spec = (5 * 1024 * 1024 + 12345, 1, 2, 2 * 1024 * 1024, 1024 * 1024)
        reads = [(1572864, 1000), (1048593, 300000), (2 * 1024 * 1024 - 1, 3), (3 * 1024 * 1024 + 5, 70000), (1, 10)]
        run_badguess_case(ctx, spec, reads, rng.randrange(1 << 30), [None], big=True)



def run_offsets(ctx):
    """Share._satisfy_offsets accept/reject on crafted tables vs the model"""
    from allmydata.immutable.downloader.share import Share, LayoutInvalid
    from allmydata.util.spans import DataSpans
    rng = ctx.rng
    lines, impl, cases = [], [], []
    for _ in range(ctx.budget(300, 5000)):
        ver = rng.choice([1, 1, 2, 2, 0, 3, rng.randrange(0, 1 << 32)])
        base = rng.randrange(0, 5000)
        f = [rng.choice([0, base, base + 32 * rng.randrange(0, 5), base + 34 * rng.randrange(0, 5), rng.randrange(0, 10000),
                         base + rng.randrange(-40, 40) if base > 40 else base]) for _ in range(6)]
        f = [max(0, x) for x in f]
        if rng.random() < 0.5:
            f[3] = base
            f[4] = f[3] + 32 * rng.randrange(0, 6) + rng.choice([0, 0, 0, 1, 31])
            f[5] = f[4] + 34 * rng.randrange(0, 6) + rng.choice([0, 0, 0, 1, 33])
        fs = 8 if ver == 2 else 4
        if fs == 4:
            f = [x & 0xffffffff for x in f]
        sh = Share.__new__(Share)
        sh._received = DataSpans()
        hdr = struct.pack(">L", ver) + b"\x00" * (2 * fs) + b"".join(x.to_bytes(fs, "big") for x in f) + b"\x00" * 8
        sh._received.add(0, hdr)
        sh._lp = None
        sh.had_corruption = False
        try:
            ok = sh._satisfy_offsets()
            out = "ok" if ok else "wait"
        except LayoutInvalid:
            out = "layout"
        lines.append("offsets %d %s" % (ver, " ".join(map(str, f))))
        impl.append(out)
        cases.append({"kind": "offsets", "version": ver, "fields": f})
        ctx.case(("off", ver, tuple(f)))
        ctx.count("offsets:" + out)
    ctx.compare("Share._satisfy_offsets on crafted version/offset tables", cases, impl, ctx.model(lines))


def compare_forgery_lines(ctx, flines, fimpl, fcases):
    outs = ctx.model(flines)
    if outs is not None:
        norm = []
        for o in outs:
            pr = dict(x.split("=", 1) for x in o.split(" ") if "=" in x)
            norm.append("len=%s end=%s" % (pr.get("len"), "done" if pr.get("end") == "done" else "fail") if pr else o)
        ctx.compare("whole download of a k=1 file offered only consistently forged shares (m copies): bytes delivered and "
                    "done/failed, real downloader vs the Lean chain on the same share sequence", fcases, fimpl, norm)


CORPUS_SEED = 20260922


def run_corpus(ctx, flines, fimpl, fcases):
    """FIXED CORPUS (independent of VERIF_SEED): one minimal scenario per known mechanism — the defect repaired in
    /repo (ea42624) and the seeded changes C02-a, C02-b, C02-c, C02-d"""
    orders = [("fifo", 0), ("lifo", 0)] + [("random", i) for i in range(6)]
    # fix ea42624: a share truncated inside its header must not stall the read (k other good shares exist / none exist)
    run_campaign(ctx, 2, 0, CORPUS_SEED, fixed_muts=[
        {"mutation": {"kind": "truncate", "at": 24}, "targets": [0]},
        {"mutation": {"kind": "truncate", "at": 0}, "targets": [0, 1, 2, 3]},
        {"mutation": {"kind": "truncate", "at": 3}, "targets": [1]}])
    # C02-d: a multi-segment read that fails only AFTER >= 1 segment was delivered: the blocks of a later segment are
    # corrupt in more than N-k shares (what was written before the error must stay a correct prefix, nothing re-sent)
    run_campaign(ctx, 2, 0, CORPUS_SEED, fixed_muts=[
        {"mutation": {"kind": "flip", "region": "data", "off": 40, "xor": 0xff}, "targets": [0, 1, 2]},
        {"mutation": {"kind": "flip", "region": "data", "off": 70, "xor": 1}, "targets": [0, 1, 2, 3]},
        {"mutation": {"kind": "flip", "region": "data", "off": 99, "xor": 0x80}, "targets": [1, 2, 3]}])
    run_campaign(ctx, 5, 0, CORPUS_SEED, fixed_muts=[
        {"mutation": {"kind": "flip", "region": "data", "off": 100, "xor": 0xff}, "targets": [0, 1, 2, 3, 4, 5, 6, 7]}])
    # C02-a: a self-consistent share set of ANOTHER file (own UEB) on >= k+2 servers, under several delivery orders
    run_campaign(ctx, 2, 0, CORPUS_SEED, 0, flines, fimpl, fcases, fixed_forgeries=[
        {"variant": "forged-ueb", "placement": "own", "forged_servers": [0, 1, 2, 3], "genuine_servers": [], "policy": p, "order": o}
        for (p, o) in orders])
    run_campaign(ctx, 3, 0, CORPUS_SEED, 0, flines, fimpl, fcases, fixed_forgeries=[
        {"variant": "forged-ueb", "placement": "own", "forged_servers": [0, 1, 2, 3, 4], "genuine_servers": [], "policy": p, "order": o}
        for (p, o) in orders])
    # C02-b: the same coherent forgery carrying the GENUINE UEB offered >= 3 times to one download node
    run_campaign(ctx, 1, 0, CORPUS_SEED, 0, flines, fimpl, fcases, fixed_forgeries=[
        {"variant": "genuine-ueb", "placement": pl, "forged_servers": [0, 1, 2], "genuine_servers": [], "policy": p, "order": 0}
        for pl in ("own", "same") for p in ("fifo", "lifo", "random")])
    run_campaign(ctx, 9, 0, CORPUS_SEED, 0, flines, fimpl, fcases, fixed_forgeries=[
        {"variant": "genuine-ueb", "placement": "same", "forged_servers": [0, 1, 2, 3, 4], "genuine_servers": [], "policy": "fifo",
         "order": 0}])
    # C02-c: ranged FIRST read with a guess smaller than the real segment size, guessed segnum > real one but < segment count
    run_badguess_case(ctx, (700, 3, 5, 128, 40), [(130, 7), (260, 40), (131, None), (300, 1)], CORPUS_SEED, [None])
    run_badguess_case(ctx, (333, 1, 2, 100, 40), [(45, 3), (120, 30)], CORPUS_SEED, [None])
    ctx.count("corpus-run")


def run(ctx):
    import common
    common.setup_impl_path()
    import grid  # noqa: F401
    from allmydata.util import log as tlog  # noqa: F401
    flines, fimpl, fcases = [], [], []
    if ctx.replay and isinstance(ctx.replay.get("case"), dict):
        cs = ctx.replay["case"]
        if cs.get("kind") == "k1":
            run_k1(ctx, cs["file"], cs["mi"] + 1, cs["seed"])
        elif str(cs.get("kind", "")).endswith("-corpus"):
            run_corpus(ctx, flines, fimpl, fcases)
            compare_forgery_lines(ctx, flines, fimpl, fcases)
        elif cs.get("kind") == "forgery":
            run_campaign(ctx, cs["file"], 0, cs["seed"], cs["fi"] + 1, flines, fimpl, fcases)
        elif cs.get("kind") == "badguess":
            run_badguess_case(ctx, tuple(cs["spec"]), [(cs["off"], cs["size"])], cs["seed"], [cs.get("corrupt")], cs.get("big", False))
        elif cs.get("kind") == "gotseg":
            run_gotseg(ctx)
        elif "file" in cs:
            run_campaign(ctx, cs["file"], cs.get("mi", 0) + 1, cs["seed"])
        return
    run_corpus(ctx, flines, fimpl, fcases)
    if os.environ.get("VERIF_CORPUS_ONLY"):
        compare_forgery_lines(ctx, flines, fimpl, fcases)
        return
    run_offsets(ctx)
    run_gotseg(ctx)
    run_badguess(ctx)
    nfiles = ctx.budget(12, 60)
    per = ctx.budget(60, 220)
    for i in range(nfiles):
        run_campaign(ctx, i, per, ctx.rng.randrange(1 << 30), ctx.budget(40, 150), flines, fimpl, fcases)
    compare_forgery_lines(ctx, flines, fimpl, fcases)
    for i in range(ctx.budget(6, 30)):
        run_k1(ctx, i, ctx.budget(60, 200), ctx.rng.randrange(1 << 30))
