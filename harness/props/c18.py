"""C18 — read-only directory access is transitive (dirnode.py _encrypt_rw_uri / _decrypt_rwcapdata /
_unpack_contents with writeable = not is_readonly; nodemaker.create_from_cap; unknown.py)."""
ID = "C18"
LEAN_PROPS = "Tahoe.Props.C18"
DRIVER = "C19"          # the pack/unpack model of C19 (unpack through write handle / read handle) is the executable part
GENERATED = []
SOURCES = ["src/allmydata/dirnode.py", "src/allmydata/nodemaker.py", "src/allmydata/unknown.py",
           "src/allmydata/util/hashutil.py"]
DESIGN_REF = "DESIGN.md §2 C18"
TECHNIQUE = ("Lean 4 theorems: Dolev-Yao non-derivability of child write caps from a read cap plus the packed entries "
             "(invariant 'Good' closed under every derivation rule), derivation and computation of the rw_uri with the "
             "write key, no write cap on any node created by _unpack_contents through a read-only parent, transitivity "
             "along paths; correspondence of _unpack_contents through write and read handles on the decrypted contents "
             "of real nested directories with the C19 model; implementation-side monitor on real directory plaintext")
LEVEL_TEXT = ("Symbolic secrecy, recovery and read-only transitivity proved in Lean; the unpack model (rw_uri forced empty "
              "for read-only parents, create_from_cap) is tied to the code by comparing the children unpacked through the "
              "write handle and the read handle of every directory of random nested graphs; the monitor searches the "
              "real plaintext a read-cap holder downloads for every child's write cap.")
LEVEL_NOTE = ("Lean kernel + standard axioms; symbolic (Dolev-Yao) secrecy only: hashes one-way, AES-CTR/HMAC ideal, no "
              "guessing (the deterministic salt H(rw_uri) lets a holder of a candidate write cap confirm it); the MAC is "
              "produced but, as in the code, not checked.")
RULE = ("random nested directory graphs (as C21: mutable SDMF/MDMF directories with cycles, immutable directories, "
        "CHK/LIT/mutable files, unknown caps with ro./imm. prefixes, links by write cap and by read cap) on the grid; "
        "a case = one directory examined through its write cap and its read cap, plus one walk of all descendants from "
        "the read-only root; non-trivial = the directory has a child linked by write cap")
TRUSTED = ["lean/Tahoe/Dir/Authority.lean: term algebra and derivation rules chosen by hand to mirror _encrypt_rw_uri",
           "harness/props/c19.py helpers (re-framing of ciphertexts, cap classification by the real uri.from_string)"]
ASSUMPTIONS = ["ideal cryptography (symbolic model); write keys of distinct objects are independent secrets",
               "the ro_uri slot of a packed entry holds get_readonly_uri() of the child (what _pack_normalized_children writes)"]

import json

import common
from common import hx
from props import c19, c21


def walk_ro(ctx, rt, node, case, depth, seen):
    """every descendant reached from a read-only handle must be read-only"""
    from allmydata.interfaces import IDirectoryNode
    n_checked = 0
    if depth > 6:
        return 0
    ch = rt.wait(node.list())
    for name, (child, md) in sorted(ch.items()):
        n_checked += 1
        if child.is_unknown():
            if child.get_write_uri():
                ctx.violation("an unknown child reached through a read-only directory has a rw_uri", case, "ro-descendant-unknown-rw")
            continue
        if child.get_write_uri() is not None or not child.is_readonly():
            ctx.violation("a descendant reached through a read-only directory is writeable", case, "ro-descendant-writeable",
                          {"name": name, "depth": depth})
        if IDirectoryNode.providedBy(child) and child.get_uri() not in seen:
            seen.add(child.get_uri())
            n_checked += walk_ro(ctx, rt, child, case, depth + 1, seen)
    return n_checked


def one_case(ctx, w, case, lines, impls, cases):
    rt, c = w["rt"], w["c"]
    root = c21.build(w, case)
    caps, nodes = w["last"]
    objs = case["objs"]
    all_write_caps = [cp["rw"] for cp in caps.values() if cp["rw"] is not None]
    for i, o in enumerate(objs):
        if o["kind"] != "mdir":
            continue
        dn = nodes[i]
        dnro = c.create_node_from_uri(None, caps[i]["ro"])
        assert dnro.is_readonly() and dnro.get_write_uri() is None
        data = rt.wait(dnro._node.download_best_version())       # what a read-cap holder can decrypt
        # ---- monitor: the plaintext reveals no write cap (neither a child's nor any other object's)
        for wc in all_write_caps:
            if wc in data:
                ctx.violation("the directory plaintext readable with the read cap contains a write cap", case,
                              "plaintext-contains-writecap")
            # also the bare secret part of the cap (between the 2nd and 3rd colon)
            parts = wc.split(b":")
            if len(parts) >= 4 and parts[2] in data:
                ctx.violation("the directory plaintext readable with the read cap contains a write key", case,
                              "plaintext-contains-writekey")
        # ---- through the read cap: children have no write authority; through the write cap: it is recovered
        ch_ro = rt.wait(dnro.list())
        ch_rw = rt.wait(dn.list())
        linked_rw = False
        want = {}
        for (name, t, mode) in o["links"]:
            want[name] = (t, mode)         # dict semantics of set_children: the last link of a name wins
        for name, (t, mode) in want.items():
            cp = caps[t]
            n_ro = ch_ro[name][0]
            n_rw = ch_rw[name][0]
            if n_ro.get_write_uri():
                ctx.violation("a child listed through the read cap has a write cap", case, "ro-child-has-writecap")
            if not n_ro.is_unknown() and not n_ro.is_readonly():
                ctx.violation("a child listed through the read cap is not read-only", case, "ro-child-writeable")
            if mode == "rw" and cp["rw"] is not None:
                linked_rw = True
                if n_rw.get_write_uri() != cp["rw"]:
                    ctx.violation("the write cap of a child is not recovered with the directory's write cap", case,
                                  "writecap-not-recovered")
            if n_ro.get_readonly_uri() != n_rw.get_readonly_uri():
                ctx.violation("read handle and write handle disagree on a child's read cap", case, "ro-rw-readcap-differ")
        # ---- correspondence of _unpack_contents through both handles with the model
        dm = c19.to_model_cipher(dn, data)
        strs = set()
        names = []
        for (nb, ro, rwcap, _) in c19.parse_packed(dm):
            strs |= {ro, rwcap[16:len(rwcap) - 32] if rwcap else b""}
            names.append(nb.decode("utf-8"))
        ct, nt = c19.class_table(strs), c19.norm_table(names)
        for mode, node in (("mw", dn), ("mr", dnro)):
            res = node._unpack_contents(data)
            lines.append("unpack %s %s %s %s" % (mode, ct, nt, hx(dm)))
            impls.append("ok:" + c19.show_unpacked(res))
            cases.append({"dir": i, "mode": mode, "case": case})
        ctx.case(("dir", len(want), linked_rw) if linked_rw else None)
        ctx.count("dir-children:%d" % min(len(want), 6))
    # ---- every descendant of the root opened by read cap
    r = case["root"][0]
    ro_root = c.create_node_from_uri(None, caps[r]["ro"])
    n = walk_ro(ctx, rt, ro_root, case, 0, {ro_root.get_uri()})
    ctx.case(("walk", n) if n >= 2 else None)
    ctx.count("descendants-checked", n)


def run(ctx):
    common.setup_impl_path()
    import grid
    if ctx.replay:
        c = ctx.replay["case"]
        cases_in = [c["case"] if "case" in c else c]
    else:
        cases_in = [json.loads(json.dumps(c)) for c in c21.CORPUS]
        for i in range(ctx.budget(30, 300)):
            cases_in.append(c21.gen_graph(ctx.rng, ctx.rng.choice([3, 6, 10, 16, 25])))
    lines, impls, cases = [], [], []
    with grid.Runtime(seed=ctx.seed, policy="random") as rt:
        g = grid.Grid(grid.fresh_dir("c18"), rt, num_servers=3, num_clients=1, k=1, happy=1, n=2)
        try:
            w = {"rt": rt, "c": g.clients[0]}
            for case in cases_in:
                one_case(ctx, w, case, lines, impls, cases)
        finally:
            g.close()
    model = ctx.model(lines)
    if model is not None:
        ctx.compare("_unpack_contents through write handle / read handle vs the model", cases, impls, model)
    if cases:
        ctx.sample({"dir": cases[-1]["dir"], "mode": cases[-1]["mode"], "impl": impls[-1][:300]})
