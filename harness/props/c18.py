"""C18 — read-only directory access is transitive (dirnode.py _encrypt_rw_uri / _decrypt_rwcapdata /
_unpack_contents with writeable = not is_readonly; nodemaker.create_from_cap; unknown.py)."""
ID = "C18"
LEAN_PROPS = "Tahoe.Props.C18"
DRIVER = "C19"          # the pack/unpack model of C19 (unpack through write handle / read handle) is the executable part
GENERATED = []
SOURCES = ["src/allmydata/dirnode.py", "src/allmydata/nodemaker.py", "src/allmydata/unknown.py",
           "src/allmydata/util/hashutil.py"]
DESIGN_REF = "DESIGN.md §2 C18"
TECHNIQUE = ("Lean 4 theorems: Dolev-Yao non-derivability of every secret write cap from a read cap plus all packed entries "
             "(invariant 'Good' closed under every derivation rule: derivable_good, readcap_cannot_derive_child_writecap), "
             "derivation and computation of the rw_uri with the write key (writecap_recovers), no write cap on any node "
             "_unpack_contents creates through a read-only parent (createFromCap_none_rw, ro_children_ro) and along any path "
             "(read_only_is_transitive), a cap given only in the write slot never reaches a clear-text slot "
             "(rw_only_cap_never_in_ro_slot, lone_unknown_cap_is_not_packed), a blacklisted child re-packed keeps its write "
             "cap encrypted (prohibited_repack_keeps_writecap_encrypted); correspondence with the C19 pack/unpack model "
             "(_unpack_contents through write and read handles, pack of ProhibitedNode views, every rwcapdata field "
             "recomputed per child); implementation-side monitor with a read-cap-only adversary on real nested directories")
LEVEL_TEXT = ("Symbolic secrecy, write-cap recovery, read-only transitivity, lone-write-slot-cap and ProhibitedNode theorems "
              "proved in Lean (9 theorems).  The unpack/pack model (rw_uri forced empty for read-only parents, "
              "create_from_cap, prohibitedView) is tied to the code by comparing the children unpacked through the write and "
              "the read handle of every directory of random nested graphs, the packed entries of blacklisted children and "
              "the per-child salt/key/ciphertext/MAC of every rwcapdata field.  Monitor only (no theorem): the node cache "
              "must not hand a writeable node to a read-only parent (cold/warm walks with write attempts), and no key-stream "
              "reuse between siblings (xor adversary).")
LEVEL_NOTE = ("Lean kernel + standard axioms; symbolic (Dolev-Yao) secrecy only: hashes one-way, AES-CTR/HMAC ideal, no "
              "guessing (the deterministic salt H(rw_uri) lets a holder of a candidate write cap confirm it); the MAC is "
              "produced but, as in the code, not checked; the model has no node cache.")
RULE = ("random nested directory graphs (as C21: mutable SDMF/MDMF directories with cycles, immutable directories, "
        "CHK/LIT/mutable files, unknown caps with ro./imm. prefixes, links by write cap and by read cap) on the grid, each "
        "examined COLD (a second client that never saw a write cap opens the read caps) and WARM (the client that built "
        "the tree first lists all of it through the write cap, keeps every node alive, then opens the read caps); "
        "a case = one directory examined through its write cap and its read cap (cold and warm), or one walk of all "
        "descendants from the read-only root incl. write attempts (set_uri / delete on directories, overwrite on mutable "
        "files) that must be refused and change nothing; every packed rwcapdata field is recomputed independently "
        "(salt = H(rw_uri) per child, key = H(salt, parent writekey), AES-CTR, HMAC) and an adversary holding the read "
        "cap, the packed bytes and one child's write cap tries to recover its siblings' (shared salt / key-stream xor); "
        "plus a family of directories (SDMF and MDMF, the target at depth 2..4) into which a lone unprefixed unknown-format "
        "cap is offered in the write slot (set_uri, set_children, create_node_from_uri+set_node, create_subdirectory) "
        "and into which a newer client's write-cap-only entry is written raw and then re-packed (set_metadata_for, "
        "move_child_to, copy via initial_children, sibling edit): nothing a holder of just the root read cap can read "
        "(decrypted contents of every directory, caps and metadata exposed by read-only nodes) may contain that cap; "
        "plus directories whose mutable children are named in the writer client's access.blacklist (ProhibitedNode) and "
        "are re-packed while prohibited (rename, set_metadata_for, set_node of the listed node, copy, create_subdirectory) "
        "— the read-cap holder must still not see their write caps; "
        "non-trivial = the directory has a child linked by write cap / "
        "the walk reaches at least 2 nodes")
TRUSTED = ["lean/Tahoe/Dir/Authority.lean: term algebra and derivation rules chosen by hand to mirror _encrypt_rw_uri",
           "lean/Tahoe/Dir/Pack.lean (shared with C19): hand transcription of _unpack_contents, create_from_cap, UnknownNode and "
           "of what packing reads of a ProhibitedNode",
           "harness/props/c19.py helpers (re-framing of ciphertexts, cap classification by the real uri.from_string) and "
           "harness/props/c21.py graph builder"]
ASSUMPTIONS = ["ideal cryptography (symbolic model); write keys of distinct objects are independent secrets",
               "the ro_uri slot of a packed entry holds get_readonly_uri() of the child (what _pack_normalized_children writes; "
               "hypothesis hslot of ro_children_ro)",
               "node-cache sharing between write-cap and read-cap handles and AES-CTR key-stream reuse are outside the model "
               "(monitor / correspondence only)"]

import json
import os

import common
from common import hx
from props import c19, c21

PROBE = "c18-probe"
MAX_PROBES = 6          # write attempts per walk


def guarded(ctx, case, what, f):
    """run a piece of the scenario on the real code; an exception is recorded for this case and the run goes on"""
    import traceback
    try:
        return True, f()
    except Exception as e:  # noqa
        ctx.disagree("the real code raised during: " + what, {"what": what, "case": case},
                     "%s: %s | %s" % (type(e).__name__, e, traceback.format_exc()[-600:]), None)
        ctx.count("exception:" + type(e).__name__)
        return False, None


def check_node(ctx, case, label, path, node, writecaps):
    """the statement, on one node obtained through a read-only directory (or the read-only root itself)"""
    V = lambda what, sig: ctx.violation(what, case, sig + ":" + label, {"path": path, "phase": label})
    w = node.get_write_uri()
    if node.is_unknown():
        if w:
            V("an unknown node obtained through a read-only directory has a rw_uri", "ro-descendant-unknown-rw")
        return
    if w is not None:
        V("a node obtained through a read-only directory exposes a write cap", "ro-descendant-has-writecap")
    if not node.is_readonly():
        V("a node obtained through a read-only directory is not read-only", "ro-descendant-writeable")
    if node.get_uri() in writecaps:
        V("get_uri() of a node obtained through a read-only directory is a write cap of the tree", "ro-descendant-uri-is-writecap")


def probe_write(ctx, W, case, label, path, node, caps, nodes):
    """a modifying call through a node obtained read-only must be refused and change nothing"""
    from allmydata.interfaces import IDirectoryNode, IMutableFileNode
    from allmydata.mutable.publish import MutableData
    from allmydata.mutable.common import NotWriteableError
    rt = W["rt"]
    V = lambda what, sig: ctx.violation(what, case, sig + ":" + label, {"path": path, "phase": label})
    if IDirectoryNode.providedBy(node):
        if not node.is_mutable():
            return False
        owner = [i for i, cp in caps.items() if cp["ro"] == node.get_readonly_uri() and i in nodes]
        before = sorted(rt.wait(nodes[owner[0]].list())) if owner else None
        outcome = []
        for what, call in (("set_uri", lambda: node.set_uri(PROBE, None, b"URI:LIT:obuw63q")),
                           ("delete", lambda: node.delete(before[0] if before else PROBE))):
            try:
                rt.wait(call())
                outcome.append(what + ":accepted")
                V("a modifying call (%s) through a read-only directory was accepted" % what, "ro-modify-accepted:dir")
            except NotWriteableError:
                outcome.append(what + ":NotWriteableError")
            except Exception as e:  # noqa  -- refused, by some other error
                outcome.append(what + ":" + type(e).__name__)
        if owner:
            after = sorted(rt.wait(nodes[owner[0]].list()))
            if after != before:
                V("a directory was changed through a read-only handle", "ro-modify-changed:dir")
                for nm_ in set(after) - set(before):          # leave the scenario as it was
                    try:
                        rt.wait(nodes[owner[0]].delete(nm_))
                    except Exception:
                        pass
        for o in outcome:
            ctx.count("probe-dir:" + o)
        return True
    if IMutableFileNode.providedBy(node):
        old = rt.wait(node.download_best_version())
        try:
            rt.wait(node.overwrite(MutableData(b"OVERWRITTEN through a read-only directory")))
            ctx.count("probe-file:accepted")
            V("overwrite() of a mutable file obtained through a read-only directory was accepted", "ro-modify-accepted:file")
        except Exception as e:  # noqa
            ctx.count("probe-file:" + type(e).__name__)
        new = rt.wait(node.download_best_version())
        if new != old:
            V("a mutable file was changed through a read-only directory", "ro-modify-changed:file")
        return True
    return False


def walk_ro(ctx, W, case, label, node, path, writecaps, caps, nodes, seen, state):
    """every child and descendant obtained through a read-only directory must be read-only or weaker"""
    from allmydata.interfaces import IDirectoryNode
    rt = W["rt"]
    if len(path) > 6:
        return
    ch = rt.wait(node.list())
    for name, (child, md) in sorted(ch.items()):
        state["n"] += 1
        p = path + [name]
        check_node(ctx, case, label, p, child, writecaps)
        if not child.is_unknown() and state["probes"] < MAX_PROBES:
            ok, did = guarded(ctx, case, "write attempt at %r (%s)" % (p, label),
                              lambda: probe_write(ctx, W, case, label, p, child, caps, nodes))
            if ok and did:
                state["probes"] += 1
        if IDirectoryNode.providedBy(child) and child.get_readonly_uri() not in seen:
            seen.add(child.get_readonly_uri())
            walk_ro(ctx, W, case, label, child, p, writecaps, caps, nodes, seen, state)


def list_all(rt, node, held, seen, depth=0):
    """list the whole tree through the write cap, keeping every node object alive in `held`"""
    from allmydata.interfaces import IDirectoryNode
    if depth > 8:
        return
    ch = rt.wait(node.list())
    held.append(ch)
    for name, (child, md) in sorted(ch.items()):
        held.append(child)
        if IDirectoryNode.providedBy(child) and child.get_uri() not in seen:
            seen.add(child.get_uri())
            list_all(rt, child, held, seen, depth + 1)


def examine_dir(ctx, W, case, label, i, o, dn, dnro, caps, writecaps, lines, impls, cases):
    """one mutable directory through its write handle `dn` and a handle `dnro` opened from its read cap"""
    rt = W["rt"]
    V = lambda what, sig, d=None: ctx.violation(what, case, sig + ":" + label, d)
    if dnro.get_write_uri() is not None or not dnro.is_readonly():
        V("a directory opened by its read cap is writeable", "readcap-opens-writeable")
    data = rt.wait(dnro._node.download_best_version())       # what a read-cap holder can decrypt
    # ---- the plaintext reveals no write cap (neither a child's nor any other object's)
    for wc in writecaps:
        if wc in data:
            V("the directory plaintext readable with the read cap contains a write cap", "plaintext-contains-writecap")
        parts = wc.split(b":")
        if len(parts) >= 4 and parts[2] in data:
            V("the directory plaintext readable with the read cap contains a write key", "plaintext-contains-writekey")
    # ---- through the read cap: children have no write authority; through the write cap: it is recovered
    ch_ro = rt.wait(dnro.list())
    ch_rw = rt.wait(dn.list())
    linked_rw = False
    want = {}
    for (name, t, mode) in o["links"]:
        want[name] = (t, mode)         # dict semantics of set_children: the last link of a name wins
    for name, (t, mode) in want.items():
        cp = caps[t]
        if name not in ch_ro or name not in ch_rw:
            V("a linked child is missing from a listing", "child-missing")
            continue
        n_ro = ch_ro[name][0]
        n_rw = ch_rw[name][0]
        check_node(ctx, case, label, [name], n_ro, writecaps)
        if mode == "rw" and cp["rw"] is not None:
            linked_rw = True
            if n_rw.get_write_uri() != cp["rw"]:
                V("the write cap of a child is not recovered with the directory's write cap", "writecap-not-recovered")
        if n_ro.get_readonly_uri() != n_rw.get_readonly_uri():
            V("read handle and write handle disagree on a child's read cap", "ro-rw-readcap-differ")
    # ---- the packed rwcapdata fields: structure as in the model (`encryptRwUri`: salt = H(rw_uri) per child,
    #      key = KDF(salt, parent writekey), CTR ciphertext, MAC), and an adversary who holds the read cap, the
    #      packed bytes and ONE child's write cap
    from allmydata.util import hashutil
    from allmydata.crypto import aes
    writekey = dn._node.get_writekey()
    fields = []
    for (nb, ro, rwcap, md) in c19.parse_packed(data):
        name = c19.nfc(nb.decode("utf-8"))
        rw = (ch_rw[name][0].get_write_uri() if name in ch_rw else None) or b""
        salt = hashutil.mutable_rwcap_salt_hash(rw)
        key = hashutil.mutable_rwcap_key_hash(salt, writekey)
        ct = aes.encrypt_data(aes.create_encryptor(key), rw)
        expected = salt + ct + hashutil.hmac(key, salt + ct)
        if rwcap != expected:
            ctx.disagree("a packed rwcapdata field is not H_salt(rw_uri) || CTR(H_key(salt, writekey), rw_uri) || HMAC "
                         "(the model's per-child encryptRwUri)", {"dir": i, "phase": label, "name": name, "case": case},
                         "salt %s.. len %d" % (rwcap[:16].hex()[:12], len(rwcap)), "salt %s.. len %d" % (salt.hex()[:12], len(expected)))
        fields.append((name, rw, rwcap[:16], rwcap[16:len(rwcap) - 32]))
    real = set(writecaps)
    for (n1, rw1, s1, c1) in fields:
        if not rw1:
            continue
        for (n2, rw2, s2, c2) in fields:
            if n2 == n1 or not rw2 or rw2 == rw1:
                continue
            if s1 == s2:
                V("two children with different write caps are encrypted under one salt (one key stream)", "siblings-share-salt")
            m = min(len(c1), len(c2), len(rw1))
            x = bytes(a ^ b ^ c for a, b, c in zip(c2[:m], c1[:m], rw1[:m]))
            if m >= 16 and (x == rw2[:m] or any(wc[:m] == x for wc in real)):
                V("knowing one child's write cap, xor of two ciphertext fields yields a sibling's write cap",
                  "sibling-writecap-recoverable", {"known": n1, "recovered": n2})
    # ---- correspondence of _unpack_contents through both handles with the model
    dm = c19.to_model_cipher(dn, data)
    strs = set()
    names = []
    for (nb, ro, rwcap, _) in c19.parse_packed(dm):
        strs |= {ro, rwcap[16:len(rwcap) - 32] if rwcap else b""}
        names.append(nb.decode("utf-8"))
    ct, nt = c19.class_table(strs), c19.norm_table(names)
    for mode, node in (("mw", dn), ("mr", dnro)):
        res = node._unpack_contents(data)
        lines.append("unpack %s %s %s %s" % (mode, ct, nt, hx(dm)))
        impls.append("ok:" + c19.show_unpacked(res))
        cases.append({"dir": i, "mode": mode, "phase": label, "case": case})
    ctx.case(("dir", label, len(want), linked_rw) if linked_rw else None)
    ctx.count("dir-children:%d" % min(len(want), 6))


def one_case(ctx, W, case, lines, impls, cases):
    rt, writer, stranger = W["rt"], W["c"], W["c2"]
    w = {"rt": rt, "c": writer}
    ok, root = guarded(ctx, case, "building the graph", lambda: c21.build(w, case))
    if not ok:
        return
    caps, nodes = w["last"]
    objs = case["objs"]
    writecaps = sorted(cp["rw"] for cp in caps.values() if cp["rw"] is not None)
    r = case["root"][0]
    for label, client in (("cold", stranger), ("warm", writer)):
        held = []
        if label == "warm":
            # the writer's client lists the whole tree through the write caps and keeps every node alive
            guarded(ctx, case, "listing the tree through the write cap",
                    lambda: [list_all(rt, nodes[i], held, {nodes[i].get_uri()}) for i in sorted(nodes)])
        for i, o in enumerate(objs):
            if o["kind"] != "mdir":
                continue
            guarded(ctx, case, "examining directory %d (%s)" % (i, label),
                    lambda: examine_dir(ctx, W, case, label, i, o, nodes[i], client.create_node_from_uri(None, caps[i]["ro"]),
                                        caps, writecaps, lines, impls, cases))
        # ---- every descendant of the root opened by its read cap, with write attempts
        state = {"n": 0, "probes": 0}

        def walk():
            ro_root = client.create_node_from_uri(None, caps[r]["ro"])
            check_node(ctx, case, label, [], ro_root, writecaps)
            walk_ro(ctx, W, case, label, ro_root, [], writecaps, caps, nodes, {caps[r]["ro"]}, state)
        guarded(ctx, case, "walking from the read-only root (%s)" % label, walk)
        ctx.case(("walk", label, state["n"], state["probes"]) if state["n"] >= 2 else None)
        ctx.count("descendants-checked:" + label, state["n"])
        ctx.count("write-attempts:" + label, state["probes"])
        del held


# ------------------------------------------------------------------ caps supplied only as (possible) write authority

def readcap_view(rt, client, root_ro):
    """everything a holder of just the root READ cap can obtain: the decrypted contents of every directory it
    reaches, and every cap string / metadata the read-only nodes expose -> [(where, bytes)]"""
    from allmydata.interfaces import IDirectoryNode
    blobs, seen = [], set()

    def visit(node, path):
        if node.get_readonly_uri() in seen or len(path) > 8:
            return
        seen.add(node.get_readonly_uri())
        if node.is_mutable():
            blobs.append(("plaintext of /" + "/".join(path), rt.wait(node._node.download_best_version())))
        for name, (child, md) in sorted(rt.wait(node.list()).items()):
            for what, val in (("get_uri", child.get_uri()), ("get_readonly_uri", child.get_readonly_uri()),
                              ("get_write_uri", child.get_write_uri())):
                if val:
                    blobs.append(("%s of /%s" % (what, "/".join(path + [name])), val))
            blobs.append(("metadata of /" + "/".join(path + [name]), json.dumps(md, sort_keys=True, default=repr).encode()))
            if IDirectoryNode.providedBy(child):
                visit(child, path + [name])
    visit(client.create_node_from_uri(None, root_ro), [])
    return blobs


# fixed corpus (runs first, independent of VERIF_SEED): one minimal graph per known mechanism
#  * a directory with children linked by write cap, listed through the write cap and then opened by read cap on the
#    same client (seeded C18-a: node cache keyed on the read cap hands back the writeable node)
#  * a directory with several children that have *different* write caps (seeded C18-b: one salt / key stream per pack)
#  * c21.CORPUS (cycle, same object by write and read cap) and LONE_CORPUS (seeded C18-c: lone unknown cap in the write slot)
GRAPH_CORPUS = [
    {"objs": [{"kind": "mdir", "mdmf": False, "links": [["f1", 1, "rw"], ["f2", 2, "rw"], ["sub", 3, "rw"], ["u", 5, "rw"]]},
              {"kind": "mfile", "salt": 1}, {"kind": "mfile", "salt": 2},
              {"kind": "mdir", "mdmf": True, "links": [["deep", 4, "rw"], ["up", 0, "rw"], ["f1", 1, "rw"]]},
              {"kind": "mfile", "salt": 3}, {"kind": "unknown", "cap": "lafs://corpus", "imm": False}],
     "root": [0, "rw"]},
]

LONE_CORPUS = [{"lone": True, "mdmf": False, "depth": 2, "token": "c0"}, {"lone": True, "mdmf": True, "depth": 3, "token": "c1"}]


def lone_case(ctx, W, case):
    """A cap of unknown format offered ONLY in the write slot (no read cap, no ro./imm. prefix) is possible write
    authority.  Whatever the code does with it — refuse it (upstream), or link it —, nothing a holder of just the
    directory's read cap can read may contain it."""
    from allmydata.interfaces import MDMF_VERSION, SDMF_VERSION
    from allmydata.mutable.publish import MutableData
    from allmydata.dirnode import _encrypt_rw_uri
    rt, writer, stranger = W["rt"], W["c"], W["c2"]
    fmt = MDMF_VERSION if case["mdmf"] else SDMF_VERSION
    dirs = [rt.wait(writer.create_dirnode(version=fmt)) for _ in range(case["depth"] + 1)]
    for a, b in zip(dirs, dirs[1:]):
        rt.wait(a.set_uri("sub", b.get_uri(), b.get_readonly_uri()))
    root, T = dirs[0], dirs[-1]
    rt.wait(T.set_uri("sibling", None, b"URI:LIT:obuw63q"))
    lit = b"URI:LIT:nfxgk"
    tok = case["token"].encode()

    def attempt(f):
        try:
            rt.wait(f())
            return "accepted"
        except Exception as e:  # noqa
            return type(e).__name__

    def judge(route, secret, outcome):
        ok, blobs = guarded(ctx, case, "reading the tree with the root read cap (%s)" % route,
                            lambda: readcap_view(rt, stranger, root.get_readonly_uri()))
        if not ok:
            return
        for where, blob in blobs:
            if secret in blob:
                ctx.violation("a cap supplied only in the write slot is visible to a holder of the directory read cap",
                              case, "writecap-visible-to-readcap-holder:" + route,
                              {"where": where, "outcome": outcome, "format": "MDMF" if case["mdmf"] else "SDMF",
                               "depth": case["depth"]})
                break
        ctx.case(("lone", route, case["mdmf"], case["depth"], outcome.split(",")[0]))
        ctx.count("lone:%s:%s" % (route, outcome))

    # ---- routes 1: offered through the API
    s1 = b"lafs://future-secret-set-uri-" + tok
    judge("set_uri", s1, attempt(lambda: T.set_uri("lone1", s1)))
    s2 = b"lafs://future-secret-set-children-" + tok
    judge("set_children", s2, attempt(lambda: T.set_children({"lone2": (s2, None), "other": (None, lit)})))
    s3 = b"lafs://future-secret-set-node-" + tok
    judge("set_node", s3, attempt(lambda: T.set_node("lone3", writer.create_node_from_uri(s3))))
    s3b = b"lafs://future-secret-subdir-" + tok
    judge("create_subdirectory", s3b,
          attempt(lambda: T.create_subdirectory("lone4", initial_children={"x": (writer.create_node_from_uri(s3b), {})})))
    # ---- route 2: an entry stored by a newer client with only an encrypted rw_uri, then re-packed by this one
    s4 = b"lafs://future-secret-raw-" + tok

    def raw_write():
        old = rt.wait(T._node.download_best_version())
        entry = c19.frame([("newer".encode(), b"", _encrypt_rw_uri(T._node.get_writekey(), s4), b"{}")])
        return T._node.overwrite(MutableData(old + entry))
    out = [attempt(raw_write)]
    judge("raw-entry", s4, out[0])
    out.append(attempt(lambda: T.list()))
    out.append(attempt(lambda: T.set_metadata_for("newer", {"touched": 1})))
    judge("raw-entry+set_metadata_for", s4, ",".join(out))
    out.append(attempt(lambda: T.move_child_to("newer", root, "moved")))
    judge("raw-entry+move_child_to", s4, ",".join(out))

    def copy():
        d = writer.create_dirnode(initial_children=rt.wait(T.list()))
        d.addCallback(lambda nd: root.set_node("copy", nd))
        return d
    out.append(attempt(copy))
    judge("raw-entry+copy", s4, ",".join(out))
    out.append(attempt(lambda: T.set_uri("sibling2", None, lit)))
    judge("raw-entry+sibling-edit", s4, ",".join(out))


PROHIBITED_CORPUS = [{"prohibited": True, "mdmf": False, "depth": 1}, {"prohibited": True, "mdmf": True, "depth": 2}]


def prohibited_case(ctx, W, case):
    """The writer's client has an access.blacklist naming mutable children of a directory (NodeMaker wraps them in
    ProhibitedNode).  While they are prohibited their entries are re-packed (rename, set_metadata_for, set_node of the
    listed node, copy of the listing, create_subdirectory(initial_children=...)).  As always: nothing a holder of just the
    root read cap can read may contain a descendant's write cap."""
    from allmydata.interfaces import MDMF_VERSION, SDMF_VERSION
    from allmydata.mutable.publish import MutableData
    from allmydata.util import base32
    rt, writer, stranger, g = W["rt"], W["c"], W["c2"], W["g"]
    fmt = MDMF_VERSION if case["mdmf"] else SDMF_VERSION
    dirs = [rt.wait(writer.create_dirnode(version=fmt)) for _ in range(case["depth"] + 1)]
    for a, b in zip(dirs, dirs[1:]):
        rt.wait(a.set_uri("sub", b.get_uri(), b.get_readonly_uri()))
    root, T = dirs[0], dirs[-1]
    F = rt.wait(writer.create_mutable_file(MutableData(b"prohibited file"), version=fmt))
    S = rt.wait(writer.create_dirnode(version=fmt))
    rt.wait(S.set_uri("inner", None, b"URI:LIT:nfxgk"))
    rt.wait(T.set_uri("file", F.get_uri(), F.get_readonly_uri()))
    rt.wait(T.set_uri("dir", S.get_uri(), S.get_readonly_uri()))
    secrets = []
    for n in (F, S):
        secrets.append(n.get_uri())
        parts = n.get_uri().split(b":")
        secrets.append(parts[2])            # the write key field of the cap

    def attempt(f):
        try:
            rt.wait(f())
            return "accepted"
        except Exception as e:  # noqa
            return type(e).__name__

    def judge(step, outcome):
        ok, blobs = guarded(ctx, case, "reading the tree with the root read cap (%s)" % step,
                            lambda: readcap_view(rt, stranger, root.get_readonly_uri()))
        if not ok:
            return
        for where, blob in blobs:
            if any(sec in blob for sec in secrets):
                ctx.violation("the write cap of a blacklisted child is visible to a holder of the directory read cap",
                              case, "writecap-visible-to-readcap-holder:prohibited-node-repacked",
                              {"where": where, "step": step, "outcome": outcome, "format": "MDMF" if case["mdmf"] else "SDMF"})
                break
        ctx.case(("prohibited", step, case["mdmf"], outcome))
        ctx.count("prohibited:%s:%s" % (step, outcome))

    fn = os.path.join(g.basedir, "clients", "00", "access.blacklist")

    def write_blacklist(lines):
        with open(fn, "wb") as f:
            f.write(b"".join(lines))
        W["mtime"] = W.get("mtime", os.stat(fn).st_mtime) + 10
        os.utime(fn, (W["mtime"], W["mtime"]))
    judge("before", "-")
    write_blacklist([base32.b2a(n.get_storage_index()) + b" c18 corpus\n" for n in (F, S)])
    try:
        listing = rt.wait(T.list())
        ctx.count("prohibited-nodes-listed", sum(1 for (n, md) in listing.values() if type(n).__name__ == "ProhibitedNode"))
        # correspondence: what packing sees of a ProhibitedNode (model: `prohibitedView` of the wrapped node)
        from allmydata.dirnode import pack_children
        key = T._node.get_writekey()
        for nm_, (pn, md) in sorted(listing.items()):
            if type(pn).__name__ != "ProhibitedNode":
                continue
            inner = pn.wrapped_node
            packed = pack_children({nm_: (pn, {})}, key, False)
            W["lines"].append("packp %s - %s~%s~%s" % (c19.class_table({inner.get_write_uri(), inner.get_readonly_uri()}),
                                                       hx(nm_.encode()), c19.show_node(inner), hx(b"{}")))
            W["impls"].append("ok:" + hx(c19.to_model_cipher(T, packed)))
            W["cases"].append({"prohibited-pack": nm_, "case": case})
        judge("rename", attempt(lambda: T.move_child_to("file", T, "file-renamed")))
        judge("set_metadata_for", attempt(lambda: T.set_metadata_for("dir", {"touched": 1})))
        judge("set_node", attempt(lambda: T.set_node("dir-again", listing["dir"][0])))

        def copy():
            d = writer.create_dirnode(initial_children=rt.wait(T.list()))
            d.addCallback(lambda nd: root.set_node("copy", nd))
            return d
        judge("copy", attempt(copy))
        judge("create_subdirectory",
              attempt(lambda: T.create_subdirectory("sub2", initial_children={"f": (listing["dir"][0], {})})))
        judge("move-to-parent", attempt(lambda: T.move_child_to("dir", root, "dir-moved")))
    finally:
        write_blacklist([])


def run(ctx):
    common.setup_impl_path()
    import grid
    lone = []
    if ctx.replay:
        c = ctx.replay["case"]
        c = c["case"] if "case" in c else c
        cases_in, lone = ([], [c]) if (c.get("lone") or c.get("prohibited")) else ([c], [])
    else:
        corpus_only = os.environ.get("VERIF_CORPUS_ONLY") == "1"
        cases_in = [json.loads(json.dumps(c)) for c in GRAPH_CORPUS + c21.CORPUS]
        for i in range(0 if corpus_only else ctx.budget(22, 250)):
            cases_in.append(c21.gen_graph(ctx.rng, ctx.rng.choice([3, 6, 10, 16, 25])))
        lone = [json.loads(json.dumps(c)) for c in LONE_CORPUS + PROHIBITED_CORPUS]
        for i in range(0 if corpus_only else ctx.budget(4, 60)):
            lone.append({"lone": True, "mdmf": ctx.rng.random() < 0.5, "depth": ctx.rng.choice([2, 2, 3, 4]),
                         "token": "%08x" % ctx.rng.randrange(1 << 32)})
        for i in range(0 if corpus_only else ctx.budget(2, 30)):
            lone.append({"prohibited": True, "mdmf": ctx.rng.random() < 0.5, "depth": ctx.rng.choice([1, 2, 3])})
    lines, impls, cases = [], [], []
    with grid.Runtime(seed=ctx.seed, policy="random") as rt:
        g = grid.Grid(grid.fresh_dir("c18"), rt, num_servers=3, num_clients=2, k=1, happy=1, n=2)
        try:
            W = {"rt": rt, "c": g.clients[0], "c2": g.clients[1], "g": g, "lines": lines, "impls": impls, "cases": cases}
            for case in cases_in:
                one_case(ctx, W, case, lines, impls, cases)
            for case in lone:
                guarded(ctx, case, "write-authority-only family",
                        lambda: (prohibited_case if case.get("prohibited") else lone_case)(ctx, W, case))
        finally:
            g.close()
    model = ctx.model(lines)
    if model is not None:
        ctx.compare("_unpack_contents through write handle / read handle vs the model", cases, impls, model)
    if cases:
        ctx.sample({k: v for k, v in cases[-1].items() if k != "case"} | {"impl": impls[-1][:300]})
