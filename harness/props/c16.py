"""C16 — capabilities attenuate correctly (uri.py get_readonly/get_verify_cap/flags, alleged prefixes,
unknown.py UnknownNode, nodemaker.py create_from_cap)."""
import os
import random

from common import hx
from props import _uri_common as U

ID = "C16"
LEAN_PROPS = "Tahoe.Props.C16"
DRIVER = "C16"
GENERATED = []
SOURCES = ["src/allmydata/uri.py", "src/allmydata/unknown.py", "src/allmydata/nodemaker.py"]
DESIGN_REF = "DESIGN.md §2 C16"
TECHNIQUE = ("Lean 4 theorems over an executable model of the cap classes' get_readonly/get_verify_cap/is_readonly/is_mutable, "
             "an explicit authority order (write > read > verify > opaque), from_string prefix handling, UnknownNode.__init__, "
             "strip_prefix_for_ro, create_from_cap with its node cache, what dirnode stores in the cleartext ro slot and what "
             "_unpack_contents makes of an entry, with the tagged hashes as uninterpreted functions; differential correspondence "
             "on a fixed corpus and generated inputs: every derivation/flag/authority on real cap objects, caps x prefixes x "
             "contexts, (rw, ro) pairs through UnknownNode / create_from_cap / pack -> unpack, create_from_cap histories on one "
             "NodeMaker, hand-crafted DIR2-LIT / DIR2-CHK / read-only mutable directories, and an in-process grid scenario")
LEVEL_TEXT = ("Proved in Lean for all cap objects / all byte strings / both contexts / every choice of hash functions: "
              "chain_same_si_fp, attenuation_noninterference, flags_sound, authority_monotone (diminishing is monotone "
              "non-increasing), alleged_prefix_respected, parsed_authority_bounded, node_respects_context, cache_is_memoryless "
              "(every create_from_cap history equals the cold calls), unknown_prefix_kept, ro_slot_never_writes and "
              "ro_slot_end_to_end (set_uri -> pack -> ro slot -> _unpack_contents incl. rstrip: the reader never gets more than "
              "read authority, except roSlotException), immutable_dir_children (children of DIR2-CHK and DIR2-LIT directories are "
              "refused or read-only & immutable, transitively). The single exception is proved inhabited "
              "(ro_slot_exception_is_real, ro_slot_unprefixed_writecap_counterexample) and is the open known finding "
              "ro-slot-unprefixed-writecap-in-unknownnode.")
LEVEL_NOTE = ("Lean kernel + standard axioms. Hashes are abstract (the driver receives the real hash values as tables; their "
              "values are C17's subject); node classes are represented by their kind; NodeMaker's blacklist is not modelled. "
              "Of the directory serialisation only the ro-slot string and the per-entry handling of _unpack_contents are "
              "modelled (netstring framing, encrypted rw slot, metadata: not covered); the grid scenario is monitor-only.")
RULE = ("a case is one cap object (all derivations, flags, authority), one (prefix+string, deep) pair through from_string, one "
        "UnknownNode(rw, ro, deep) / create_from_cap(w, r, deep) call with its ro-slot route, one call of a create_from_cap "
        "history, or one hand-crafted directory entry read by _unpack_contents; distinct = distinct inputs (history prefix "
        "for histories); non-trivial = the object is not LIT/unknown for attenuation, the string reaches a cap pattern for "
        "from_string, at least one cap is given for UnknownNode/create_from_cap, the ro slot is non-empty for directory entries")
TRUSTED = ["lean/Tahoe/Uri/Caps.lean is a hand transcription of the attenuation methods, UnknownNode.__init__, "
           "strip_prefix_for_ro, create_from_cap/_create_from_single_cap (with cache), the ro-slot part of "
           "_pack_normalized_children and the per-entry part of _unpack_contents",
           "NodeMaker / DirectoryNode are driven with stub storage_broker/terminator objects (no grid) except in the grid "
           "scenario (harness/grid.py); only node class, flags, uris and authority are observed"]
ASSUMPTIONS = ["hashutil.ssk_readkey_hash / ssk_storage_index_hash / storage_index_hash are treated as arbitrary functions "
               "(their values are C17's subject); storage indexes have 16 bytes",
               "the reader of a directory has no write key (rw slot not decrypted); directory kinds with write access are "
               "outside unpackChild",
               "C15's grammar edge classes (leading zeros, CHK-verifier junk) are not generated here"]

def tables_for(c):
    """hash tables (rk, si, chk) covering the attenuation of cap object c, from the real attributes"""
    inner = c.get_filenode_cap() if hasattr(c, "get_filenode_cap") else c
    t = U.FILE_TAG[type(inner).__name__]
    rk, si, chk = {}, {}, {}
    if t in ("SSK", "MDMF"):
        rk[inner.writekey] = inner.readkey
        si[inner.readkey] = inner.storage_index
    elif t in ("SSKRO", "MDMFRO"):
        si[inner.readkey] = inner.storage_index
    elif t == "CHK":
        chk[inner.key] = inner.storage_index

    def show(d):
        return ",".join("%s=%s" % (hx(a), hx(b)) for a, b in sorted(d.items())) or "-"
    return show(rk), show(si), show(chk)


def cap_and_ts(c):
    if c is None:
        return "None"
    return "%s %s" % (U.describe(c), U.to_string_or_assert(c))


def b(x):
    return "None" if x is None else ("1" if x else "0")


def impl_att(c):
    ro = c.get_readonly()
    v = c.get_verify_cap()
    rov = ro.get_verify_cap() if ro is not None else None
    vv = v.get_verify_cap() if v is not None else None
    si = c.get_storage_index()
    return "%s %s %s | %s | %s | %s | %s | auth=%s%s%s" % (
        b(c.is_readonly()), b(c.is_mutable()), "None" if si is None else hx(si),
        cap_and_ts(ro), cap_and_ts(v), cap_and_ts(rov), cap_and_ts(vv), cap_authority(c), cap_authority(ro), cap_authority(v))


def cap_authority(c):
    """W/R/V by the secrets the object holds (write key / read key or literal data / neither); O = UnknownURI"""
    if c is None:
        return "-"
    if type(c).__name__ == "UnknownURI":
        return "O"
    inner = c.get_filenode_cap() if hasattr(c, "get_filenode_cap") else c
    if hasattr(inner, "writekey"):
        return "W"
    if hasattr(inner, "readkey") or hasattr(inner, "key") or hasattr(inner, "data"):
        return "R"
    return "V"


def node_authority(node):
    if type(node).__name__ == "UnknownNode":
        return "W" if node.get_write_uri() else "O"
    return cap_authority(node.get_cap() if hasattr(node, "get_cap") else node.get_verify_cap())


def impl_slot(rc, rw, ro, deep):
    """(driver line, implementation output) for the route set_uri -> pack ro slot -> reader; None if not comparable"""
    from allmydata.unknown import strip_prefix_for_ro
    from allmydata.interfaces import CapConstraintError
    child = rc.mk().create_from_cap(rw, ro, deep_immutable=deep)
    rk = "-"
    if type(child).__name__ != "UnknownNode" and hasattr(child, "get_cap"):
        cap = child.get_cap()
        inner = cap.get_filenode_cap() if hasattr(cap, "get_filenode_cap") else cap
        if hasattr(inner, "writekey"):
            rk = "%s=%s" % (hx(inner.writekey), hx(inner.readkey))
    line = "slot %d %s %s %s" % (deep, opt(rw), opt(ro), rk)
    try:
        child.raise_error()
    except CapConstraintError as e:
        return line, "REFUSED " + U.ERRS[type(e).__name__]
    if type(child).__name__ == "CiphertextFileNode":
        return line, "NOTPACKABLE"
    stored = strip_prefix_for_ro(child.get_readonly_uri() or b"", deep)
    if stored.endswith(b" "):
        return None          # _unpack_contents rstrips spaces before parsing; not modelled
    reader = rc.mk().create_from_cap(None, stored or None, deep_immutable=deep)
    return line, "STORED %s -> %s auth=%s" % (hx(stored), show_node(reader), node_authority(reader))


def secrets(c):
    """(writekey, readkey) carried by a cap object (None where absent)"""
    inner = c.get_filenode_cap() if hasattr(c, "get_filenode_cap") else c
    return getattr(inner, "writekey", None), (getattr(inner, "readkey", None) or getattr(inner, "key", None))


def integrity(c):
    inner = c.get_filenode_cap() if hasattr(c, "get_filenode_cap") else c
    if hasattr(inner, "fingerprint"):
        return inner.fingerprint
    if hasattr(inner, "uri_extension_hash"):
        return (inner.uri_extension_hash, inner.needed_shares, inner.total_shares, inner.size)
    return None


def monitor_att(ctx, c):
    """the statement of C16 on one real cap object"""
    from allmydata import uri
    from allmydata.util import base32
    case = {"cap": U.describe(c)}
    fd, tag = U.tag_of(c)
    kind = fd + tag
    if tag in ("CHKV", "SSKV", "MDMFV"):
        # The statement speaks of deriving from write caps and read caps; for a verify cap it only forbids
        # reporting authority.  (get_verify_cap() of DIR2-CHK-Verifier / DIR2-MDMF-Verifier returns a
        # DirectoryURIVerifier around the wrong inner class whose to_string() asserts — compared with the model
        # in the correspondence part, not judged here.)
        if not c.is_readonly() or c.is_mutable():
            ctx.violation("verify cap reports authority", case, "flag-verifier-" + kind)
        return
    ro, v = c.get_readonly(), c.get_verify_cap()
    wk, rkey = secrets(c)
    # a write cap reveals its derived read key as attribute `readkey`
    derived_rk = getattr(c.get_filenode_cap() if hasattr(c, "get_filenode_cap") else c, "readkey", rkey)
    for name, d in (("readonly", ro), ("verify", v), ("readonly.verify", ro.get_verify_cap() if ro is not None else None)):
        if d is None:
            if tag != "LIT":
                ctx.violation("%s cap missing" % name, case, "derivation-missing-" + kind)
            continue
        if d.get_storage_index() != c.get_storage_index():
            ctx.violation("storage index changes along the chain (%s)" % name, case, "chain-si-" + kind)
        if integrity(d) != integrity(c):
            ctx.violation("fingerprint changes along the chain (%s)" % name, case, "chain-fp-" + kind)
        if not d.is_readonly():
            ctx.violation("%s cap reports write authority" % name, case, "flag-readonly-" + kind)
        s = d.to_string()
        dwk, drk = secrets(d)
        if wk is not None and (dwk is not None or base32.b2a(wk) in s.split(b":")):
            ctx.violation("%s cap carries the write key" % name, case, "leak-writekey-" + kind)
        if name != "readonly":
            if d.is_mutable():
                ctx.violation("verify cap reports mutable", case, "flag-verify-mutable-" + kind)
            if derived_rk is not None and (drk is not None or base32.b2a(derived_rk) in s.split(b":")):
                ctx.violation("verify cap carries the read key", case, "leak-readkey-" + kind)
        # the derived cap parses back as a cap of the same kind that is read-only
        back = uri.from_string(s)
        if type(back) is not type(d) or not back.is_readonly():
            ctx.violation("derived cap does not parse back as the same read-only kind", case, "derived-reparse-" + kind)
    if ro is not None:
        if ro.is_mutable() != c.is_mutable():
            ctx.violation("diminishing changes mutability", case, "flag-mutable-" + kind)
        if ro.get_readonly().to_string() != ro.to_string():
            ctx.violation("get_readonly not idempotent", case, "readonly-idempotent-" + kind)
        if ro.get_verify_cap() is not None and v is not None and ro.get_verify_cap().to_string() != v.to_string():
            ctx.violation("read-then-verify differs from verify", case, "chain-path-" + kind)
        # non-interference: the read cap is what one builds from (readkey, fingerprint) alone
        if tag in ("SSK", "MDMF"):
            inner = c.get_filenode_cap() if fd == "D" else c
            rebuilt = {"SSK": uri.ReadonlySSKFileURI, "MDMF": uri.ReadonlyMDMFFileURI}[tag](inner.readkey, inner.fingerprint)
            if fd == "D":
                rebuilt = uri.wrap_dirnode_cap(rebuilt)
            if rebuilt.to_string() != ro.to_string():
                ctx.violation("read cap is not a function of (readkey, fingerprint)", case, "noninterference-ro-" + kind)
    if v is not None and tag in ("SSK", "SSKRO", "MDMF", "MDMFRO"):
        inner = c.get_filenode_cap() if fd == "D" else c
        rebuilt = (uri.SSKVerifierURI if tag.startswith("SSK") else uri.MDMFVerifierURI)(inner.storage_index, inner.fingerprint)
        want = rebuilt.to_string().split(b":", 2)[2]
        if v.to_string().split(b":", 2)[2] != want:
            ctx.violation("verify cap is not a function of (storage index, fingerprint)", case, "noninterference-v-" + kind)
    if not c.is_readonly() and wk is None:
        ctx.violation("cap without a write key reports writeable", case, "flag-writeable-without-key-" + kind)


class _SB:
    def get_connected_servers(self):
        return []


class _Term:
    def register(self, x):
        pass


def node_kind(n):
    name = type(n).__name__
    m = {"LiteralFileNode": "Literal", "ImmutableFileNode": "Immutable", "CiphertextFileNode": "ImmutableVerifier",
         "MutableFileNode": "Mutable"}
    if name == "DirectoryNode":
        return "Dir(%s)" % node_kind(n._node)
    return m[name]


def show_unknown(n):
    return "%s %s %s" % (U.ERRS[type(n.error).__name__], "None" if n.rw_uri is None else hx(n.rw_uri),
                         "None" if n.ro_uri is None else hx(n.ro_uri))


def opt(x):
    return "N" if x is None else hx(x)


UNKNOWN_RWS = [b"x-future:abc", b"x-tahoe-future-test-writeable:xyz", b"lafs://from_the_future_rw", b"URI:FOO:bar"]


def by_kind(objs):
    d = {}
    for c in objs:
        fd, tag = U.tag_of(c)
        d.setdefault((tag, fd == "D"), []).append(c)
    return d


def has_write_authority(node):
    """a node gives write authority if it is a known node that is not read-only, or any node exposing a write uri"""
    if type(node).__name__ == "UnknownNode":
        return node.get_write_uri() is not None
    if not hasattr(node, "is_readonly"):        # CiphertextFileNode
        return False
    return (not node.is_readonly()) or node.get_write_uri() is not None


def marking(ro):
    return "imm-prefixed" if ro.startswith(b"imm.") else ("ro-prefixed" if ro.startswith(b"ro.") else "unprefixed")


class RoSlotContext:
    """real directory nodes (stub grid) to push a child entry through pack -> unpack as a reader would see it"""

    def __init__(self, rng):
        from allmydata import uri
        from allmydata.nodemaker import NodeMaker
        self.mk = lambda: NodeMaker(_SB(), None, None, None, _Term(), {"k": 3, "n": 10}, None, None)
        wcap = uri.DirectoryURI(uri.WriteableSSKFileURI(U.rand_bytes(rng, 16), U.rand_bytes(rng, 32)))
        icap = uri.ImmutableDirectoryURI(uri.CHKFileURI(U.rand_bytes(rng, 16), U.rand_bytes(rng, 32), 3, 10, 999))
        self.dw = self.mk().create_from_cap(wcap.to_string())                    # the linker: holds the directory write cap
        self.dr = self.mk().create_from_cap(wcap.get_readonly().to_string())     # the lister: holds only the read cap
        self.di_w = self.mk().create_from_cap(icap.to_string())                  # immutable directory being built
        self.di_r = self.mk().create_from_cap(icap.to_string())


def monitor_ro_slot(ctx, rc, rw, ro, deep, case):
    """Statement: a cap presented in a read-only position (the ro_uri slot, with or without ro./imm.) never yields
    a node with write authority for someone who is only shown that position — directly, through what
    _pack_normalized_children stores, and through pack -> unpack -> create_from_cap(None, stored_ro)."""
    from allmydata import dirnode
    from allmydata.unknown import UnknownNode, strip_prefix_for_ro
    from allmydata.interfaces import CapConstraintError
    if not ro:
        return

    def report(path, child_unknown, extra=None):
        m = marking(ro)
        if m == "unprefixed" and child_unknown:
            sig = "ro-slot-unprefixed-writecap-in-unknownnode"
        else:
            sig = "ro-slot-yields-writecap:%s:%s" % (path, m)
        ctx.violation("cap given in the ro_uri slot (%s) yields write authority via %s" % (m, path),
                      dict(case, path=path), sig, extra)

    # (1) UnknownNode directly, and what a directory would store for it
    n = UnknownNode(rw, ro, deep_immutable=deep)
    if n.error is None and n.get_readonly_uri():
        stored = strip_prefix_for_ro(n.get_readonly_uri(), deep)
        for path, capstr in (("unknownnode-ro_uri", n.get_readonly_uri()), ("unknownnode-stored-ro", stored)):
            back = rc.mk().create_from_cap(None, capstr, deep_immutable=deep)
            if has_write_authority(back):
                report(path, True)
    # (2) the linker's create_from_cap + raise_error (= dirnode.set_uri), pack, then unpack by a reader
    dw, dr = (rc.di_w, rc.di_r) if deep else (rc.dw, rc.dr)
    try:
        child = dw._create_and_validate_node(rw, ro, u"child")
        packed = dirnode._pack_normalized_children({u"child": (child, {})}, None if deep else dw._node.get_writekey(),
                                                   deep_immutable=deep)
    except CapConstraintError:
        ctx.count("ro-slot:refused")
        return
    except (AssertionError, AttributeError):
        ctx.count("ro-slot:not-packable")   # verify-cap nodes (CiphertextFileNode) are not IFilesystemNode: pack asserts
        return
    ctx.count("ro-slot:linked")
    try:
        children = dr._unpack_contents(packed)
    except CapConstraintError:
        return
    except (AssertionError, AttributeError):
        ctx.count("ro-slot:reader-crash-on-verify-cap-node")   # CiphertextFileNode lacks the IFilesystemNode methods
        return
    if u"child" not in children:      # the reader dropped an entry it could not accept
        ctx.count("ro-slot:dropped-by-reader")
        return
    got, _md = children[u"child"]
    if has_write_authority(got) or (deep and type(got).__name__ != "UnknownNode" and got.is_mutable()):
        # a known rw cap in the rw slot is diminished by the linker's node (get_readonly_uri); whatever reaches
        # the reader came from the ro position
        report("pack-unpack", type(child).__name__ == "UnknownNode", {"reader_node": show_node(got)})


def run_grid(ctx):
    """End to end on the in-process grid: a client with the directory write-cap links children with set_uri
    (every rw/ro/prefix combination around a real mutable file's write-cap), a second client lists the
    directory through its READ-cap: no child may expose write authority."""
    import grid
    from allmydata.interfaces import CapConstraintError
    from allmydata.mutable.publish import MutableData
    with grid.Runtime(seed=0, policy="fifo") as rt:
        g = grid.Grid(grid.fresh_dir("c16"), rt, num_servers=2, num_clients=2, k=1, happy=1, n=1)
        try:
            alice, bob = g.clients
            target = rt.wait(alice.create_mutable_file(MutableData(b"original")))
            wcap, rcap = target.get_write_uri(), target.get_readonly_uri()
            d = rt.wait(alice.create_dirnode())
            combos = []
            for rw in (None, U.UNKNOWN_RW, wcap):
                for ro in (None, wcap, b"ro." + wcap, b"imm." + wcap, rcap, b"ro." + rcap, b"imm." + rcap):
                    if rw or ro:
                        combos.append((rw, ro))
            linked = {}
            for i, (rw, ro) in enumerate(combos):
                name = u"c%d" % i
                try:
                    rt.wait(d.set_uri(name, rw, ro))
                    linked[name] = (rw, ro)
                    ctx.count("grid:linked")
                except (CapConstraintError, AssertionError):
                    ctx.count("grid:refused")
            d_ro = bob.create_node_from_uri(d.get_readonly_uri())
            children = rt.wait(d_ro.list())
            for name, (child, _md) in sorted(children.items()):
                rw, ro = linked[name]
                case = {"rw": opt(rw), "ro": opt(ro), "deep": False, "path": "grid-set_uri-list"}
                ctx.case(("grid", rw, ro))
                if has_write_authority(child):
                    m = marking(ro or b"")
                    if ro and m == "unprefixed" and rw == U.UNKNOWN_RW:
                        sig = "ro-slot-unprefixed-writecap-in-unknownnode"
                    else:
                        sig = "ro-slot-yields-writecap:grid-set_uri-list:%s" % m
                    ctx.violation("holder of only the directory read-cap got a node with write authority for child %s" % name,
                                  case, sig, {"reader_node": show_node(child)})
        finally:
            g.close()
            import shutil
            shutil.rmtree(g.basedir, ignore_errors=True)


def pack_entry(name, ro, rwcapdata=b"", md=b"{}"):
    from allmydata.util.netstring import netstring
    return netstring(netstring(name.encode("utf-8")) + netstring(ro) + netstring(rwcapdata) + netstring(md))


def list_sync(dirnode):
    """DirectoryNode.list() of a directory whose contents need no grid (DIR2-LIT): ('ok', children) | ('exc', name)"""
    from twisted.python.failure import Failure
    res = []
    dirnode.list().addBoth(res.append)
    if not res:
        return ("exc", "NotSynchronous")
    if isinstance(res[0], Failure):
        return ("exc", res[0].type.__name__)
    return ("ok", res[0])


def unpack_with(rc, flavour, packed):
    """children of a hand-crafted directory of the given flavour, as a reader without write key sees them"""
    from allmydata.util import base32
    try:
        if flavour == "CHK":
            return ("ok", rc.di_r._unpack_contents(packed))
        if flavour == "SSKRO":
            return ("ok", rc.dr._unpack_contents(packed))
    except (ValueError, AttributeError) as e:
        return ("exc", type(e).__name__)
    how, deep = {"LIT": (b"", False), "LIT-imm": (b"imm.", False), "LIT-ro": (b"ro.", False), "LIT-deep": (b"", True)}[flavour]
    cap = how + b"URI:DIR2-LIT:" + base32.b2a(packed)
    d = rc.mk().create_from_cap(None, cap, deep_immutable=deep)
    assert type(d).__name__ == "DirectoryNode", d
    return list_sync(d)


IMM_FLAVOURS = ("LIT", "LIT-imm", "LIT-ro", "LIT-deep", "CHK")


def judge_immutable_child(ctx, flavour, kind, child, case):
    """a child obtained through an immutable directory must not be mutable / writeable / expose a write uri;
    an unknown child must be alleged imm."""
    sig = "deep-immutable-not-transitive:%s:%s" % (flavour, kind)
    if type(child).__name__ == "UnknownNode":
        if child.get_write_uri() is not None or child.error is not None or \
                not (child.get_readonly_uri() or b"imm.").startswith(b"imm."):
            ctx.violation("unknown child of an immutable directory is not imm.-alleged / has a rw_uri", case, sig,
                          {"child": show_unknown(child)})
        return
    bad = child.is_mutable() or (hasattr(child, "is_readonly") and not child.is_readonly()) or \
        (hasattr(child, "get_write_uri") and child.get_write_uri() is not None)
    if bad:
        ctx.violation("child obtained through an immutable (%s) directory is mutable or writeable" % flavour, case, sig,
                      {"child": show_node(child)})


def run_immutable_dirs(ctx, objs, rng, corpus):
    """Hand-crafted directories of both immutable flavours (DIR2-LIT from packed bytes inside the cap string, opened
    plainly / with imm. / with ro. / with deep_immutable=True; DIR2-CHK through _unpack_contents of a stub-grid node)
    and of a mutable directory read through its read cap, containing every child kind in the ro slot
    (unprefixed, ro., imm., unknown formats, trailing spaces) and entries with non-empty rwcapdata."""
    from allmydata.util import base32
    rc = RoSlotContext(rng)
    per = 1 if corpus else ctx.budget(2, 30)
    entries = []                      # (kind label, ro slot bytes)
    for (tag, is_dir), cs in sorted(by_kind(objs).items()):
        for c in cs[:per]:
            s = c.to_string()
            k = ("D" if is_dir else "F") + tag
            for pre in (b"", b"ro.", b"imm."):
                entries.append((k, pre + s))
            if corpus or rng.random() < 0.2:
                entries.append((k, s + b"  "))
    for u in UNKNOWN_RWS + [b"x-tahoe-future-test-mutable:zz"]:
        for pre in (b"", b"ro.", b"imm."):
            entries.append(("unknown", pre + u))
    entries.append(("empty", b""))
    lines, impl, cases = [], [], []
    flavours = IMM_FLAVOURS + ("SSKRO",)
    for kind, ro in entries:
        for flavour in flavours:
            for rwcap in (b"", b"x" * 50):
                if rwcap and not (corpus or rng.random() < 0.15):
                    continue
                case = {"flavour": flavour, "child_kind": kind, "ro": hx(ro), "rwcapdata": bool(rwcap)}
                st, res = unpack_with(rc, flavour, pack_entry(u"c", ro, rwcap))
                if st == "exc":
                    out = {"ValueError": "VALUEERROR", "AttributeError": "CRASH"}.get(res, "EXC " + res)
                elif u"c" not in res:
                    out = "DROPPED"
                else:
                    child = res[u"c"][0]
                    out = "CHILD %s auth=%s" % (show_node(child), node_authority(child))
                    if flavour in IMM_FLAVOURS:
                        judge_immutable_child(ctx, flavour, kind, child, case)
                if flavour in IMM_FLAVOURS and rwcap and out != "VALUEERROR":
                    ctx.violation("entry with non-empty rwcapdata accepted in an immutable (%s) directory" % flavour, case,
                                  "deep-immutable-not-transitive:%s:rwcapdata" % flavour, {"got": out})
                model_kind = {"CHK": "CHK", "SSKRO": "SSKRO"}.get(flavour, "LIT")
                lines.append("unp %s %s %d" % (model_kind, hx(ro), 1 if rwcap else 0))
                impl.append(out)
                cases.append(case)
                ctx.case(("unp", flavour, ro, bool(rwcap)) if ro else None)
                ctx.count("unp:" + out.split()[0])
    ctx.compare("DirectoryNode._unpack_contents of one hand-crafted entry (both immutable flavours, read-only mutable)",
                cases, impl, ctx.model(lines))

    # nested: a literal directory L2 holding mutable caps, inside a literal directory L1, inside (a) a DIR2-CHK
    # directory, (b) a mutable directory listed through its read cap; and every child kind at once in one listing
    def lit_dir(packed):
        return b"URI:DIR2-LIT:" + base32.b2a(packed)
    by = {("D" if d else "F") + t: cs[0].to_string() for (t, d), cs in by_kind(objs).items()}
    leaves = [("FSSK", by["FSSK"]), ("FSSKRO", by["FSSKRO"]), ("FMDMF", b"ro." + by["FMDMF"]), ("DSSK", by["DSSK"]),
              ("DMDMFRO", by["DMDMFRO"]), ("FCHK", by["FCHK"]), ("unknown", b"x-future:abc")]
    l2 = lit_dir(b"".join(pack_entry(u"leaf%d" % i, ro) for i, (_, ro) in enumerate(leaves)))
    l1 = lit_dir(pack_entry(u"l2", l2) + pack_entry(u"w", by["FSSK"]))
    outer = pack_entry(u"l1", l1) + pack_entry(u"l2", b"imm." + l2)

    def walk(dirnode, path, flavour):
        st, res = list_sync(dirnode)
        if st != "ok":
            return
        for name, (child, _md) in sorted(res.items()):
            case = {"nested": path + [name], "flavour": flavour}
            ctx.case(("nested", flavour, tuple(path + [name])))
            kind = dict((u"leaf%d" % i, k) for i, (k, _) in enumerate(leaves)).get(name, "DLIT" if name in (u"l1", u"l2") else "FSSK")
            judge_immutable_child(ctx, flavour + "-nested", kind, child, case)
            if type(child).__name__ == "DirectoryNode":
                walk(child, path + [name], flavour)
    for flavour in ("CHK", "SSKRO"):
        st, res = unpack_with(rc, flavour, outer)
        if st != "ok":
            continue
        for name, (child, _md) in sorted(res.items()):
            if flavour == "CHK":
                judge_immutable_child(ctx, "CHK-nested", "DLIT", child, {"nested": [name], "flavour": flavour})
            if type(child).__name__ == "DirectoryNode":
                walk(child, [name], flavour)     # below a literal directory everything is deep-immutable
    ctx.count("nested-walks")


def show_node(node):
    if type(node).__name__ == "UnknownNode":
        return "U " + show_unknown(node)
    nro = node.is_readonly() if hasattr(node, "is_readonly") else True
    return "K %s %s %s" % (node_kind(node), b(nro) if hasattr(node, "is_readonly") else "-", b(node.is_mutable()))


def monitor_node(ctx, node, rw, ro, deep, case, where):
    """the statement on one node returned by create_from_cap — whatever the NodeMaker built before"""
    if type(node).__name__ == "UnknownNode":
        return
    big = rw or ro
    nro = node.is_readonly() if hasattr(node, "is_readonly") else True
    nmu = node.is_mutable()
    if deep and nmu:
        ctx.violation("create_from_cap(deep_immutable) returned a mutable node", case, where + "node-mutable-in-immutable")
    if big.startswith(b"ro.") and not nro:
        ctx.violation("create_from_cap returned a writeable node for a ro. cap", case, where + "node-writeable-from-ro")
    if big.startswith(b"imm.") and (nmu or not nro):
        ctx.violation("create_from_cap returned a mutable/writeable node for an imm. cap", case, where + "node-mutable-from-imm")


def variants(s):
    """every prefix / slot / deep_immutable combination of one cap string"""
    out = []
    for pre in (b"", b"ro.", b"imm."):
        for slot in ("w", "r", "wr"):
            for deep in (False, True):
                u = pre + s
                out.append((u if "w" in slot else None, u if "r" in slot else None, deep))
    return out


def run_histories(ctx, objs, rng, corpus):
    """create_from_cap as HISTORIES on one real NodeMaker, all returned nodes kept alive (the node cache is a
    WeakValueDictionary): bare cap first then every prefix/slot/context combination, the reverse, and shuffles
    mixing two caps."""
    from allmydata.nodemaker import NodeMaker
    per_kind = 1 if corpus else ctx.budget(4, 60)
    hists = []
    by_kind = {}
    for c in objs:
        by_kind.setdefault(U.tag_of(c), []).append(c)
    for kind, cs in sorted(by_kind.items()):
        for c in cs[:per_kind]:
            s = c.to_string()
            v = variants(s)
            bare = [(s, None, False), (None, s, False), (s, None, True), (None, s, True)]
            shuffled = v[:]
            rng.shuffle(shuffled)
            hists.append(("bare-first", bare + shuffled))
            hists.append(("prefixed-first", [x for x in shuffled if (x[0] or x[1]) != s] + bare + shuffled))
            other = rng.choice(objs).to_string()
            mix = v + variants(other) + bare
            rng.shuffle(mix)
            hists.append(("mixed", bare[:1] + mix))
    lines, impl, cases = [], [], []
    for label, calls in hists:
        nm = NodeMaker(_SB(), None, None, None, _Term(), {"k": 3, "n": 10}, None, None)
        alive, outs = [], []
        case = {"history": [[opt(w), opt(r), d] for (w, r, d) in calls], "label": label}
        for i, (w, r, d) in enumerate(calls):
            node = nm.create_from_cap(w, r, deep_immutable=d)
            alive.append(node)
            monitor_node(ctx, node, w, r, d, dict(case, step=i), "hist-")
            outs.append(show_node(node))
            ctx.case(("hist", label, i, w, r, d))
            ctx.count("hist:" + label)
        lines.append("hist " + " ".join("c:%d:%s:%s" % (d, opt(w), opt(r)) for (w, r, d) in calls))
        impl.append(";".join(outs))
        cases.append(case)
        del alive
    ctx.compare("create_from_cap histories on one NodeMaker (nodes kept alive)", cases, impl, ctx.model(lines))


def _run(ctx, rng, corpus):
    from allmydata import uri
    from allmydata.unknown import UnknownNode, strip_prefix_for_ro
    from allmydata.nodemaker import NodeMaker
    n_caps = 1 if corpus else ctx.budget(60, 2500)
    objs = []
    for (tag, is_dir) in U.ALL_KINDS:
        for _ in range(n_caps):
            objs.append(U.rand_cap(random.Random("C16-corpus-%s-%s" % (tag, is_dir)) if corpus else rng, tag, is_dir))

    if corpus:
        # seed C16-e (derived read caps memoised by read key only): write caps that SHARE the write key but differ in
        # the fingerprint, diminished one after the other in this process — each read/verify cap must carry the
        # fingerprint of the cap it was derived from
        from allmydata import uri as _uri
        wk = bytes(range(100, 116))
        for fp in (bytes(range(32)), bytes(range(32, 64)), b"\xff" * 32):
            for cls in (_uri.WriteableSSKFileURI, _uri.WriteableMDMFFileURI):
                objs.append(cls(wk, fp))
                objs.append(_uri.wrap_dirnode_cap(cls(wk, fp)))
    # --- attenuation of objects
    lines, impl, cases = [], [], []
    for c in objs:
        monitor_att(ctx, c)
        rk, si, chk = tables_for(c)
        lines.append("att %s %s %s %s" % (rk, si, chk, U.describe(c)))
        impl.append(impl_att(c))
        cases.append({"cap": U.describe(c)})
        fd, tag = U.tag_of(c)
        ctx.case(("att", U.describe(c)) if tag != "LIT" else None)
        ctx.count("att:" + fd + tag)
    ctx.compare("flags, storage index, get_readonly, get_verify_cap and their compositions", cases, impl, ctx.model(lines))

    # --- strings × prefixes × contexts through from_string, UnknownNode, create_from_cap
    base_strings = []
    for c in (objs if corpus else objs[::max(1, len(objs) // ctx.budget(400, 12000))]):
        s = c.to_string()
        base_strings.append(s)
        if U.tag_of(c)[1] in U.MDMF_TAGS and (corpus or rng.random() < 0.5):
            base_strings.append(s + b":3:131073")
        if rng.random() < 0.15:
            base_strings.append(s[:rng.randrange(len(s))])
    for _ in range(0 if corpus else ctx.budget(150, 5000)):
        base_strings.append(U.random_string(rng))
    base_strings += [b"x-tahoe-future-test-writeable:abc", b"x-tahoe-future-test-mutable:abc", b"x-tahoe-crazy://foo", b"", b"URI:LIT:"]
    nm = NodeMaker(_SB(), None, None, None, _Term(), {"k": 3, "n": 10}, None, None)

    lines, impl, cases = [], [], []
    for s in base_strings:
        for pre in (b"", b"ro.", b"imm.", b"ro.imm.", b"imm.ro."):
            if pre in (b"ro.imm.", b"imm.ro.") and not corpus and rng.random() < 0.8:
                continue
            u = pre + s
            for deep in (False, True):
                case = {"u": hx(u), "deep": deep}
                c = uri.from_string(u, deep_immutable=deep)
                known = type(c).__name__ != "UnknownURI"
                ro = c.is_readonly() if known else None
                mu = c.is_mutable() if known else None
                if u.startswith(b"ro.") and ro is False:
                    ctx.violation("ro.-prefixed string interpreted as writeable", case, "alleged-ro-ignored-" + "".join(U.tag_of(c)))
                if (u.startswith(b"imm.") or deep) and mu is True:
                    ctx.violation("imm.-prefixed / deep-immutable string interpreted as mutable", case,
                                  "alleged-imm-ignored-" + "".join(U.tag_of(c)))
                if u.startswith(b"imm.") and ro is False:
                    ctx.violation("imm.-prefixed string interpreted as writeable", case, "alleged-imm-writeable-" + "".join(U.tag_of(c)))
                lines.append("fsf %d %s" % (deep, hx(u)))
                impl.append("%s ro=%s mut=%s" % (U.describe(c), b(ro), b(mu)))
                cases.append(case)
                ctx.case(("fsf", deep, u) if any(s.startswith(p) for _, _, p in U.FILE_KINDS + U.DIR_KINDS) else None)
                ctx.count("fsf:" + ("known" if known else "unknown:" + U.describe(c)[2:]))
                # strip_prefix_for_ro
                lines.append("spr %d %s" % (deep, hx(u)))
                impl.append(hx(strip_prefix_for_ro(u, deep)))
                cases.append({"spr": hx(u), "deep": deep})
    ctx.compare("from_string flags under alleged prefixes; strip_prefix_for_ro", cases, impl, ctx.model(lines))

    # --- UnknownNode and create_from_cap on (rw, ro) pairs
    lines, impl, cases = [], [], []
    pool = base_strings
    n_pairs = 0 if corpus else ctx.budget(1500, 60000)

    def pick():
        r = rng.random()
        if r < 0.25:
            return None
        if r < 0.3:
            return b""
        return rng.choice([b"", b"", b"ro.", b"imm.", b"ro.imm."]) + rng.choice(pool)
    pairs = []
    # structured: both slots filled — an rw_uri in a format this client does not know next to a known cap of every
    # kind in the ro slot, unprefixed / ro. / imm.; and the same cap alone in either slot
    per = 1 if corpus else ctx.budget(2, 40)
    for (tag, is_dir), cs in sorted(by_kind(objs).items()):
        for c in cs[:per]:
            s = c.to_string()
            for pre in (b"", b"ro.", b"imm."):
                for rw in (UNKNOWN_RWS if (corpus or rng.random() < 0.5) else [rng.choice(UNKNOWN_RWS)]) + [None]:
                    pairs.append((rw, pre + s))
                pairs.append((pre + s, None))
    for _ in range(n_pairs):
        pairs.append((pick(), pick()))
    ro_ctx = RoSlotContext(rng)
    for (rw, ro) in pairs:
        for deep in (False, True):
            case = {"rw": opt(rw), "ro": opt(ro), "deep": deep}
            monitor_ro_slot(ctx, ro_ctx, rw, ro, deep, case)
            sl = impl_slot(ro_ctx, rw, ro, deep)
            if sl is not None:
                lines.append(sl[0]); impl.append(sl[1]); cases.append(dict(case, op="slot"))
                ctx.count("slot:" + sl[1].split()[0])
                if sl[1].startswith("STORED "):
                    # composition pack -> _unpack_contents (with its rstrip) of a directory of the matching context
                    from common import unhx
                    st_b = unhx(sl[1].split()[1])
                    fl = "CHK" if deep else "SSKRO"
                    st2, res2 = unpack_with(ro_ctx, fl, pack_entry(u"c", st_b))
                    if st2 == "exc":
                        out2 = {"ValueError": "VALUEERROR", "AttributeError": "CRASH"}.get(res2, "EXC " + res2)
                    elif u"c" not in res2:
                        out2 = "DROPPED"
                    else:
                        out2 = "CHILD %s auth=%s" % (show_node(res2[u"c"][0]), node_authority(res2[u"c"][0]))
                    lines.append("unp %s %s 0" % (fl, hx(st_b))); impl.append(out2); cases.append(dict(case, op="slot+unp"))
            n = UnknownNode(rw, ro, deep_immutable=deep)
            # monitor: unknown caps keep / strengthen their prefix
            if n.error is not None and (n.rw_uri is not None or n.ro_uri is not None):
                ctx.violation("UnknownNode with an error is not opaque", case, "unknown-not-opaque")
            if n.ro_uri is not None:
                given = ro or rw
                if not (n.ro_uri.startswith(b"ro.") or n.ro_uri.startswith(b"imm.")):
                    ctx.violation("UnknownNode ro_uri without alleged prefix", case, "unknown-ro-unprefixed")
                if deep and not n.ro_uri.startswith(b"imm."):
                    ctx.violation("deep-immutable UnknownNode ro_uri without imm.", case, "unknown-imm-missing")
                if given.startswith(b"imm.") and n.ro_uri != given:
                    ctx.violation("UnknownNode changed an imm. cap", case, "unknown-imm-changed")
                if U.strip_alleged(n.ro_uri)[1] != U.strip_alleged(given)[1]:
                    ctx.violation("UnknownNode ro_uri is not the given cap", case, "unknown-ro-content")
            if n.rw_uri is not None and (deep or n.rw_uri != rw or not ro):
                ctx.violation("UnknownNode stores a rw_uri it should not", case, "unknown-rw-kept")
            if not ro and rw and n.ro_uri is not None and not (rw.startswith(b"ro.") or rw.startswith(b"imm.")):
                ctx.violation("unprefixed single cap moved into the ro slot", case, "unknown-rw-moved-unprefixed")
            lines.append("un %d %s %s" % (deep, opt(rw), opt(ro)))
            impl.append(show_unknown(n))
            cases.append(case)
            ctx.case(("un", deep, rw, ro) if (rw or ro) else None)
            ctx.count("un:" + U.ERRS[type(n.error).__name__])
            # create_from_cap
            node = nm.create_from_cap(rw, ro, deep_immutable=deep)
            if type(node).__name__ == "UnknownNode":
                out = "U " + show_unknown(node)
            else:
                # CiphertextFileNode (verify-cap node) has is_mutable() but no is_readonly()
                nro = node.is_readonly() if hasattr(node, "is_readonly") else True
                nmu = node.is_mutable()
                big = rw or ro
                if deep and nmu:
                    ctx.violation("create_from_cap(deep_immutable) built a mutable node", case, "node-mutable-in-immutable")
                if big.startswith(b"ro.") and not nro:
                    ctx.violation("create_from_cap built a writeable node from a ro. cap", case, "node-writeable-from-ro")
                if big.startswith(b"imm.") and (nmu or not nro):
                    ctx.violation("create_from_cap built a mutable/writeable node from an imm. cap", case, "node-mutable-from-imm")
                out = "K %s %s %s" % (node_kind(node), b(nro) if hasattr(node, "is_readonly") else "-", b(nmu))
            lines.append("cfc %d %s %s" % (deep, opt(rw), opt(ro)))
            impl.append(out)
            cases.append(dict(case, op="create_from_cap"))
            ctx.case(("cfc", deep, rw, ro) if (rw or ro) else None)
            ctx.count("cfc:" + out.split()[0] + (":" + out.split()[1] if out[0] == "K" else ""))
    ctx.compare("UnknownNode(rw, ro, deep) and create_from_cap(w, r, deep)", cases, impl, ctx.model(lines))
    run_histories(ctx, objs, rng, corpus)
    run_immutable_dirs(ctx, objs, rng, corpus)
    if corpus:
        run_grid(ctx)
    ctx.sample({"cap": U.describe(objs[0]), "att": impl_att(objs[0])})



CORPUS_ONLY = bool(os.environ.get("VERIF_CORPUS_ONLY"))


def run(ctx):
    """First the FIXED CORPUS (independent of VERIF_SEED: one cap of each of the 18 kinds with fixed keys, pushed through
    every family — attenuation, every prefix x context through from_string, every unknown-rw x prefixed-ro pair through
    UnknownNode / create_from_cap / the ro-slot route, bare-first and prefixed-first create_from_cap histories on one
    NodeMaker, the grid scenario).  It contains the minimal input of every seeded change (C16-a: cached bare cap then
    ro./imm. form; C16-b: ro.+mutable read cap with deep_immutable; C16-c: unknown rw_uri next to ro.+write cap).
    Then, unless VERIF_CORPUS_ONLY is set, the same families on seeded random inputs."""
    _run(ctx, random.Random("C16-corpus"), True)
    if not CORPUS_ONLY:
        _run(ctx, ctx.rng, False)

def replay(ctx, obj):
    """re-run one recorded case: a create_from_cap history on one NodeMaker, else the whole run"""
    from common import unhx
    from allmydata.nodemaker import NodeMaker
    case = obj.get("case") or {}
    if "history" not in case:
        return run(ctx)
    calls = [(None if w == "N" else unhx(w), None if r == "N" else unhx(r), bool(d)) for (w, r, d) in case["history"]]
    nm = NodeMaker(_SB(), None, None, None, _Term(), {"k": 3, "n": 10}, None, None)
    alive, outs = [], []
    for i, (w, r, d) in enumerate(calls):
        node = nm.create_from_cap(w, r, deep_immutable=d)
        alive.append(node)
        monitor_node(ctx, node, w, r, d, dict(case, step=i), "hist-")
        outs.append(show_node(node))
        ctx.case(("hist", i, w, r, d))
    line = "hist " + " ".join("c:%d:%s:%s" % (d, opt(w), opt(r)) for (w, r, d) in calls)
    ctx.compare("create_from_cap history (replay)", [case], [";".join(outs)], ctx.model([line]))
