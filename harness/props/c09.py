"""C09 — mutable files read back what one writer wrote (mutable/filenode.py, publish.py, retrieve.py)."""
ID = "C09"
LEAN_PROPS = "Tahoe.Props.C09"
DRIVER = "C09"
GENERATED = ["mutpublish"]
SOURCES = ["src/allmydata/mutable/filenode.py", "src/allmydata/mutable/publish.py",
           "src/allmydata/mutable/retrieve.py", "src/allmydata/mutable/layout.py",
           "src/allmydata/mutable/servermap.py"]
DESIGN_REF = "DESIGN.md §2 C09"
TECHNIQUE = ("Lean 4 theorems over an executable model of the mutable-file content path (whole-file publish, modify, "
             "the MDMF in-place update: _do_update_update start/end segments, the servermap update data -> "
             "_decode_and_decrypt_segments -> Retrieve.decode step, TransformingUploadable.read, Publish.update / "
             "setup_encoding_parameters; the SDMF re-encode update; Retrieve's segment selection, _decode_blocks tail "
             "trimming and _set_segment trimming); differential correspondence of seeded operation histories on real "
             "MutableFileNodes in the in-process grid (SDMF and MDMF, small segment sizes, many-segment files, reused "
             "MutableFileVersion objects, seeded random/fifo/lifo delivery order) and, at function level, of "
             "TransformingUploadable.read, setup_encoding_parameters, _do_update_update, Retrieve._decode_blocks (real "
             "zfec shares, ranged-read setup) and _got_update_results_one_share + _decode_and_decrypt_segments + "
             "Retrieve.decode against the Lean driver; implementation-side monitor against a bytearray; a fixed corpus "
             "(one minimal case per seeded change C09-a..e and per repaired defect) runs first, VERIF_CORPUS_ONLY=1 runs "
             "only that")
LEVEL_TEXT = ("Proved in Lean for all contents, offsets, lengths, k and segment sizes, both formats (16 theorems, none "
              "partial): update_is_splice / update_changes_only_written_bytes (an accepted update is "
              "old[:off]+data+old[off+len:], only the written bytes change, length = max), update_past_eof_sdmf, "
              "update_refused (exactly which updates the code refuses), transforming_read_correct and "
              "updater_and_publisher_agree (TransformingUploadable.read with the updater's and publisher's own start/end "
              "segments yields the segments of the splice), boundary_segments_paired (servermap update data -> the two "
              "boundary segments, start first), decode_blocks_is_stored_segment, read_range_slice / read_to_end, "
              "history_refines_bytes and history_reads_refine (after any history the content is the byte-string fold and "
              "every valid read returns its slice), held_object_refines / held_object_invariant (operations through a reused "
              "MutableFileVersion object = the node-level operations; reads through it return the current bytes or "
              "nothing), publish_stores_data, default_max_segment_size_is_128KiB. The model is "
              "tied to the code by comparing every operation outcome (ok/refusal kind, segment size, length) and every "
              "read of seeded histories, and the segment arithmetic at function level.")
LEVEL_NOTE = ("Lean kernel + standard axioms; the model is a hand transcription tied by correspondence. Correspondence "
              "only (as in the coverage table of Props/C09.lean): every server response ordering (publish/servermap "
              "networking is abstracted; histories run under seeded delivery orders); hash-tree reshaping, FEC, AES and "
              "share layout (grid reads validate the trees and decode real shares); the order of the gathered list in "
              "ServermapUpdater._got_results (many-segment corpus); a version object overtaken by a change made through "
              "another object (monitor only). The three C09 defects found here are "
              "repaired in /repo (b67174d stale node size, 2a6f1c2 SDMF update beyond EOF, 6586d18 second update through "
              "one version object); the model describes the repaired code and the corpus guards each repair.")
RULE = ("seeded histories create + ≤8 (thorough ≤40) operations (overwrite via node or version, modify with six "
        "modifier kinds, update at offsets/lengths around segment boundaries, EOF and power-of-two segment counts, "
        "whole and range reads by download_best_version or MutableFileVersion.read or through a fresh node of a second "
        "client; a family of histories that reuse ONE MutableFileVersion object for several operations, every fourth "
        "with the object overtaken by another one (monitored, not compared with the model)) on a real MutableFileNode, "
        "SDMF and MDMF, k in 1..3, DEFAULT_MUTABLE_MAX_SEGMENT_SIZE lowered to 5..16 bytes (2..4 bytes for a family of "
        "9..35-segment MDMF files whose updates are chosen by their (start_segment, end_segment) pair); function-level "
        "cases for TransformingUploadable.read, setup_encoding_parameters, _do_update_update, _decode_blocks and the "
        "update-data step; a case is one operation of a history (or one crafted function-level input); distinct = "
        "distinct (format, k, segsize, size before, op); non-trivial = the file is non-empty before the operation "
        "(function level: the update touches old data / more than one segment)")
TRUSTED = ["lean/Tahoe/Mutable/Content.lean is a hand transcription of the functions listed in its header; a version is "
           "modelled as (format, segment size, plaintext): stored segment i is content[i*seg:(i+1)*seg]; a fetched block "
           "is represented by the segment it was read from, the decoder by its zero padding (block bytes, FEC, AES, "
           "hashes and salts are abstracted)",
           "lean/Tahoe/Mutable/Handle.lean: a reused MutableFileVersion object is modelled as (pinned version, best version "
           "of its servermap), versions identified by sequence number; update and modify re-pin, overwrite does not; "
           "tied by the pin/held histories (driver tokens p, hu:, ho:, hm:, hr:)",
           "harness/grid.py (in-process grid: real storage servers, real client, seeded delivery order, virtual clock)"]
ASSUMPTIONS = ["a publish that reports success has placed the new version on the shares that later reads use (C47/C11)",
               "one writer, no concurrent operations on the node (C12/C13)",
               "DEFAULT_MUTABLE_MAX_SEGMENT_SIZE is the same for every publish of one file (module constant; the harness "
               "lowers it once per history), so verinfo[3] of an MDMF version equals the publisher's segment size",
               "a zero-length update at offset 0 makes the updater fetch 'segment -1'; with the small segments used "
               "here that read succeeds and is ignored (model: no-op success)",
               "an exception from an operation is a refusal: the statement constrains reads after successful operations "
               "only; refusal classes are proved for the model (update_refused), compared with the code and counted "
               "(MDMF append at an exact segment boundary, any update of an empty file, MDMF offset > size)",
               "a read through a reused version object is a read of one specific version: the monitor accepts any "
               "content the file has had since the object was obtained, or a refusal (KeyError after a publish through "
               "the object)"]

import os
import random

from common import hx

CONFIGS = [(2, 4, 8), (3, 5, 8), (1, 3, 5), (2, 4, 16), (3, 4, 6), (2, 3, 7)]   # (k, n, DEFAULT_MUTABLE_MAX_SEGMENT_SIZE)


# ----------------------------------------------------------------------------- pure helpers

def next_multiple(n, k):
    return ((n + k - 1) // k) * k


def rbytes(rng, n):
    return bytes(rng.randrange(256) for _ in range(n))


def apply_modifier(kind, arg, old):
    if kind == "set":
        return arg
    if kind == "app":
        return old + arg
    if kind == "pre":
        return arg + old
    if kind == "none":
        return None
    if kind == "same":
        return old
    if kind == "cut":
        return old[:arg]
    raise ValueError(kind)


def op_token(op):
    """driver token of an op.  `pin` -> `p`, an operation through the held MutableFileVersion object -> `h` + the
    plain token (model: lean/Tahoe/Mutable/Handle.lean; histories in which the object is overtaken by another
    one are marked `nomodel` and are not sent to the driver at all)."""
    k = op[0]
    if k == "pin":
        return "p"
    if k == "held":
        return "h" + op_token(op[1])
    if k == "create":
        return "c:%s:%s" % (op[1], hx(bytes.fromhex(op[2])))
    if k == "overwrite":
        return "o:%s" % hx(bytes.fromhex(op[1]))
    if k == "modify":
        if op[1] in ("none", "same"):
            return "m:" + op[1]
        if op[1] == "cut":
            return "m:cut:%d" % op[2]
        return "m:%s:%s" % (op[1], hx(bytes.fromhex(op[2])))
    if k == "update":
        return "u:%d:%s" % (op[1], hx(bytes.fromhex(op[2])))
    if k == "read":
        return "r:%d:%s" % (op[1], "n" if op[2] is None else "%d" % op[2])
    raise ValueError(op)


def hist_line(h, skip=()):
    toks = [op_token(o) for i, o in enumerate(h["ops"]) if i not in skip]
    return "hist %d %d " % (h["k"], h["maxseg"]) + " ".join(t for t in toks if t is not None)


# ----------------------------------------------------------------------------- generators

def pick_size(rng, seg):
    r = rng.random()
    if r < 0.06:
        return 0
    if r < 0.55:   # around a segment boundary, favouring power-of-two segment counts
        nseg = rng.choice([1, 1, 2, 2, 3, 4, 4, 5, 7, 8, 8, 9])
        return max(0, nseg * seg + rng.choice([-1, 0, 0, 1, -seg + 1, -2]))
    return rng.randrange(0, 9 * seg)


def pick_offset(rng, seg, size):
    r = rng.random()
    if r < 0.22:
        return size
    if r < 0.30:
        return 0
    if r < 0.40:
        return max(0, size - rng.choice([1, 2, seg, seg - 1, seg + 1]))
    if r < 0.70:
        b = rng.randrange(0, size // seg + 2) * seg + rng.choice([-1, 0, 0, 1])
        return min(max(0, b), size) if rng.random() < 0.9 else max(0, b)
    if r < 0.95:
        return rng.randrange(0, size + 1)
    return size + rng.randrange(1, seg + 3)          # beyond EOF


def pick_len(rng, seg, size, off):
    r = rng.random()
    if r < 0.07:
        return 0
    if r < 0.30:
        return rng.choice([1, 2, seg - 1, seg, seg + 1])
    if r < 0.45:   # end exactly on / next to a segment boundary
        tgt = (off // seg + rng.randrange(1, 4)) * seg + rng.choice([-1, 0, 0, 1])
        return max(0, tgt - off)
    if r < 0.60:   # reach / cross the old end, possibly crossing a power-of-two segment count
        return max(0, size - off + rng.choice([-1, 0, 1, seg, 2 * seg + 1, 4 * seg]))
    return rng.randrange(0, 4 * seg)


def gen_reads(rng, seg, size, ops, p_whole):
    if rng.random() < p_whole:
        ops.append(["read", 0, None, rng.choice(["dbv", "ver", "ver"])])
    n = rng.choice([0, 0, 1, 1, 2])
    for _ in range(n):
        r = rng.random()
        if size and r < 0.85:
            off = rng.choice([rng.randrange(0, size), (rng.randrange(0, size) // seg) * seg])
            mx = size - off
            ln = rng.choice([1, mx, rng.randrange(1, mx + 1), min(mx, seg), min(mx, max(1, seg - off % seg))])
            ops.append(["read", off, rng.choice([ln, ln, None]) if ln == mx else ln, "ver"])
        elif r < 0.93:
            ops.append(["read", rng.randrange(0, size + 3), 0, "ver"])
        else:   # beyond EOF: refusal expected
            ops.append(["read", rng.randrange(0, size + 4), rng.choice([None, size + 1, rng.randrange(1, size + 5)]), "ver"])


def gen_history(rng, maxops):
    k, n, maxseg = rng.choice(CONFIGS)
    seg = next_multiple(maxseg, k)
    fmt = "m" if rng.random() < 0.7 else "s"
    size = pick_size(rng, seg)
    ops = [["create", fmt, rbytes(rng, size).hex()]]
    p_whole = rng.choice([0.9, 0.7, 0.3])
    gen_reads(rng, seg, size, ops, p_whole)
    for _ in range(rng.randrange(1, maxops + 1)):
        r = rng.random()
        if r < 0.62:
            off = pick_offset(rng, seg, size)
            ln = pick_len(rng, seg, size, off)
            ops.append(["update", off, rbytes(rng, ln).hex()])
            ok = size > 0 and (off <= size if fmt == "m" else True) and not (fmt == "m" and off == size and size % seg == 0)
            if ok:
                size = max(size, off + ln)
        elif r < 0.74:
            size = pick_size(rng, seg)
            ops.append(["overwrite", rbytes(rng, size).hex(), rng.choice(["node", "version"])])
        else:
            kind = rng.choice(["set", "app", "app", "pre", "none", "same", "cut"])
            if kind == "set":
                size = pick_size(rng, seg)
                ops.append(["modify", "set", rbytes(rng, size).hex()])
            elif kind in ("app", "pre"):
                ln = rng.choice([0, 1, seg, seg + 1, rng.randrange(0, 3 * seg)])
                size += ln
                ops.append(["modify", kind, rbytes(rng, ln).hex()])
            elif kind == "cut":
                nn = rng.randrange(0, size + 3)
                size = min(size, nn)
                ops.append(["modify", "cut", nn])
            else:
                ops.append(["modify", kind])
        gen_reads(rng, seg, size, ops, p_whole)
    if ops[-1][0] != "read" or ops[-1][2] is not None or ops[-1][1] != 0:
        ops.append(["read", 0, None, "ver"])
    return {"kind": "hist", "k": k, "n": n, "maxseg": maxseg, "sched": rng.randrange(1 << 30),
            "policy": rng.choice(["random", "random", "random", "fifo", "lifo"]), "ops": ops}


SMALL_CONFIGS = [(2, 3, 4), (1, 2, 4), (2, 3, 2), (1, 2, 3), (3, 4, 3)]     # tiny segments: many-segment files stay small


def gen_manyseg_history(rng, maxops):
    """MDMF files of 9 / 12 / 17 / 33 (±) segments and updates chosen by their (start_segment, end_segment) pair —
    all residues mod 8, spanning 1..many segments, starting/ending on and off boundaries, ending before/at/after EOF."""
    k, n, maxseg = rng.choice(SMALL_CONFIGS)
    seg = next_multiple(maxseg, k)
    nseg = rng.choice([9, 12, 17, 17, 33]) + rng.choice([0, 0, 1, 2])
    size = nseg * seg - rng.choice([0, 0, 1, seg - 1])
    ops = [["create", "m", rbytes(rng, size).hex()]]
    for _ in range(rng.randrange(1, maxops + 1)):
        ns = -(-size // seg)
        s_ = rng.randrange(0, ns)
        r = rng.random()
        if r < 0.35:
            e_ = min(ns - 1, s_ + rng.choice([1, 1, 2, 3]))
        elif r < 0.6:   # wrap mod 8 between start and end
            e_ = min(ns - 1, (s_ // 8 + 1) * 8 + rng.choice([0, 0, 1, 7]))
        elif r < 0.75:
            e_ = s_
        else:
            e_ = rng.randrange(s_, ns + 2)
        off = min(size, s_ * seg + rng.choice([0, 1, 1, seg - 1, rng.randrange(0, seg)]))
        end = e_ * seg + rng.choice([0, 1, 1, seg - 1, seg, rng.randrange(0, seg + 1)])
        if rng.random() < 0.15:
            end = size + rng.choice([0, 0, 1, seg + 1])
        ln = max(0, end - off)
        ops.append(["update", off, rbytes(rng, ln).hex()])
        if not (off == size and size % seg == 0):
            size = max(size, off + ln)
        if rng.random() < 0.75:
            ops.append(["read", 0, None, rng.choice(["ver", "ver", "fresh", "dbv"])])
        else:
            o2 = rng.randrange(0, size)
            ops.append(["read", o2, rng.randrange(1, size - o2 + 1), "ver"])
    ops.append(["read", 0, None, "ver"])
    return {"kind": "hist", "k": k, "n": n, "maxseg": maxseg, "sched": rng.randrange(1 << 30),
            "policy": rng.choice(["random", "random", "fifo", "lifo"]), "ops": ops}


def gen_reuse_history(rng, maxops, overtaken=False):
    """Several operations through ONE MutableFileVersion object (update/overwrite/modify/read in any order, offsets
    inside / at / after EOF), read back through a fresh node after each; occasionally a new object is obtained, or a
    change is made through another object (then a new object is obtained before the next reuse — unless
    `overtaken`: the overtaken object keeps being used; those histories are monitored but not compared with the
    model, which has no version objects: what the code refuses there depends on the object's cached servermap)."""
    k, n, maxseg = rng.choice(CONFIGS)
    seg = next_multiple(maxseg, k)
    fmt = "m" if rng.random() < 0.7 else "s"
    size = max(1, pick_size(rng, seg))
    ops = [["create", fmt, rbytes(rng, size).hex()], ["pin"]]

    def upd():
        nonlocal size
        off = pick_offset(rng, seg, size)
        ln = pick_len(rng, seg, size, off)
        ok = size > 0 and (off <= size if fmt == "m" else True) and not (fmt == "m" and off == size and size % seg == 0)
        if ok:
            size = max(size, off + ln)
        return ["update", off, rbytes(rng, ln).hex()]
    for _ in range(rng.randrange(2, maxops + 1)):
        r = rng.random()
        if r < 0.55:
            ops.append(["held", upd()])
        elif r < 0.67:
            size = max(1, pick_size(rng, seg))
            ops.append(["held", ["overwrite", rbytes(rng, size).hex(), "held"]])
        elif r < 0.79:
            kind = rng.choice(["app", "pre", "same", "none", "cut"])
            if kind in ("app", "pre"):
                ln = rng.choice([1, seg, rng.randrange(0, 2 * seg)])
                size += ln
                ops.append(["held", ["modify", kind, rbytes(rng, ln).hex()]])
            elif kind == "cut":
                nn = rng.randrange(1, size + 2)
                size = min(size, nn)
                ops.append(["held", ["modify", "cut", nn]])
            else:
                ops.append(["held", ["modify", kind]])
        elif r < 0.88:
            ops.append(["held", ["read", 0, None, "ver"]] if rng.random() < 0.6 or not size else
                       ["held", ["read", rng.randrange(0, size), 1, "ver"]])
            continue
        elif r < 0.94:   # overtaken by another object of the same client
            if rng.random() < 0.5:
                size = max(1, pick_size(rng, seg))
                ops.append(["overwrite", rbytes(rng, size).hex(), rng.choice(["node", "version"])])
            else:
                ops.append(upd())
            if not overtaken:
                ops.append(["pin"])
        else:
            ops.append(["pin"])
            continue
        if rng.random() < 0.8:
            ops.append(["read", 0, None, rng.choice(["fresh", "fresh", "ver"])])
        elif size:
            off = rng.randrange(0, size)
            ops.append(["read", off, rng.randrange(1, size - off + 1), "fresh"])
    ops.append(["read", 0, None, "fresh"])
    h = {"kind": "hist", "k": k, "n": n, "maxseg": maxseg, "sched": rng.randrange(1 << 30),
         "policy": rng.choice(["random", "random", "fifo", "lifo"]), "ops": ops}
    if overtaken:
        h["nomodel"] = True
    return h


# fixed corpus: past failures and boundary shapes, run first
def _h(k, n, maxseg, ops, sched=1, policy="random", nomodel=False):
    h = {"kind": "hist", "k": k, "n": n, "maxseg": maxseg, "sched": sched, "policy": policy, "ops": ops}
    if nomodel:
        h["nomodel"] = True       # monitored, not compared with the model (an overtaken version object is reused)
    return h


A = bytes(range(65, 91))
B = bytes((37 * i + 11) % 251 for i in range(200))     # every 4-byte window distinct
CORPUS = [
    # --- one minimal history per known mechanism (seeded changes C09-a/b/c, the two repaired defects); 26-byte MDMF
    #     file, 8-byte segments: segments [0,8) [8,16) [16,24) and the 2-byte tail [24,26)
    # C09-a: the write ends exactly on a segment boundary before EOF (publisher must not push the next segment)
    _h(2, 4, 8, [["create", "m", A.hex()], ["update", 4, b"wxyz".hex()], ["read", 0, None, "ver"]]),
    _h(2, 4, 8, [["create", "m", A.hex()], ["update", 9, (b"w" * 15).hex()], ["read", 0, None, "ver"]], policy="fifo"),
    # C09-b: the write starts before the tail segment and ends inside it, short of EOF (end segment must be fetched)
    _h(2, 4, 8, [["create", "m", A.hex()], ["update", 20, b"vwxyz".hex()], ["read", 0, None, "ver"]]),
    _h(2, 4, 8, [["create", "m", (A + A[:5]).hex()], ["update", 3, (b"v" * 24).hex()], ["read", 0, None, "dbv"]], policy="lifo"),
    # C09-d: a write at offset 0 that ends inside the last segment, short of EOF (must not become a plain publish)
    _h(2, 4, 8, [["create", "m", A.hex()], ["update", 0, (b"d" * 25).hex()], ["read", 0, None, "ver"]]),
    _h(2, 4, 8, [["create", "m", A[:7].hex()], ["update", 0, b"ddd".hex()], ["read", 0, None, "fresh"]], policy="lifo"),
    # C09-e: which fetched boundary segment is `start` and which is `end` (ServermapUpdater._got_results /
    # _got_update_results_one_share): many-segment MDMF files (4-byte segments, 22 and 35 segments), writes that start and
    # end off a segment boundary before EOF, (start_segment, end_segment) pairs over all residues mod 8
] + [
    _h(2, 3, 4, [["create", "m", B[:4 * 21 + 2].hex()], ["update", 4 * s_ + 1, (b"e" * (4 * e_ + 2 - (4 * s_ + 1))).hex()],
                 ["read", 0, None, how_]], policy=pol_)
    for (s_, e_, how_, pol_) in [(7, 8, "ver", "random"), (5, 8, "fresh", "fifo"), (1, 8, "ver", "lifo"), (6, 9, "dbv", "random"),
                                 (15, 16, "fresh", "random"), (8, 15, "ver", "fifo"), (16, 17, "ver", "random"),
                                 (0, 20, "fresh", "lifo"), (3, 4, "ver", "random")]
] + [
    # 35 segments; several writes in one history: on/off boundaries, ending before / at / after EOF, 2..many segments
    _h(1, 2, 4, [["create", "m", B[:4 * 34 + 3].hex()], ["update", 4 * 23 + 3, (b"f" * 7).hex()], ["read", 0, None, "ver"],
                 ["update", 4 * 31, (b"g" * 6).hex()], ["read", 4 * 30, 14, "ver"], ["update", 4 * 7 + 2, (b"h" * (4 * 25)).hex()],
                 ["read", 0, None, "fresh"], ["update", 4 * 15 + 1, (b"i" * (4 * 19 + 2)).hex()], ["read", 0, None, "ver"],
                 ["update", 4 * 31 + 1, (b"j" * 30).hex()], ["read", 0, None, "fresh"]]),
    _h(2, 3, 2, [["create", "m", B[:2 * 33].hex()], ["update", 2 * 15 + 1, b"kk".hex()], ["read", 0, None, "ver"],
                 ["update", 2 * 23 + 1, (b"l" * 18).hex()], ["read", 0, None, "ver"], ["update", 2 * 8, (b"m" * 15).hex()],
                 ["read", 0, None, "fresh"], ["update", 2 * 31 + 1, b"nn".hex()], ["read", 0, None, "ver"]], policy="fifo"),
] + [
    # C09-c: ranged reads that end in a non-final segment beyond the tail length / exactly on a segment boundary
    _h(2, 4, 8, [["create", "m", A.hex()], ["read", 0, 5, "ver"], ["read", 1, 7, "ver"], ["read", 10, 12, "ver"],
                 ["read", 6, 1, "ver"], ["read", 0, None, "ver"]]),
    _h(3, 5, 8, [["create", "m", (A * 2)[:40].hex()], ["read", 4, 23, "ver"], ["read", 30, 6, "ver"]]),
    # repaired 6586d18: several operations through ONE MutableFileVersion object (`pin` = get_best_mutable_version();
    # `held` = through that object), read back through a fresh node of a second client after each
    _h(2, 4, 8, [["create", "m", A.hex()], ["pin"], ["held", ["update", 3, b"xyz".hex()]], ["read", 0, None, "fresh"],
                 ["held", ["update", 10, b"0123".hex()]], ["read", 0, None, "fresh"]]),
    _h(2, 4, 8, [["create", "m", A.hex()], ["pin"], ["held", ["update", 26, b"APPEND".hex()]], ["read", 0, None, "fresh"],
                 ["held", ["update", 32, (b"more" * 4).hex()]], ["read", 0, None, "fresh"],
                 ["held", ["update", 5, b"in".hex()]], ["read", 2, 9, "fresh"], ["held", ["update", 60, b"past".hex()]],
                 ["held", ["update", 47, b"z".hex()]], ["read", 0, None, "fresh"]], policy="fifo"),
    _h(2, 4, 8, [["create", "m", A.hex()], ["pin"], ["held", ["update", 7, b"uu".hex()]], ["held", ["overwrite", (A[:13] * 3).hex(), "held"]],
                 ["read", 0, None, "fresh"], ["held", ["update", 39, b"tail".hex()]], ["read", 0, None, "fresh"],
                 ["held", ["modify", "app", b"+mod".hex()]], ["held", ["update", 1, b"q".hex()]], ["read", 0, None, "fresh"],
                 ["held", ["overwrite", b"short".hex(), "held"]], ["held", ["update", 2, b"ZZZZZZZZZ".hex()]],
                 ["read", 0, None, "fresh"]]),
    _h(2, 4, 8, [["create", "s", A.hex()], ["pin"], ["held", ["update", 3, b"xyz".hex()]], ["read", 0, None, "fresh"],
                 ["held", ["update", 26, b"APPEND".hex()]], ["held", ["update", 40, b"gap".hex()]], ["read", 0, None, "fresh"],
                 ["held", ["overwrite", A[:9].hex(), "held"]], ["held", ["update", 9, b"!".hex()]],
                 ["held", ["modify", "pre", b">".hex()]], ["held", ["update", 0, b"<".hex()]], ["read", 0, None, "fresh"]]),
    # read -> update -> read -> update through the object (a pinned version may show an older content or refuse)
    _h(3, 5, 8, [["create", "m", (A * 2)[:31].hex()], ["pin"], ["held", ["read", 0, None, "ver"]],
                 ["held", ["update", 18, (b"n" * 9).hex()]], ["held", ["read", 0, None, "ver"]], ["read", 0, None, "fresh"],
                 ["held", ["update", 27, (b"m" * 12).hex()]], ["held", ["read", 20, 5, "ver"]], ["read", 0, None, "fresh"]]),
    # the object is overtaken by a change made through the node / another object, then used again
    _h(2, 4, 8, [["create", "m", A.hex()], ["pin"], ["overwrite", (A[:20] * 2).hex(), "node"], ["held", ["read", 0, None, "ver"]],
                 ["held", ["update", 3, b"xyz".hex()]], ["held", ["update", 4, b"abc".hex()]], ["read", 0, None, "fresh"],
                 ["update", 0, b"other".hex()], ["held", ["overwrite", A.hex(), "held"]], ["held", ["modify", "app", b"!".hex()]],
                 ["held", ["update", 8, b"12345678".hex()]], ["read", 0, None, "fresh"]], nomodel=True),
    # … a refused attempt through the overtaken object, then an append at an exact segment boundary through it (accepted
    # here, although a fresh object refuses it: the object's servermap still holds the boundary segments of the attempt)
    _h(2, 4, 8, [["create", "m", (A + A[:6]).hex()], ["pin"], ["update", 16, ""], ["read", 0, None, "fresh"],
                 ["held", ["update", 23, b"ab".hex()]], ["read", 0, None, "fresh"], ["held", ["update", 32, (b"t" * 29).hex()]],
                 ["read", 26, 5, "fresh"], ["held", ["update", 7, (b"s" * 26).hex()]], ["read", 0, None, "fresh"]], nomodel=True),
    # repaired b67174d (stale node size): an update that extends the file followed by an update inside it (no download in between)
    _h(2, 4, 8, [["create", "m", A[:10].hex()], ["update", 10, (b"x" * 20).hex()], ["update", 12, b"Y".hex()],
                 ["read", 0, None, "ver"]]),
    # stale node size after modify
    _h(2, 4, 8, [["create", "m", A[:10].hex()], ["modify", "set", (A * 3).hex()], ["update", 12, b"Y".hex()],
                 ["read", 0, None, "ver"]]),
    _h(2, 4, 8, [["create", "m", A.hex()], ["update", 20, b"0123456789".hex()], ["update", 8, (b"z" * 8).hex()],
                 ["read", 0, None, "dbv"], ["update", 16, (b"z" * 9).hex()], ["read", 0, None, "ver"]]),
    # repaired 2a6f1c2: SDMF update beyond EOF
    _h(2, 4, 8, [["create", "s", A[:10].hex()], ["update", 15, b"YY".hex()], ["read", 0, None, "ver"],
                 ["read", 15, 2, "ver"]]),
    # MDMF beyond EOF (refused), append at exact boundary (refused), empty files (refused)
    _h(2, 4, 8, [["create", "m", A[:10].hex()], ["update", 15, b"YY".hex()], ["read", 0, None, "ver"],
                 ["update", 10, (b"q" * 6).hex()], ["read", 0, None, "ver"], ["update", 16, b"r".hex()],
                 ["read", 0, None, "ver"]]),
    _h(2, 4, 8, [["create", "m", ""], ["update", 0, b"abc".hex()], ["read", 0, None, "ver"], ["overwrite", A.hex(), "node"],
                 ["update", 0, ""], ["update", 8, ""], ["update", 26, ""], ["update", 5, ""], ["read", 0, None, "dbv"]]),
    _h(2, 4, 8, [["create", "s", ""], ["update", 0, b"abc".hex()], ["read", 0, None, "ver"], ["modify", "app", A.hex()],
                 ["update", 26, b"tail".hex()], ["read", 3, 20, "ver"], ["read", 0, None, "dbv"]]),
    # power-of-two crossing by append, replace inside the last segment, multi-segment replace
    _h(3, 5, 8, [["create", "m", (A * 2)[:31].hex()], ["update", 31, (b"a" * 30).hex()], ["read", 0, None, "ver"],
                 ["update", 55, b"replaced".hex()], ["read", 50, 11, "ver"], ["update", 18, (b"n" * 19).hex()],
                 ["read", 0, None, "ver"], ["read", 9, 9, "ver"], ["read", 17, 20, "ver"]]),
    _h(1, 3, 5, [["create", "m", A[:20].hex()], ["update", 19, b"12".hex()], ["update", 4, b"ab".hex()],
                 ["update", 5, (b"c" * 5).hex()], ["read", 0, None, "ver"], ["modify", "cut", 7], ["update", 7, (b"d" * 14).hex()],
                 ["read", 0, None, "ver"], ["read", 6, 0, "ver"], ["read", 30, None, "ver"], ["read", 2, 40, "ver"]]),
]


# function-level corpus (same mechanisms): Retrieve._decode_blocks for a ranged read whose last requested segment is
# not the file's tail (C09-c); setup_encoding_parameters for a write ending on a segment boundary before EOF (C09-a);
# _do_update_update for a write from an earlier segment into the tail segment short of EOF (C09-b)
DEC_CORPUS = [
    {"kind": "dec", "k": 2, "n": 4, "seg": 8, "content": A.hex(), "off": 0, "size": 5, "segnum": 0, "pick": 1},
    {"kind": "dec", "k": 3, "n": 5, "seg": 9, "content": (A * 2)[:40].hex(), "off": 4, "size": 23, "segnum": 2, "pick": 2},
    {"kind": "dec", "k": 2, "n": 3, "seg": 8, "content": A.hex(), "off": 20, "size": 6, "segnum": 3, "pick": 3},
]
ENC_CORPUS = [
    {"kind": "enc", "k": 2, "maxseg": 8, "fmt": "m", "dl": 26, "off": 4, "up": 8},
    {"kind": "enc", "k": 2, "maxseg": 8, "fmt": "m", "dl": 26, "off": 9, "up": 24},
    {"kind": "enc", "k": 3, "maxseg": 8, "fmt": "m", "dl": 40, "off": 0, "up": 40},
    {"kind": "enc", "k": 2, "maxseg": 8, "fmt": "s", "dl": 10, "off": 0, "up": 10},
]
RNG_CORPUS = [
    {"kind": "rng", "seg": 8, "size": 26, "off": 20, "len": 5},
    {"kind": "rng", "seg": 8, "size": 31, "off": 3, "len": 24},
    {"kind": "rng", "seg": 8, "size": 26, "off": 4, "len": 4},
    {"kind": "rng", "seg": 8, "size": 26, "off": 0, "len": 0},
]
TU_CORPUS = [
    # old = A (26 bytes), seg 8: write [4,8) (one read), write [20,25) (two reads, `_end` = the tail segment)
    {"kind": "tu", "seg": 8, "off": 4, "new": b"wxyz".hex(), "start": A[:8].hex(), "end": A[:8].hex(), "lens": [8],
     "old": A.hex()},
    {"kind": "tu", "seg": 8, "off": 20, "new": b"vwxyz".hex(), "start": A[16:24].hex(), "end": A[24:26].hex(),
     "lens": [8, 2], "old": A.hex()},
]


# ----------------------------------------------------------------------------- real code: histories on the grid

_KEYPAIR = []


def keypair():
    if not _KEYPAIR:
        from allmydata.crypto import rsa
        priv, pub = rsa.create_signing_keypair(2048)
        _KEYPAIR.append((pub, priv))
    return _KEYPAIR[0]


def exc_name(e):
    return {"ZeroDivisionError": "zerodiv", "AssertionError": "assert", "IndexError": "index"}.get(type(e).__name__, type(e).__name__)


def classify(h, idx, fmt, ref_before, last_refresh_size_changes):
    """signature of a wrong/failed read after the successful mutator ops[idx] (a predicate on the history)."""
    op = h["ops"][idx]
    f = "mdmf" if fmt == "m" else "sdmf"
    if op[0] == "held":
        # operations through ONE MutableFileVersion object since it was obtained (`pin`)
        j = idx
        while j > 0 and h["ops"][j][0] != "pin":
            j -= 1
        chain = [o[1][0] for o in h["ops"][j:idx + 1] if o[0] == "held"]
        return "reused-version-object:%s:%s" % (f, ">".join(chain[-4:]))
    if op[0] == "update":
        if op[1] > len(ref_before):
            return "%s-update-offset-beyond-eof" % f
        if fmt == "m" and last_refresh_size_changes:
            # the size changed through modify()/update() since the node last learned it (create, node.overwrite,
            # download_best_version): Publish.update trusts node.get_size()
            return "mdmf-update-after-unrefreshed-size-change"
        return "%s-update-within-file" % f
    return "%s-%s" % (f, op[0])


def run_history(ctx, h, count=True):
    """Execute one history on a fresh grid; returns the canonical output string (one field per op).
    Evaluates the property statement against a bytearray on the way (monitor)."""
    import grid
    from allmydata.interfaces import SDMF_VERSION, MDMF_VERSION
    from allmydata.mutable.publish import MutableData
    import allmydata.mutable.publish as publish
    from allmydata.util.consumer import MemoryConsumer

    outs = []
    skip = set()     # indices of ops that are not sent to the model
    saved = publish.DEFAULT_MUTABLE_MAX_SEGMENT_SIZE
    publish.DEFAULT_MUTABLE_MAX_SEGMENT_SIZE = h["maxseg"]    # configuration, not logic
    seg = next_multiple(h["maxseg"], h["k"])
    try:
        with grid.Runtime(seed=h["sched"], policy=h["policy"]) as rt:
            nclients = 2 if any((o[1] if o[0] == "held" else o)[0] == "read" and (o[1] if o[0] == "held" else o)[3] == "fresh"
                                for o in h["ops"]) else 1
            g = grid.Grid(grid.fresh_dir("c09"), rt, num_servers=h["n"], num_clients=nclients, k=h["k"], happy=1, n=h["n"])
            try:
                c = g.clients[0]
                node = None
                fmt = None
                ref = None              # bytearray reference (None = no file)
                free = set()            # offsets whose value the statement leaves open (gap of a write beyond EOF)
                last_mut = None         # index of the last successful mutator
                ref_before = b""
                unrefreshed = False     # size changed via modify/update since the node last recorded its size
                unref_at_last = False
                held_mv = None          # the reused MutableFileVersion object (`pin`)
                held_stale = False      # the file was changed through another object since held_mv last published/was obtained
                since_pin = []          # contents the file has had since the pin (what a pinned version may legitimately show)

                class Broken(BaseException):
                    pass

                def violation(what, case, sig, detail):
                    if count:
                        ctx.count("violation-class:" + sig)
                    ctx.violation(what, case, sig, detail)
                    raise Broken()     # what follows in this history is a consequence of the first violation

                def check_read(i, got, off, size):
                    """`got` was returned by a read of [off, off+size) (size None = to the end) after op last_mut."""
                    nonlocal free
                    want_all = bytes(ref)
                    end = len(want_all) if size is None else off + size
                    want = want_all[off:end]
                    okay = len(got) == len(want) and all(got[j] == want[j] or (off + j) in free for j in range(len(got)))
                    if not okay:
                        sig = classify(h, last_mut, fmt, ref_before, unref_at_last) if last_mut is not None else "create"
                        violation("read after a successful operation differs from the byte-string reference",
                                      dict(h, ops=h["ops"][:i + 1]), sig + "-wrong-bytes",
                                      {"op": h["ops"][last_mut], "read": [off, size], "got": got.hex(), "want": want.hex()})
                        return
                    for j in range(len(got)):          # gap bytes are now observed: they must stay intact
                        if (off + j) in free:
                            ref[off + j] = got[j]
                            free.discard(off + j)

                try:
                    for i, op in enumerate(h["ops"]):
                        held = op[0] == "held"
                        if held:
                            op = op[1]
                        kind = op[0]
                        if kind == "pin" or (held and held_mv is None):
                            held_mv = rt.wait(node.get_best_mutable_version())
                            held_stale = False
                            since_pin = [bytes(ref)]
                            if kind == "pin":
                                continue
                        size_before = len(ref) if ref is not None else 0
                        if count:
                            ctx.count("op:" + ("held-" if held else "") + kind + (":" + (fmt or op[1]) if kind != "read" else ""))
                            ctx.case(("H", fmt or op[1], h["k"], seg, size_before, repr(op[:3])) if size_before else None)
                        if kind == "read":
                            off, size, how = op[1], op[2], op[3]
                            if held:
                                # a read through the reused object: a MutableFileVersion is one specific version, so it
                                # may show any content the file has had since the object was obtained, or refuse
                                try:
                                    mc = MemoryConsumer()
                                    rt.wait(held_mv.read(mc, off, size))
                                    got = b"".join(mc.chunks)
                                except Exception as e:
                                    outs.append("err:" + {"KeyError": "key"}.get(exc_name(e), exc_name(e)))
                                    if count:
                                        ctx.count("held-read:refused:" + exc_name(e))
                                    continue
                                outs.append(hx(got))
                                okc = [x for x in since_pin + [bytes(ref)]
                                       if got == x[off:(len(x) if size is None else off + size)]]
                                if count:
                                    ctx.count("held-read:" + ("current" if got == bytes(ref)[off:(len(ref) if size is None else off + size)]
                                                              else "pinned-version" if okc else "other"))
                                if not okc and not free:
                                    violation("read through a reused version object returns bytes the file never had",
                                              dict(h, ops=h["ops"][:i + 1]),
                                              classify(h, i, fmt, ref_before, unref_at_last) + "-held-read-wrong-bytes",
                                              {"read": [off, size], "got": got.hex(), "current": bytes(ref).hex()})
                                continue
                            try:
                                if how == "fresh":
                                    n2 = g.clients[1].create_node_from_uri(node.get_uri())
                                    v = rt.wait(n2.get_best_readable_version())
                                    mc = MemoryConsumer()
                                    rt.wait(v.read(mc, off, size))
                                    got = b"".join(mc.chunks)
                                    del n2, v
                                elif how == "dbv":
                                    got = rt.wait(node.download_best_version())
                                    unrefreshed = False     # _record_size
                                else:
                                    v = rt.wait(node.get_best_readable_version())
                                    mc = MemoryConsumer()
                                    rt.wait(v.read(mc, off, size))
                                    got = b"".join(mc.chunks)
                            except Exception as e:
                                outs.append("err:" + exc_name(e))
                                n = len(ref)
                                valid = (size == 0) or (off < n and (size is None or off + size <= n)) or (size is None and off == n)
                                if valid:
                                    sig = classify(h, last_mut, fmt, ref_before, unref_at_last) if last_mut is not None else "create"
                                    violation("read of a valid range after a successful operation fails",
                                                  dict(h, ops=h["ops"][:i + 1]), sig + "-unreadable",
                                                  {"op": h["ops"][last_mut] if last_mut is not None else None,
                                                   "read": [off, size], "exc": "%s: %s" % (type(e).__name__, str(e)[:200])})
                                if count:
                                    ctx.count("read:refused" if not valid else "read:failed")
                                continue
                            outs.append(hx(got))
                            n = len(ref)
                            if (size == 0) or (off <= n and (size is None or off + size <= n)):
                                check_read(i, got, off, size)
                            if count:
                                ctx.count("read:whole" if (off == 0 and size is None) else "read:range")
                            continue
                        # ---- mutators
                        try:
                            new_ref = None
                            new_free = set()
                            if kind == "create":
                                fmt = op[1]
                                data = bytes.fromhex(op[2])
                                node = rt.wait(c.create_mutable_file(
                                    MutableData(data), version=MDMF_VERSION if fmt == "m" else SDMF_VERSION,
                                    unique_keypair=keypair()))
                                new_ref = bytearray(data)
                                refreshed = True
                            elif kind == "overwrite":
                                data = bytes.fromhex(op[1])
                                if held:
                                    rt.wait(held_mv.overwrite(MutableData(data)))
                                    refreshed = False
                                elif op[2] == "node":
                                    rt.wait(node.overwrite(MutableData(data)))
                                    refreshed = True
                                else:
                                    mv = rt.wait(node.get_best_mutable_version())
                                    rt.wait(mv.overwrite(MutableData(data)))
                                    refreshed = False
                                new_ref = bytearray(data)
                            elif kind == "modify":
                                arg = op[2] if op[1] == "cut" else (bytes.fromhex(op[2]) if len(op) > 2 else None)
                                seen = []

                                def modifier(old, servermap, first_time, _k=op[1], _a=arg):
                                    seen.append(old)
                                    return apply_modifier(_k, _a, old)
                                rt.wait((held_mv if held else node).modify(modifier))
                                if seen:
                                    check_read(i, seen[-1], 0, None)     # the old contents handed to the modifier are a read
                                r = apply_modifier(op[1], arg, bytes(ref))
                                new_ref = bytearray(ref if r is None else r)
                                new_free = set(free) if (r is None or r == bytes(ref)) else set()
                                refreshed = False
                            elif kind == "update":
                                off, data = op[1], bytes.fromhex(op[2])
                                mv = held_mv if held else rt.wait(node.get_best_mutable_version())
                                rt.wait(mv.update(MutableData(data), off))
                                new_ref = bytearray(ref)
                                new_free = set(free)
                                if off > len(new_ref):               # the statement does not say what the gap holds
                                    new_free |= set(range(len(new_ref), off))
                                    new_ref.extend(b"\x00" * (off - len(new_ref)))
                                new_ref[off:off + len(data)] = data
                                new_free -= set(range(off, off + len(data)))
                                refreshed = False
                            else:
                                raise ValueError("unknown op %r" % (op,))
                        except Exception as e:
                            if isinstance(e, (ValueError, KeyError, TypeError)) and kind not in ("update", "modify", "overwrite", "create"):
                                raise
                            if held and held_stale and exc_name(e) in ("UncoordinatedWriteError", "index", "assert", "NotEnoughServersError"):
                                # the object's servermap predates a change made through another object: the code
                                # notices (refusal); the model has no version objects, so this op is not sent to it
                                skip.add(i)
                                if count:
                                    ctx.count("held-stale-refused:%s:%s:%s" % (fmt, kind, exc_name(e)))
                                continue
                            outs.append("err:" + exc_name(e))
                            if count:
                                ctx.count("refused:%s:%s:%s" % (fmt, kind, exc_name(e)))
                            continue
                        # success
                        ref_before = bytes(ref) if ref is not None else b""
                        unref_at_last = unrefreshed
                        if refreshed or len(new_ref) == 0:
                            unrefreshed = False       # a zero cached size is re-learned from every servermap update
                        elif len(new_ref) != len(ref_before):
                            unrefreshed = True
                        ref, free, last_mut = new_ref, new_free, i
                        since_pin.append(bytes(ref))
                        held_stale = (held_mv is not None) and not held
                        try:
                            v = rt.wait(node.get_best_readable_version())
                            outs.append("ok:%d:%d" % (v._version[3], v._version[4]))
                            if v._version[4] != len(ref):
                                # the recorded length is not what the statement speaks of; a read is: do one now
                                sig = classify(h, i, fmt, ref_before, unref_at_last)
                                case = dict(h, ops=h["ops"][:i + 1] + [["read", 0, None, "ver"]])
                                try:
                                    mc = MemoryConsumer()
                                    rt.wait(v.read(mc))
                                    got = b"".join(mc.chunks)
                                except Exception as e2:
                                    violation("read of the whole file after a successful operation fails", case,
                                              sig + "-unreadable",
                                              {"op": op, "exc": "%s: %s" % (type(e2).__name__, str(e2)[:200]),
                                               "recorded_length": v._version[4], "want_length": len(ref)})
                                check_read(i, got, 0, None)
                        except Exception as e:
                            outs.append("ok:?:" + exc_name(e))
                except Broken:
                    outs.append("VIOLATION")
            finally:
                g.close()
    finally:
        publish.DEFAULT_MUTABLE_MAX_SEGMENT_SIZE = saved
    h["_skip"] = sorted(skip)
    return ";".join(outs)


# ----------------------------------------------------------------------------- function level

def tu_case(rng):
    """A TransformingUploadable.read case: either as the updater builds it (from an old content) or arbitrary."""
    seg = rng.choice([1, 2, 3, 5, 8, 9, 16])
    if rng.random() < 0.75:
        size = rng.choice([rng.randrange(1, 6 * seg + 1), rng.randrange(1, 5) * seg])
        old = rbytes(rng, size)
        off = pick_offset(rng, seg, size)
        off = min(off, size)
        ln = pick_len(rng, seg, size, off)
        new = rbytes(rng, ln)
        s = off // seg
        e = ((off + ln - 1) // seg) if off + ln < size else s
        start = old[s * seg:(s + 1) * seg]
        end = old[e * seg:(e + 1) * seg] if e >= 0 else b""
        dl = max(size, off + ln)
        nseg = -(-dl // seg)
        tail = dl % seg or seg
        endp = nseg - 1
        if off + ln != dl:
            endp = (off + ln) // seg - (1 if (off + ln) % seg == 0 else 0)
        lens = [(tail if j + 1 == nseg else seg) for j in range(s, endp + 1)]
        return {"kind": "tu", "seg": seg, "off": off, "new": new.hex(), "start": start.hex(), "end": end.hex(),
                "lens": lens, "old": old.hex()}
    off = rng.randrange(0, 5 * seg)
    return {"kind": "tu", "seg": seg, "off": off, "new": rbytes(rng, rng.randrange(0, 3 * seg)).hex(),
            "start": rbytes(rng, rng.randrange(0, seg + 2)).hex(), "end": rbytes(rng, rng.randrange(0, seg + 2)).hex(),
            "lens": [rng.randrange(0, seg + 3) for _ in range(rng.randrange(1, 6))], "old": None}


def tu_line(c):
    return "tu %d %d %s %s %s %s" % (c["seg"], c["off"], hx(bytes.fromhex(c["new"])), hx(bytes.fromhex(c["start"])),
                                     hx(bytes.fromhex(c["end"])), ",".join("%d" % x for x in c["lens"]) or "-")


def tu_impl(ctx, c):
    from allmydata.mutable.publish import TransformingUploadable, MutableData
    new = bytes.fromhex(c["new"])
    tu = TransformingUploadable(MutableData(new), c["off"], c["seg"], bytes.fromhex(c["start"]), bytes.fromhex(c["end"]))
    outs = []
    try:
        for l in c["lens"]:
            outs.append(tu.read(l))
    except Exception as e:
        return "EXC:" + type(e).__name__
    if c["old"] is not None:
        # monitor: the reads are the segments start_segment … of old[:off] + new + old[off+len:]
        old = bytes.fromhex(c["old"])
        spl = old[:c["off"]] + new + old[c["off"] + len(new):]
        base = (c["off"] // c["seg"]) * c["seg"]
        want, p = [], base
        for l in c["lens"]:
            want.append(spl[p:p + l])
            p += l
        if outs != want:
            ctx.violation("TransformingUploadable.read does not return the segments of old[:off]+new+old[off+len:]",
                          c, "transforming-uploadable-read", {"got": [x.hex() for x in outs], "want": [x.hex() for x in want]})
        ctx.case(("TU", c["seg"], c["off"], len(new), len(old)) if (c["off"] % c["seg"] or c["off"] + len(new) < len(old)) else None)
    else:
        ctx.case(None)
    ctx.count("tu:" + ("updater-shaped" if c["old"] is not None else "arbitrary"))
    return ",".join(hx(x) for x in outs)


def enc_impl(c):
    """Publish.setup_encoding_parameters on a bare Publish object."""
    from allmydata.mutable.publish import Publish
    from allmydata.interfaces import SDMF_VERSION, MDMF_VERSION
    import allmydata.mutable.publish as publish

    class D:
        def get_size(self):
            return c["up"]
    saved = publish.DEFAULT_MUTABLE_MAX_SEGMENT_SIZE
    publish.DEFAULT_MUTABLE_MAX_SEGMENT_SIZE = c["maxseg"]
    try:
        p = Publish.__new__(Publish)
        p._log_number = None
        p._version = MDMF_VERSION if c["fmt"] == "m" else SDMF_VERSION
        p.datalength = c["dl"]
        p.required_shares = c["k"]
        p.total_shares = c["k"] + 1
        p.data = D()
        try:
            p.setup_encoding_parameters(offset=c["off"])
        except ZeroDivisionError:
            # datalength 0 on SDMF: segment_size 0; `end // segment_size` is only reached when up != dl
            return "EXC:zerodiv"
        if p.segment_size == 0:
            return "0 0 0 0 -1"
        return "%d %d %d %d %d" % (p.segment_size, p.num_segments, p.tail_segment_size, p.starting_segment, p.end_segment)
    finally:
        publish.DEFAULT_MUTABLE_MAX_SEGMENT_SIZE = saved


def rng_impl(c):
    """MutableFileVersion._do_update_update on a bare version object (servermap update stubbed)."""
    from allmydata.mutable.filenode import MutableFileVersion
    from allmydata.mutable.publish import MutableData
    mv = MutableFileVersion.__new__(MutableFileVersion)
    mv._version = (1, b"r", b"", c["seg"], c["size"], 1, 2, b"", ())
    mv.get_size = lambda: c["size"]
    mv.is_mutable = lambda: True
    mv._update_servermap = lambda mode=None, update_range=None: update_range
    try:
        r = mv._do_update_update(MutableData(b"x" * c["len"]), c["off"])
    except AssertionError:
        return "EXC:assert"
    return "%d %d" % r


def dec_case(rng):
    """One segment of a file encoded as the publisher does, decoded by Retrieve._decode_blocks set up for a
    ranged read (so that `_last_segment` and the file's last segment differ in most cases)."""
    k = rng.choice([1, 2, 3, 4])
    n = k + rng.randrange(0, 3)
    seg = next_multiple(rng.choice([1, 4, 5, 6, 8, 9, 16]), k)
    nseg = rng.choice([1, 2, 2, 3, 4, 5])
    dl = max(1, nseg * seg - rng.choice([0, 0, 1, 2, seg - 1, rng.randrange(0, seg)]))
    nseg = -(-dl // seg)
    off = rng.randrange(0, dl)
    size = rng.choice([1, dl - off, rng.randrange(1, dl - off + 1)])
    first, last = off // seg, (off + size - 1) // seg
    segnum = rng.choice([first, last, rng.randrange(first, last + 1)])
    return {"kind": "dec", "k": k, "n": n, "seg": seg, "content": rbytes(rng, dl).hex(), "off": off, "size": size,
            "segnum": segnum, "pick": rng.randrange(1 << 20)}


def dec_impl(ctx, c):
    import grid  # noqa: F401  (disables the CPU thread pool: defer_to_thread runs inline)
    from allmydata.mutable.retrieve import Retrieve, RetrieveStatus
    from allmydata import codec
    content = bytes.fromhex(c["content"])
    dl, seg, k, n, sn = len(content), c["seg"], c["k"], c["n"], c["segnum"]
    nseg = -(-dl // seg)
    # publisher side (_encode_segment): pieces of get_block_size() bytes, the last one zero-padded
    data = content[sn * seg:(sn + 1) * seg]
    fec = codec.CRSEncoder()
    fec.set_params(len(data) if sn == nseg - 1 else seg, k, n)
    ps = fec.get_block_size()
    pieces = [data[i * ps:(i + 1) * ps].ljust(ps, b"\x00") for i in range(k)]
    box = []
    fec.encode(pieces).addCallback(box.append)
    shares, ids = box[0]
    pick = random.Random(c["pick"]).sample(range(len(ids)), k)
    blocks = {ids[i]: (shares[i], b"salt" * 4) for i in pick}
    r = Retrieve.__new__(Retrieve)
    r._log_number = None
    r._status = RetrieveStatus()
    r.verinfo = (1, b"r" * 32, b"", seg, dl, k, n, b"", ())
    r._data_length = dl
    r._offset, r._read_length = c["off"], c["size"]
    r._setup_encoding_parameters()
    out = []
    joined = []
    dec = r._tail_decoder if sn == r._num_segments - 1 else r._segment_decoder
    dec.decode([blocks[i][0] for i in blocks], list(blocks)).addCallback(lambda bufs: joined.append(sum(len(b) for b in bufs)))
    r._decode_blocks([blocks], sn).addCallbacks(out.append, out.append)
    if not out or not isinstance(out[0], tuple):
        return "EXC:%r" % (out[:1],)
    segment = out[0][0]
    if segment != data:     # monitor: a segment read back is the segment written (every read is made of these)
        ctx.violation("Retrieve._decode_blocks does not return the stored segment", c, "decode-blocks-trim",
                      {"got": segment.hex(), "want": data.hex(), "last_segment": r._last_segment,
                       "num_segments": r._num_segments})
    ctx.case(("DEC", seg, k, dl, sn, r._last_segment) if nseg > 1 else None)
    ctx.count("dec:" + ("tail" if sn == nseg - 1 else "last-requested-non-tail" if sn == r._last_segment else "inner"))
    return "%d %s" % (joined[0] if joined else -1, hx(segment))


def ud_case(rng):
    """Servermap update data (entries as `_got_update_results_one_share` receives them, in arrival order) and the
    version object's (version, start_segment, end_segment) for `_decode_and_decrypt_segments`."""
    k = rng.choice([1, 2, 3])
    n = k + rng.randrange(0, 3)
    seg = next_multiple(rng.choice([2, 4, 5, 6, 8]), k)
    nseg = rng.choice([1, 2, 3, 5, 9, 10, 17])
    dl = max(1, nseg * seg - rng.choice([0, 0, 1, seg - 1]))
    nseg = -(-dl // seg)
    s_ = rng.randrange(0, nseg)
    e_ = rng.choice([s_, nseg - 1, rng.randrange(s_, nseg), min(nseg - 1, (s_ // 8 + 1) * 8)])
    shares = rng.sample(range(n), rng.choice([n, n, n, k, max(0, k - 1), rng.randrange(0, n + 1)]))
    entries = []
    for sh in shares:
        if rng.random() < 0.25:
            entries.append([sh, 0, rng.randrange(0, nseg), rng.randrange(0, nseg)])     # an older version's entry
        r = rng.random()
        if r < 0.06:
            continue                                                                    # no entry of this version
        entries.append([sh, 1, s_, e_])
        if r > 0.94:
            entries.append([sh, 1, s_, e_])                                             # recorded twice, identical
        elif r > 0.88 and nseg > 1:
            entries.append([sh, 1, (s_ + 1) % nseg, e_])                                # recorded twice, different
    if rng.random() < 0.3:
        rng.shuffle(entries)
    return {"kind": "ud", "k": k, "n": n, "seg": seg, "content": rbytes(rng, dl).hex(), "ver": 1, "start": s_, "end": e_,
            "entries": entries}


UD_CORPUS = [
    # 10 segments of 4 bytes, start/end pairs whose numbers wrap mod 8 (the order of the two fetched blocks matters)
    {"kind": "ud", "k": 2, "n": 3, "seg": 4, "content": B[:38].hex(), "ver": 1, "start": s_, "end": e_,
     "entries": [[sh, 1, s_, e_] for sh in (2, 0, 1)]}
    for (s_, e_) in [(7, 8), (5, 8), (1, 8), (6, 9), (3, 4), (8, 9), (2, 2)]
] + [
    {"kind": "ud", "k": 2, "n": 3, "seg": 4, "content": B[:38].hex(), "ver": 1, "start": 1, "end": 8,
     "entries": [[0, 0, 8, 1], [0, 1, 1, 8], [1, 1, 1, 8], [1, 1, 1, 8]]},               # stale entry, duplicate
    {"kind": "ud", "k": 2, "n": 3, "seg": 4, "content": B[:38].hex(), "ver": 1, "start": 1, "end": 8,
     "entries": [[0, 1, 1, 8], [1, 1, 2, 8], [1, 1, 1, 8]]},                             # differing data: assertion
    {"kind": "ud", "k": 2, "n": 3, "seg": 4, "content": B[:38].hex(), "ver": 1, "start": 1, "end": 8,
     "entries": [[0, 1, 1, 8]]},                                                         # fewer than k shares
    {"kind": "ud", "k": 2, "n": 3, "seg": 4, "content": B[:38].hex(), "ver": 1, "start": 1, "end": 8, "entries": []},
    {"kind": "ud", "k": 2, "n": 3, "seg": 4, "content": B[:38].hex(), "ver": 1, "start": 1, "end": 8,
     "entries": [[0, 1, 1, 8], [1, 0, 1, 8]]},                                           # a share without this version
]


def ud_line(c):
    return "ud %d %d %s %d %d %d " % (c["k"], c["seg"], hx(bytes.fromhex(c["content"])), c["ver"], c["start"], c["end"]) + \
        " ".join("%d:%d:%d:%d" % tuple(e) for e in c["entries"])


def ud_impl(ctx, c):
    """real ServermapUpdater._got_update_results_one_share + MutableFileVersion._decode_and_decrypt_segments +
    Retrieve.decode (real zfec blocks; AES replaced by the identity)."""
    import grid  # noqa: F401
    from twisted.internet import defer
    from allmydata import codec
    from allmydata.mutable.servermap import ServerMap, ServermapUpdater
    from allmydata.mutable.retrieve import Retrieve, RetrieveStatus
    from allmydata.mutable.filenode import MutableFileVersion
    import allmydata.mutable.filenode as filenode
    content = bytes.fromhex(c["content"])
    dl, seg, k, n = len(content), c["seg"], c["k"], c["n"]
    nseg = -(-dl // seg)
    cache = {}

    def blocks_of(i):
        if i not in cache:
            data = content[i * seg:(i + 1) * seg]
            fec = codec.CRSEncoder()
            fec.set_params(len(data) if i == nseg - 1 else seg, k, n)
            ps = fec.get_block_size()
            box = []
            fec.encode([data[j * ps:(j + 1) * ps].ljust(ps, b"\x00") for j in range(k)]).addCallback(box.append)
            cache[i] = dict(zip(box[0][1], box[0][0]))
        return cache[i]

    def verinfo(v):
        return (v, b"r" * 32, b"", seg, dl, k, n, b"prefix", {"share_data": 123, "EOF": 999})
    u = ServermapUpdater.__new__(ServermapUpdater)
    u._servermap = ServerMap()
    for (sh, v, s_, e_) in c["entries"]:
        u._got_update_results_one_share([verinfo(v), [b"h" * 32], (blocks_of(s_)[sh], b"salt" * 4),
                                         (blocks_of(e_)[sh], b"salt" * 4)], sh)

    def make_retrieve(node, storage_broker, servermap, version, *a, **kw):
        r = Retrieve.__new__(Retrieve)
        r._log_number = None
        r._status = RetrieveStatus()
        r.verinfo = version
        r._data_length = version[4]
        r._decrypt_segment = lambda seg_and_salt: defer.succeed(seg_and_salt[0])      # AES abstracted
        return r
    mv = MutableFileVersion.__new__(MutableFileVersion)
    mv._node = mv._storage_broker = None
    mv._servermap = u._servermap
    mv._version = u._make_verinfo_hashable(verinfo(c["ver"]))
    mv._start_segment, mv._end_segment = c["start"], c["end"]
    saved = filenode.Retrieve
    filenode.Retrieve = make_retrieve
    out = []
    try:
        try:
            mv._decode_and_decrypt_segments(None, None, 0).addCallbacks(out.append, out.append)
        except Exception as e:
            out.append(e)
    finally:
        filenode.Retrieve = saved
    r0 = out[0] if out else None
    if isinstance(r0, list):
        start, end = r0[0], r0[1]
        res = "%s %s" % (hx(start), hx(end))
        # monitor: the boundary segments handed to the uploadable are the old bytes of start_segment / end_segment
        want = (content[c["start"] * seg:(c["start"] + 1) * seg], content[c["end"] * seg:(c["end"] + 1) * seg])
        consistent = all(e[1] != c["ver"] or (e[2], e[3]) == (c["start"], c["end"]) for e in c["entries"])
        if consistent and (start, end) != want:
            ctx.violation("_decode_and_decrypt_segments does not return the old start/end segments", c,
                          "boundary-segments-paired", {"got": [start.hex(), end.hex()], "want": [want[0].hex(), want[1].hex()]})
    else:
        exc = getattr(r0, "value", r0)
        res = "err:" + exc_name(exc) if exc is not None else "err:none"
    ctx.case(("UD", seg, k, dl, c["start"], c["end"], len(c["entries"])) if c["start"] != c["end"] else None)
    ctx.count("ud:" + (res if res.startswith("err") else "segments"))
    return res


# ----------------------------------------------------------------------------- run

_QUIET = []


def quiet_twisted():
    """Failures of refused operations that nobody consumes (LayoutInvalid of a boundary-segment fetch) are
    reported by Twisted on stderr at garbage collection; send its log to a null observer."""
    if not _QUIET:
        _QUIET.append(True)
        try:
            from twisted.logger import globalLogBeginner
            globalLogBeginner.beginLoggingTo([lambda event: None], redirectStandardIO=False, discardBuffer=True)
        except Exception:
            pass


def run(ctx):
    import common
    common.setup_impl_path()
    quiet_twisted()
    rng = ctx.rng
    hists, tus, encs, rngs, decs, uds = [], [], [], [], [], []
    if ctx.replay:
        c = ctx.replay["case"]
        if c.get("kind") == "tu":
            tus.append(c)
        elif c.get("kind") == "dec":
            decs.append(c)
        elif c.get("kind") == "ud":
            uds.append(c)
        else:
            hists.append(c)
    else:
        # fixed corpus first (independent of VERIF_SEED); VERIF_CORPUS_ONLY=1 stops here
        corpus_only = os.environ.get("VERIF_CORPUS_ONLY") == "1"
        if corpus_only:
            ctx.note("VERIF_CORPUS_ONLY=1: fixed corpus only, random families skipped")

        def budget(q, t):
            return 0 if corpus_only else ctx.budget(q, t)
        hists = [dict(h) for h in CORPUS]
        tus = [dict(c) for c in TU_CORPUS]
        encs = [dict(c) for c in ENC_CORPUS]
        rngs = [dict(c) for c in RNG_CORPUS]
        decs = [dict(c) for c in DEC_CORPUS]
        uds = [dict(c) for c in UD_CORPUS]
        thorough = ctx.tier == "thorough"
        for i in range(budget(170, 1900)):
            mx = 8 if not thorough else rng.choice([8, 8, 20, 40])
            hists.append(gen_history(rng, mx))
        for i in range(budget(25, 400)):
            hists.append(gen_manyseg_history(rng, 3 if not thorough else rng.choice([3, 6, 12])))
        for i in range(budget(60, 700)):
            hists.append(gen_reuse_history(rng, 8 if not thorough else rng.choice([8, 8, 20]), overtaken=(i % 4 == 3)))
        for i in range(budget(1500, 30000)):
            tus.append(tu_case(rng))
        for i in range(budget(400, 6000)):
            k = rng.choice([1, 2, 3, 4])
            maxseg = rng.choice([1, 5, 6, 8, 16])
            f = rng.choice(["m", "m", "s"])
            dl = rng.randrange(0, 80)
            if rng.random() < 0.5 or (f == "s"):
                off, up = 0, dl
            else:
                off = rng.randrange(0, dl + 1)
                up = rng.randrange(off, dl + 1)
            encs.append({"kind": "enc", "k": k, "maxseg": maxseg, "fmt": f, "dl": dl, "off": off, "up": up})
        for i in range(budget(400, 6000)):
            seg = rng.choice([1, 2, 3, 5, 8, 9, 16])
            size = rng.randrange(0, 70)
            off = rng.randrange(0, size + 3)
            rngs.append({"kind": "rng", "seg": seg, "size": size, "off": off,
                         "len": rng.choice([0, 0, 1, seg, max(0, size - off), rng.randrange(0, 40)])})

        for i in range(budget(400, 6000)):
            decs.append(dec_case(rng))
        for i in range(budget(300, 5000)):
            uds.append(ud_case(rng))

    impl_h = [run_history(ctx, h) for h in hists]
    impl_d = [dec_impl(ctx, c) for c in decs]
    impl_u = [ud_impl(ctx, c) for c in uds]
    impl_t = [tu_impl(ctx, c) for c in tus]
    impl_e = [enc_impl(c) for c in encs]
    impl_r = [rng_impl(c) for c in rngs]
    for c in encs:
        ctx.case(("ENC", c["k"], c["maxseg"], c["fmt"], c["dl"], c["off"], c["up"]) if c["dl"] else None)
        ctx.count("enc:" + ("update" if c["up"] != c["dl"] else "whole"))
    for c in rngs:
        ctx.case(("RNG", c["seg"], c["size"], c["off"], c["len"]) if c["size"] else None)
        ctx.count("rng")

    cmp_h = [(h, o) for h, o in zip(hists, impl_h) if not h.get("nomodel")]
    for h in hists:
        if h.get("nomodel"):
            ctx.count("history:monitor-only(overtaken version object)")
    lines = [hist_line(h, h.get("_skip", ())) for h, _ in cmp_h] + [tu_line(c) for c in tus] + \
            ["enc %d %d %s %d %d %d" % (c["k"], c["maxseg"], c["fmt"], c["dl"], c["off"], c["up"]) for c in encs] + \
            ["rng %d %d %d %d" % (c["seg"], c["size"], c["off"], c["len"]) for c in rngs] + \
            ["dec %d %d %d %s" % (c["seg"], c["k"], c["segnum"], hx(bytes.fromhex(c["content"]))) for c in decs] + \
            [ud_line(c) for c in uds]
    model = ctx.model(lines)
    if model is not None:
        a = len(cmp_h)
        b = a + len(tus)
        d = b + len(encs)
        ctx.compare("mutable-file history (per op: ok:segsize:length / refusal kind; every read's bytes)",
                    [h for h, _ in cmp_h], [o for _, o in cmp_h], model[:a])
        ctx.compare("TransformingUploadable.read (bytes of every read)", tus, impl_t, model[a:b])
        # the model's `enc` is total; the code divides by segment_size 0 only for an SDMF update shape that never occurs
        ctx.compare("Publish.setup_encoding_parameters (segment_size, num_segments, tail, starting, end segment)",
                    [c for c, o in zip(encs, impl_e) if not o.startswith("EXC")],
                    [o for o in impl_e if not o.startswith("EXC")],
                    [m for m, o in zip(model[b:d], impl_e) if not o.startswith("EXC")])
        ctx.compare("MutableFileVersion._do_update_update (start_segment, end_segment)",
                    [c for c, o in zip(rngs, impl_r) if not o.startswith("EXC")],
                    [o for o in impl_r if not o.startswith("EXC")],
                    [m for m, o in zip(model[d:d + len(rngs)], impl_r) if not o.startswith("EXC")])
        ctx.compare("Retrieve._decode_blocks (length of the decoder output, segment after the size_to_use cut)",
                    decs, impl_d, model[d + len(rngs):d + len(rngs) + len(decs)])
        ctx.compare("_got_update_results_one_share + _decode_and_decrypt_segments (start/end boundary segments or refusal)",
                    uds, impl_u, model[d + len(rngs) + len(decs):])
        for c, o in zip(rngs, impl_r):
            if o.startswith("EXC") != (c["off"] > c["size"]):
                ctx.disagree("_do_update_update assertion (offset <= size)", c, o, "assert iff off > size")
    if hists:
        ctx.sample({"history": hist_line(hists[-1])[:300], "impl": impl_h[-1][:300]})
    if tus:
        ctx.sample({"tu": tu_line(tus[-1])[:200], "impl": impl_t[-1][:200]})
