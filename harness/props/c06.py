"""C06 — a successful immutable upload meets servers-of-happiness; a failed one leaves nothing partial."""
import os

ID = "C06"
LEAN_PROPS = "Tahoe.Props.C06"
DRIVER = "C06"
GENERATED = []
SOURCES = ["src/allmydata/immutable/upload.py", "src/allmydata/immutable/encode.py", "src/allmydata/immutable/layout.py",
           "src/allmydata/util/happinessutil.py", "src/allmydata/storage/immutable.py", "src/allmydata/storage/server.py"]
DESIGN_REF = "DESIGN.md §2 C06"
TECHNIQUE = ("Lean 4 invariant proofs over two executable models: (1) the upload decision (UploadDecision.lean): selector's final "
             "happiness test, CHKUploader.set_shareholders with its assertion, the Encoder push phase as a state machine over "
             "shareholder-loss events (_remove_shareholder recomputing servers_of_happiness on the whole remaining servermap), "
             "WriteBucketProxy.close = final flush + remote close, answers arriving after the error, UploadResults as a function of "
             "the surviving landlords; (2) server selection (UploadSelection.lean): the bookkeeping of "
             "Tahoe2ServerSelector.get_shareholders over any history of get_buckets / allocate_buckets answers and errors in any "
             "number of rounds, on C08's SelState, composed with (1). The happiness function is C08's model of servers_of_happiness "
             "(reused, not copied). Correspondence: real uploads on the in-process grid with injected faults; the recorded "
             "set_shareholders inputs, failure script and selector answer history are replayed in the driver and outcome, shares placed, "
             "final servermap, UploadResults sharemap/servermap/pushed/preexisting, handed-over (pre-existing map, allocation) and the "
             "visible shares are compared. Monitor written from the statement: happiness recomputed (own Kuhn matching) from the "
             "complete share files in the servers' final directories, every reported or found share complete on the named server, "
             "cap readable, nothing incomplete visible.")
LEVEL_TEXT = ("Proved (14 theorems, no _partial, no open finding) for every pre-existing layout, allocation, failure script, answer order "
              "and late-answer tail: success_layout_has_matching / success_is_happy (success => a matching of >= happy (server, share) "
              "pairs among pre-existing shares and the landlords that survived); reported_shares_on_named_server / "
              "placed_shares_complete (UploadResults names exactly the surviving landlords, on the server that granted them, closed, no "
              "failed write; pushed_shares = their number); unhappy_iff_survivors_below_threshold (error iff the surviving set cannot "
              "meet the threshold, under the dict / no-double-allocation hypotheses), loss_rechecks_whole_layout, "
              "unhappy_selection_fails, success_needs_happy_pushed_allocation, assertion_iff_duplicate_allocation (the only third exit: "
              "the set_shareholders assertion of DESIGN 8.9, outside the statement); failure_leaves_no_partial_share (on the error every "
              "bucket writer was aborted and every share whose remote close may have been issued received all its bytes). Composed "
              "with server selection for every history of answers: selection_hands_over, too_few_servers_fails, "
              "selected_allocations_never_leak, selected_success_layout_has_matching. Not covered by theorems (as in the coverage "
              "table of Props/C06.lean): which shares the selector asks of which server and when its loop stops (C07; the history is "
              "arbitrary here, a superset), hence whether a happier layout was reachable; completeness of the pre-existing shares and "
              "the storage semantics of abort/close (C22) are assumptions, monitored.")
LEVEL_NOTE = ("Lean kernel + standard axioms (propext, Classical.choice, Quot.sound); no Mathlib. The matching theorems use C08's "
              "serversOfHappiness (proved there to be the maximum matching number), the bookkeeping theorems hold for any happiness "
              "function; hand-written models tied by replay of recorded histories; real uploads run on harness/grid.py (virtual clock, "
              "seeded delivery order) with fault hooks. Seeded changes C06-a..e are each caught by a fixed corpus case "
              "(VERIF_CORPUS_ONLY=1) with a monitor violation.")
RULE = ("fixed corpus first (19 scenarios, independent of the seed: duplicate-holder loss, lost write, lost writer with UploadResults, "
        "second upload while the first is stalled, second allocation round with a doubly allocated share); then seeded single uploads "
        "(grids of 1..8 servers, read-only / full / broken servers, pre-existing shares from an earlier upload, k/happy/N, file sizes, "
        "WriteBucketProxy batch size 1 MB / 200 / 40 so that write phases issue remote writes; faults = error on the i-th or on every "
        "call of allocate_buckets / write / close per server; duplicate-holder and push-fault families), concurrent uploads of one file "
        "(the first frozen between allocation and close, then timed out / disconnected / failed / completed) and tight grids with "
        "servers failing allocate_buckets (second placement rounds). A case is one upload; distinct = distinct (grid shape, fault "
        "script, outcome); non-trivial = a fault fired, a pre-existing share was found, or the outcome is not a plain success. Plus "
        "300 random sharemaps: happinessutil.servers_of_happiness vs the driver's soh vs an independent matching.")
TRUSTED = ["harness/grid.py (in-process grid, virtual clock, seeded scheduler, fault hooks)",
           "observation hooks in harness/props/c06.py (CHKUploader.set_shareholders, Encoder.set_shareholders/_remove_shareholder, "
           "Tahoe2ServerSelector._failed/_handle_existing_response/_handle_existing_write_response/_buckets_allocated, "
           "WriteBucketProxy._actually_write): pass-through wrappers",
           "WriteBucketProxy batch_size set through the constructor default in some scenarios (a production parameter, restored afterwards)",
           "lean/Drv/C06.lean parsers and printers"]
ASSUMPTIONS = ["a bucket writer's abort deletes the unfinished share and only close makes a share visible to readers (C22 visible_iff_closed); "
               "monitored: no incomplete share is ever visible",
               "the pre-existing shares the selector is told about (get_buckets answers) are complete, reader-visible shares (C22); "
               "monitored on concurrent uploads of the same file (signature success-counts-incomplete-shares)",
               "the happiness function of the code is the one of the model: C08's theorems, plus happinessutil vs the driver's soh vs an "
               "independent matching on every run",
               "unhappy_iff_survivors_below_threshold assumes dict inputs and that no server is granted a share it already reported "
               "(0 real cases excluded in 4000 thorough scenarios; without it the code under-counts, the safe direction)"]


def max_matching(sharemap):
    """independent maximum bipartite matching (shares x servers), Kuhn's algorithm"""
    match = {}

    def try_share(sh, seen):
        for p in sorted(sharemap.get(sh, ())):
            if p in seen:
                continue
            seen.add(p)
            if p not in match or try_share(match[p], seen):
                match[p] = sh
                return True
        return False
    n = 0
    for sh in sorted(sharemap):
        if try_share(sh, set()):
            n += 1
    return n


def share_data(path):
    from allmydata.storage.immutable import ShareFile
    sf = ShareFile(path)
    return sf.read_share_data(0, 10 ** 9)


class Scenario:
    pass


def gen_scenario(rng):
    s = Scenario()
    s.n = rng.choice([2, 3, 4, 5, 6])
    s.k = rng.randrange(1, s.n + 1)
    s.happy = rng.randrange(1, s.n + 1)
    s.num_servers = rng.randrange(1, 9)
    s.size = rng.choice([56, 57, 100, 200, 333, 1000])
    s.maxseg = rng.choice([64, 128, 100000])
    s.readonly = sorted(i for i in range(s.num_servers) if rng.random() < 0.12)
    s.full = sorted(i for i in range(s.num_servers) if rng.random() < 0.1 and i not in s.readonly)
    # pre-existing shares: a first upload onto a random subset of servers, (some) shares deleted afterwards
    s.pre_servers = sorted(i for i in range(s.num_servers) if rng.random() < 0.5) if rng.random() < 0.4 else []
    s.pre_delete = rng.random()
    # faults: (server, methname, nth call) -> error ; or server permanently broken
    s.faults = []
    if rng.random() < 0.75:
        for _ in range(rng.randrange(1, 4)):
            s.faults.append((rng.randrange(s.num_servers), rng.choice(["allocate_buckets", "write", "write", "close", "close"]),
                             rng.randrange(0, 6)))
    s.broken = sorted(i for i in range(s.num_servers) if rng.random() < 0.07)
    s.policy = rng.choice(["random", "random", "fifo", "lifo"])
    s.seed = rng.randrange(1 << 30)
    # WriteBucketProxy's batch_size (constructor parameter, default 1 MB): with the default every write of a small
    # share is batched into the final flush of close(); a small batch makes put_header/put_block/put_*_hashes
    # issue remote writes, so that faults hit the write phases as well
    s.batch = rng.choice([None, None, 40, 200])
    if rng.random() < 0.3:
        # duplicate-holder family: an earlier upload left every share on few servers; the new upload spreads
        # duplicates over the servers that joined since, under a tight threshold, and one of the new holders
        # fails during transfer (the share it held is still on the old server, the layout is not as happy)
        s.num_servers = rng.randrange(2, 6)
        s.n = rng.randrange(s.num_servers, s.num_servers + 2)
        s.k = rng.randrange(1, 3)
        s.happy = rng.randrange(max(1, s.num_servers - 1), s.num_servers + 1)
        s.readonly, s.full, s.broken = [], [], []
        s.pre_servers = sorted(rng.sample(range(s.num_servers), rng.randrange(1, max(2, s.num_servers - 1))))
        s.pre_delete = rng.choice([0.0, 0.0, 0.3])
        news = [i for i in range(s.num_servers) if i not in s.pre_servers] or [0]
        s.faults = [(rng.choice(news), rng.choice(["write", "write", "close"]), rng.randrange(0, 4))
                    for _ in range(rng.randrange(1, 3))]
    elif rng.random() < 0.35:
        # push-fault family: healthy selection, then write / close faults on several servers during the transfer,
        # threshold anywhere between loose and tight (both verdicts, losses that do and do not matter)
        s.num_servers = rng.randrange(2, 8)
        s.n = rng.randrange(2, 8)
        s.k = rng.randrange(1, min(s.n, 3) + 1)
        s.happy = rng.randrange(1, min(s.n, s.num_servers) + 1)
        s.readonly, s.full, s.broken = [], [], []
        s.pre_servers = sorted(i for i in range(s.num_servers) if rng.random() < 0.4) if rng.random() < 0.5 else []
        s.batch = rng.choice([None, 40, 40, 200])
        s.faults = [(rng.randrange(s.num_servers), rng.choice(["write", "write", "close"]),
                     rng.randrange(0, 3 if s.batch is None else 8)) for _ in range(rng.randrange(1, 5))]
    return s


def scenario_dict(s):
    return dict(k=s.k, happy=s.happy, n=s.n, num_servers=s.num_servers, size=s.size, maxseg=s.maxseg,
                readonly=s.readonly, full=s.full, pre_servers=s.pre_servers, pre_delete=s.pre_delete,
                faults=[list(f) for f in s.faults], broken=s.broken, policy=s.policy, seed=s.seed, batch=s.batch)


def scenario_from(d):
    s = Scenario()
    s.batch = None
    s.__dict__.update(d)
    s.faults = [tuple(f) for f in getattr(s, "faults", [])]
    return s


def model_line(ctx, happy, rec, enc, res, outcome, ids, disk, pre_present):
    """the driver line replaying what was recorded of one upload, and what the code did (to compare with the model)"""
    line, want = None, None

    def sm_tok(sm, sep=","):
        return sep.join("%d:%s" % (sh, ".".join(map(str, ps))) for sh, ps in sorted(sm.items())) or "-"
    new_visible = sorted((i, sh) for sh, srvs in disk.items() for i in srvs if (i, sh) not in pre_present)
    if rec["landlords"] is not None and rec["alloc"] is not None and outcome in ("success", "unhappy"):
        if any((p, sh) in pre_present or p in rec["already"].get(sh, ()) for (sh, p) in rec["alloc"]):
            ctx.count("server-allocated-a-share-it-already-reported")     # excluded by hypothesis `hdis`
        pre_tok = sm_tok(rec["already"])
        alloc_tok = ",".join("%d:%d" % (sh, p) for sh, p in rec["alloc"]) or "-"
        phases, closes = [], []
        cur_where = None
        for (sh, where, kind) in rec["removed"]:
            ctx.count("loss-event:" + ("close-" + kind if where == "close" else "write-phase"))
            if where == "close":
                closes.append("%s%d" % (kind, sh))
                continue
            if where != cur_where:
                phases.append([])
                cur_where = where
            phases[-1].append(sh)
        ph_tok = "/".join(".".join(map(str, p)) for p in phases) or "-"
        line = "up %d %s %s %s %s" % (happy, pre_tok, alloc_tok, ph_tok, ",".join(closes) or "-")
        if outcome == "success":
            final_sm = {sh: sorted(ids[p] for p in ps) for sh, ps in enc.servermap.items()}
            ur_sm = {sh: sorted(ids[srv.get_serverid()] for srv in srvs) for sh, srvs in res.get_sharemap().items()}
            ur_sv = {ids[srv.get_serverid()]: sorted(shs) for srv, shs in res.get_servermap().items()}
            want = {"outcome": "success",
                    "placed": ",".join(map(str, sorted(enc.get_shares_placed()))) or "-",
                    "sm": sm_tok(final_sm, ";"), "ursm": sm_tok(ur_sm, ";"), "ursv": sm_tok(ur_sv, ";"),
                    "pushed": str(res.get_pushed_shares()), "preexisting": str(res.get_preexisting_shares())}
        else:
            want = {"outcome": "unhappy"}
        want["_new_visible"] = new_visible
        want["_alloc"] = rec["alloc"]
    elif rec["alloc"] is not None and rec["landlords"] is None and outcome == "error:AssertionError":
        # CHKUploader.set_shareholders asserted: one share number in two trackers (DESIGN 8.9)
        line = "up %d %s %s - -" % (happy, sm_tok(rec["already"]),
                                    ",".join("%d:%d" % (sh, p) for sh, p in rec["alloc"]) or "-")
        want = {"outcome": "assertion"}
    elif rec["selector_failed"] is not None and outcome == "unhappy":
        alloc_tok = ",".join("%d:%d" % (sh, p) for sh, p in rec["selector_alloc"]) or "-"
        line = "up %d %s %s - -" % (happy, sm_tok(rec["selector_failed"]), alloc_tok)
        want = {"outcome": "unhappy"}
    return line, want


def run_scenario(ctx, s):
    import grid
    import random
    from allmydata.immutable import upload, encode, layout
    from twisted.python.failure import Failure
    from allmydata.interfaces import UploadUnhappinessError
    from allmydata.util import happinessutil
    from allmydata.util.happinessutil import merge_servers
    data = bytes((i * 7 + s.seed) % 251 for i in range(s.size))
    conv = b"c06-convergence!"
    case = scenario_dict(s)
    batch_defaults = layout.WriteBucketProxy.__init__.__defaults__
    assert batch_defaults == (1_000_000,), batch_defaults
    with grid.Runtime(seed=s.seed, policy=s.policy) as rt:
        g = grid.Grid(grid.fresh_dir("c06"), rt, num_servers=s.num_servers, k=s.k, happy=1, n=s.n,
                      max_segment_size=s.maxseg, readonly=())
        try:
            if s.batch:
                layout.WriteBucketProxy.__init__.__defaults__ = (s.batch,)
            c = g.clients[0]
            ids = {g.serverid(i): i for i in range(s.num_servers)}
            # reference shares from a fault-free twin upload (share bytes are a function of data+params)
            ref = {}
            pre_present = set()
            if True:
                g2dir = grid.fresh_dir("c06ref")
                g2 = grid.Grid(g2dir, rt, num_servers=max(s.n, 1), k=s.k, happy=1, n=s.n, max_segment_size=s.maxseg)
                r2 = rt.wait(g2.clients[0].upload(upload.Data(data, convergence=conv)))
                from allmydata import uri as _uri
                si = _uri.from_string(r2.get_uri()).get_storage_index()
                for (_, shnum, path) in g2.share_files(si):
                    ref[shnum] = share_data(path)
                g2.close()
            # pre-existing shares
            if s.pre_servers:
                keep = list(g.broker.servers)
                g.broker.servers[:] = [g.servers[i] for i in s.pre_servers]
                try:
                    rt.wait(c.upload(upload.Data(data, convergence=conv)))
                except Exception:
                    pass
                g.broker.servers[:] = keep
                prng = random.Random(s.seed)
                for (i, shnum, path) in g.share_files(si):
                    if prng.random() < s.pre_delete:
                        os.unlink(path)
                    else:
                        pre_present.add((i, shnum))
            rt.settle()
            # now configure the real run
            c.encoding_params["happy"] = s.happy
            for i in s.readonly:
                g.storage[i].readonly_storage = True
            for i in s.full:
                g.storage[i].get_available_space = lambda: 0
            fired = []
            for i in range(s.num_servers):
                counts = {}
                mine = [(m, nth) for (srv, m, nth) in s.faults if srv == i]

                def fault(methname, args, kwargs, counts=counts, mine=mine, i=i):
                    n = counts.get(methname, 0)
                    counts[methname] = n + 1
                    if (methname, n) in mine or (methname, -1) in mine:       # nth = -1: every call of that method fails
                        fired.append((i, methname, n))
                        return "error"
                    return None
                g.wrappers[i].fault = fault
            for i in s.broken:
                g.wrappers[i].broken = True
            # instrumentation (observation only)
            rec = {"landlords": None, "servermap": None, "removed": [], "selector_failed": None,
                   "already": None, "alloc": None}
            orig_set = encode.Encoder.set_shareholders
            orig_rm = encode.Encoder._remove_shareholder
            orig_failed = upload.Tahoe2ServerSelector._failed
            orig_chk_set = upload.CHKUploader.set_shareholders
            orig_aw = layout.WriteBucketProxy._actually_write
            encs = []
            wlog = {}     # id(WriteBucketProxy) -> did its latest remote write fail?
            events = []   # the selector's answers, in the order its handlers saw them (model: SelEv history)
            orig_her = upload.Tahoe2ServerSelector._handle_existing_response
            orig_hewr = upload.Tahoe2ServerSelector._handle_existing_write_response
            orig_ba = upload.Tahoe2ServerSelector._buckets_allocated

            def lst(xs):
                return ".".join(map(str, sorted(xs))) or "-"

            def her(self, res, tracker):
                i = ids[tracker.get_serverid()]
                events.append("G%d" % i if isinstance(res, Failure) else "g%d:%s" % (i, lst(res.keys())))
                return orig_her(self, res, tracker)

            def hewr(self, res, tracker, shares_to_ask):
                i = ids[tracker.get_serverid()]
                events.append("G%d" % i if isinstance(res, Failure) else "g%d:%s" % (i, lst(res.keys())))
                return orig_hewr(self, res, tracker, shares_to_ask)

            def ba(self, res, tracker, shares_to_ask):
                i = ids[tracker.get_serverid()]
                if isinstance(res, Failure):
                    events.append("A%d:%s" % (i, lst(shares_to_ask)))
                else:
                    events.append("a%d:%s:%s:%s" % (i, lst(shares_to_ask), lst(res[0]), lst(res[1])))
                return orig_ba(self, res, tracker, shares_to_ask)

            def chk_set(self, upload_trackers, already_serverids, encoder):
                # the true inputs of set_shareholders (the servermap it builds shares its sets with already_serverids)
                rec["already"] = {sh: sorted(ids[p] for p in ps) for sh, ps in already_serverids.items()}
                rec["alloc"] = sorted((sh, ids[t.get_serverid()]) for t in upload_trackers for sh in t.buckets)
                return orig_chk_set(self, upload_trackers, already_serverids, encoder)

            def aw(self):
                d = orig_aw(self)

                def _both(res, self=self):
                    wlog[id(self)] = isinstance(res, Failure)
                    return res
                d.addBoth(_both)
                return d

            def set_sh(self, landlords, servermap):
                rec["landlords"] = {sh: ids[b._server.get_serverid()] if hasattr(b, "_server") else None for sh, b in landlords.items()}
                rec["servermap"] = {sh: sorted(ids[p] for p in ps) for sh, ps in servermap.items()}
                encs.append(self)
                return orig_set(self, landlords, servermap)

            def rm(self, why, shareid, where):
                kind = "f"
                if where == "close" and shareid in self.landlords and wlog.get(id(self.landlords[shareid])):
                    kind = "w"      # the final flush inside close() failed: the remote close was never issued
                rec["removed"].append((shareid, where, kind))
                return orig_rm(self, why, shareid, where)

            def failed(self, msg):
                pre0 = self.peer_selector.get_sharemap_of_preexisting_shares()
                rec["selector_failed"] = {sh: sorted(ids[p] for p in ps) for sh, ps in pre0.items()}
                rec["selector_alloc"] = sorted((sh, ids[t.get_serverid()]) for t in self.use_trackers for sh in t.buckets)
                return orig_failed(self, msg)
            encode.Encoder.set_shareholders = set_sh
            encode.Encoder._remove_shareholder = rm
            upload.Tahoe2ServerSelector._failed = failed
            upload.CHKUploader.set_shareholders = chk_set
            layout.WriteBucketProxy._actually_write = aw
            upload.Tahoe2ServerSelector._handle_existing_response = her
            upload.Tahoe2ServerSelector._handle_existing_write_response = hewr
            upload.Tahoe2ServerSelector._buckets_allocated = ba
            try:
                outcome, res = None, None
                try:
                    res = rt.wait(c.upload(upload.Data(data, convergence=conv)))
                    outcome = "success"
                except UploadUnhappinessError:
                    outcome = "unhappy"
                except grid.Stuck:
                    outcome = "stuck"
                except Exception as e:
                    outcome = "error:" + type(e).__name__
                rt.settle()
            finally:
                encode.Encoder.set_shareholders = orig_set
                encode.Encoder._remove_shareholder = orig_rm
                upload.Tahoe2ServerSelector._failed = orig_failed
                upload.CHKUploader.set_shareholders = orig_chk_set
                layout.WriteBucketProxy._actually_write = orig_aw
                upload.Tahoe2ServerSelector._handle_existing_response = orig_her
                upload.Tahoe2ServerSelector._handle_existing_write_response = orig_hewr
                upload.Tahoe2ServerSelector._buckets_allocated = orig_ba
            case["fired"] = [list(f) for f in fired]
            case["outcome"] = outcome
            # ---------------- monitor (from the statement, on the real server state)
            disk = {}
            for (i, shnum, path) in g.share_files(si):
                disk.setdefault(shnum, set()).add(i)
                body = share_data(path)
                if shnum not in ref or body != ref[shnum]:
                    ctx.violation("a reader-visible share is incomplete or differs from the correct share bytes",
                                  dict(case, server=i, shnum=shnum), "visible-share-not-complete")
            if outcome == "success":
                usable = {sh: {i for i in srvs if i not in s.broken} for sh, srvs in disk.items()}
                usable = {sh: v for sh, v in usable.items() if v}
                hp = max_matching(usable)
                if hp < s.happy:
                    ctx.violation("upload reported success but the layout on the answering servers has happiness %d < %d" % (hp, s.happy),
                                  dict(case, layout={sh: sorted(v) for sh, v in usable.items()}), "success-but-unhappy")
                for shnum, servers in res.get_sharemap().items():
                    for srv in servers:
                        i = ids[srv.get_serverid()]
                        if i not in disk.get(shnum, ()):
                            ctx.violation("a share reported as placed is not present on the named server",
                                          dict(case, server=i, shnum=shnum), "placed-share-missing")
            elif outcome == "unhappy":
                pass   # every visible share was already checked for completeness above
            elif outcome == "stuck":
                ctx.violation("upload never completed although every server answered or failed", case, "upload-stuck")
            else:
                # Another error class. The statement promises an unhappiness error only "if the threshold
                # cannot be met"; when it could have been met the statement is silent (see DESIGN 8.9: the
                # uploader can die with an AssertionError after allocating one share number on two servers).
                ctx.count("outcome-other:" + outcome)
                answering = [i for i in range(s.num_servers) if i not in s.broken]
                if len(answering) < s.happy:
                    ctx.violation("the threshold could not be met, but the upload failed with %s instead of an unhappiness error" % outcome,
                                  case, "upload-wrong-error:" + outcome)
            if g.incoming_files():
                # not reader-visible, so outside the statement; the model says every bucket writer of a
                # finished upload was closed or aborted, so for success/unhappy this is a model disagreement
                ctx.count("incoming-left-behind:" + outcome)
                if outcome in ("success", "unhappy"):
                    ctx.disagree("bucket writers left open after the upload ended (model: all closed or aborted)", case,
                                 [p for _, p in g.incoming_files()][:3], "none")
            # ---------------- correspondence with the model
            line, want = model_line(ctx, s.happy, rec, encs[-1] if encs else None, res, outcome, ids, disk, pre_present)
            if line:
                # the same upload once more, now from the selector's recorded answers: server selection (model `select`)
                # must hand over exactly the (pre-existing map, allocation) the code handed to set_shareholders / _failed
                toks = line.split()
                pre_now = rec["already"] if rec["alloc"] is not None else rec["selector_failed"]
                alloc_now = rec["alloc"] if rec["alloc"] is not None else rec["selector_alloc"]
                want2 = dict(want)
                want2["selpre"] = ";".join("%d:%s" % (sh, ".".join(map(str, ps))) for sh, ps in sorted(pre_now.items())) or "-"
                want2["selalloc"] = ",".join("%d:%d" % (sh, p) for sh, p in alloc_now) or "-"
                line = [line, "sel %d %d %s %s %s" % (s.happy, s.n, ",".join(events) or "-", toks[4], toks[5])]
                want = [want, want2]
                ctx.count("selection-events", len(events))
                if sum(1 for e in events if e[0] in "aA") > s.num_servers:
                    ctx.count("uploads-with-a-second-allocation-round")
            if rec["alloc"] is not None and outcome in ("success", "unhappy"):
                # the model's input alphabet: every failing remote write/close on a bucket writer reaches the encoder as a
                # shareholder-loss event (layout._actually_write / close hand the failure back; encode.py's errbacks run
                # _remove_shareholder).  (More losses than faults is fine: writes overtaken by the abort of `err` fail too.)
                alloc_srv = {sh: p for sh, p in rec["alloc"]}
                for i in range(s.num_servers):
                    if i in s.broken:
                        continue
                    nf = sum(1 for (srv, m, n) in fired if srv == i and m in ("write", "close"))
                    nr = sum(1 for (sh, where, kind) in rec["removed"] if alloc_srv.get(sh) == i)
                    if nf > nr:
                        ctx.disagree("a failed remote write/close on a bucket writer did not become a shareholder-loss event at the "
                                     "encoder (model: every failing call runs _remove_shareholder)", dict(case, server=i),
                                     "%d failed calls, %d loss events" % (nf, nr), "one loss event per failed call")
            nontrivial = bool(fired or pre_present or outcome != "success" or s.broken or s.readonly or s.full)
            ctx.case(repr(sorted(case.items())) if nontrivial else None)
            ctx.count("outcome:" + outcome)
            ctx.count("faults-fired", len(fired))
            if rec["removed"]:
                ctx.count("uploads-with-removed-shareholder")
            if pre_present:
                ctx.count("uploads-with-preexisting-shares")
            return case, line, want
        finally:
            layout.WriteBucketProxy.__init__.__defaults__ = batch_defaults
            g.close()


def gen_allocfail(rng):
    """tight thresholds with servers that answer get_buckets but fail allocate_buckets: the selector needs a second
    placement round, which can allocate one share number on two servers (DESIGN 8.9)"""
    s = Scenario()
    s.num_servers = rng.randrange(4, 9)
    s.n = rng.randrange(max(2, s.num_servers - 2), s.num_servers + 1)
    s.k = rng.randrange(1, 4)
    s.k = min(s.k, s.n)
    s.happy = min(s.n, rng.randrange(max(1, s.num_servers - 2), s.num_servers))
    s.size = rng.choice([100, 333, 1000])
    s.maxseg = rng.choice([64, 128, 100000])
    s.readonly, s.full, s.broken, s.pre_servers, s.pre_delete = [], [], [], [], 0.0
    if rng.random() < 0.25:
        s.pre_servers = sorted(rng.sample(range(s.num_servers), rng.randrange(1, 3)))
    s.faults = [(f, "allocate_buckets", rng.choice([-1, -1, 0])) for f in rng.sample(range(s.num_servers), rng.choice([1, 1, 1, 2]))]
    if rng.random() < 0.3:
        s.faults.append((rng.randrange(s.num_servers), rng.choice(["write", "close"]), 0))
    s.policy = rng.choice(["random", "fifo", "fifo", "lifo"])
    s.seed = rng.randrange(1 << 30)
    s.batch = None
    return s


def gen_concurrent(rng):
    """two uploads of the SAME file (same storage index) on one grid: #1 is frozen somewhere between its allocation and
    its last close (its node stops: every message of it is held back), #2 runs meanwhile, then #1 meets its fate"""
    s = Scenario()
    s.kind = "concurrent"
    s.num_servers = rng.randrange(2, 8)
    s.n = rng.randrange(2, 7)
    s.k = rng.randrange(1, min(s.n, 3) + 1)
    s.happy = rng.randrange(1, min(s.n, s.num_servers) + 1)
    s.size = rng.choice([56, 100, 333, 1000])
    s.maxseg = rng.choice([64, 128, 100000])
    s.freeze = rng.choice([0, 0, 1, 3, 8, 20, 60, 200])       # scheduler steps #1 still gets after its first incoming share
    s.fate = rng.choice(["timeout", "disconnect", "complete", "fail"])
    s.policy = rng.choice(["random", "random", "fifo", "lifo"])
    s.seed = rng.randrange(1 << 30)
    s.batch = rng.choice([None, None, 40])
    return s


def run_concurrent(ctx, s):
    import grid
    from allmydata.immutable import upload, encode, layout
    from allmydata.interfaces import UploadUnhappinessError
    from allmydata.util.consumer import MemoryConsumer
    from allmydata import uri as _uri
    data = bytes((i * 7 + s.seed) % 251 for i in range(s.size))
    conv = b"c06-convergence!"
    case = dict(kind="concurrent", k=s.k, happy=s.happy, n=s.n, num_servers=s.num_servers, size=s.size, maxseg=s.maxseg,
                freeze=s.freeze, fate=s.fate, policy=s.policy, seed=s.seed, batch=s.batch)
    batch_defaults = layout.WriteBucketProxy.__init__.__defaults__
    assert batch_defaults == (1_000_000,), batch_defaults
    with grid.Runtime(seed=s.seed, policy=s.policy) as rt:
        g = grid.Grid(grid.fresh_dir("c06cc"), rt, num_servers=s.num_servers, num_clients=3, k=s.k, happy=s.happy, n=s.n,
                      max_segment_size=s.maxseg, convergence=conv)
        try:
            if s.batch:
                layout.WriteBucketProxy.__init__.__defaults__ = (s.batch,)
            ids = {g.serverid(i): i for i in range(s.num_servers)}
            g2 = grid.Grid(grid.fresh_dir("c06ccref"), rt, num_servers=max(s.n, 1), k=s.k, happy=1, n=s.n,
                           max_segment_size=s.maxseg)
            r2 = rt.wait(g2.clients[0].upload(upload.Data(data, convergence=conv)))
            si = _uri.from_string(r2.get_uri()).get_storage_index()
            ref = {shnum: share_data(path) for (_, shnum, path) in g2.share_files(si)}
            g2.close()

            def complete_now():
                """(server, shnum) of the reader-visible shares (final share directory, not incoming/) with correct bytes"""
                good, bad = set(), []
                for (i, shnum, path) in g.share_files(si):
                    if shnum in ref and share_data(path) == ref[shnum]:
                        good.add((i, shnum))
                    else:
                        bad.append((i, shnum))
                return good, bad

            # observation hooks; #1 is frozen while #2 runs, so the phase tells whose call it is
            def fresh_rec():
                return {"landlords": None, "servermap": None, "removed": [], "selector_failed": None, "already": None,
                        "alloc": None, "enc": None}
            recs = {"u1": fresh_rec(), "u2": fresh_rec()}
            cur = ["u1"]
            orig_set = encode.Encoder.set_shareholders
            orig_rm = encode.Encoder._remove_shareholder
            orig_failed = upload.Tahoe2ServerSelector._failed
            orig_chk_set = upload.CHKUploader.set_shareholders

            def chk_set(self, upload_trackers, already_serverids, encoder):
                rec = recs[cur[0]]
                rec["already"] = {sh: sorted(ids[p] for p in ps) for sh, ps in already_serverids.items()}
                rec["alloc"] = sorted((sh, ids[t.get_serverid()]) for t in upload_trackers for sh in t.buckets)
                return orig_chk_set(self, upload_trackers, already_serverids, encoder)

            def set_sh(self, landlords, servermap):
                rec = recs[cur[0]]
                rec["landlords"] = True
                rec["enc"] = self
                return orig_set(self, landlords, servermap)

            def rm(self, why, shareid, where):
                for rec in recs.values():
                    if rec["enc"] is self:
                        rec["removed"].append((shareid, where, "f"))
                return orig_rm(self, why, shareid, where)

            def failed(self, msg):
                rec = recs[cur[0]]
                pre0 = self.peer_selector.get_sharemap_of_preexisting_shares()
                rec["selector_failed"] = {sh: sorted(ids[p] for p in ps) for sh, ps in pre0.items()}
                rec["selector_alloc"] = sorted((sh, ids[t.get_serverid()]) for t in self.use_trackers for sh in t.buckets)
                return orig_failed(self, msg)
            encode.Encoder.set_shareholders = set_sh
            encode.Encoder._remove_shareholder = rm
            upload.Tahoe2ServerSelector._failed = failed
            upload.CHKUploader.set_shareholders = chk_set

            def outcome_of(thunk):
                try:
                    return "success", thunk()
                except UploadUnhappinessError:
                    return "unhappy", None
                except grid.Stuck:
                    return "stuck", None
                except Exception as e:
                    return "error:" + type(e).__name__, None

            def judge(tag, res, rec, when):
                """the statement applied to an upload that reported success, against the servers' final share directories"""
                good, bad = complete_now()
                layout_now = {}
                for (i, sh) in good:
                    layout_now.setdefault(sh, set()).add(i)
                found_bad = sorted((p, sh) for sh, ps in (rec["already"] or {}).items() for p in ps if (p, sh) not in good)
                hp = max_matching(layout_now)
                c2 = dict(case, upload=tag, when=when, layout={sh: sorted(v) for sh, v in layout_now.items()})
                if found_bad:
                    ctx.violation("upload %s reported success counting shares as found that are not complete, reader-visible shares "
                                  "on the server named: %s" % (tag, found_bad), c2, "success-counts-incomplete-shares")
                if hp < s.happy:
                    ctx.violation("upload %s reported success but the complete shares on the grid have happiness %d < %d"
                                  % (tag, hp, s.happy), c2,
                                  "success-counts-incomplete-shares" if found_bad else "success-but-unhappy")
                for shnum, servers in res.get_sharemap().items():
                    for srv in servers:
                        if (ids[srv.get_serverid()], shnum) not in good:
                            ctx.violation("a share reported as placed is not a complete share on the named server",
                                          dict(c2, server=ids[srv.get_serverid()], shnum=shnum), "placed-share-missing")
                if len(layout_now) >= s.k:
                    # enough distinct complete shares are there: the cap the upload returned must be readable
                    node = g.clients[2].create_node_from_uri(res.get_uri())
                    mc = MemoryConsumer()
                    try:
                        rt.wait(node.read(mc, 0, None), horizon=600.0)
                        got = b"".join(mc.chunks)
                    except Exception as e:
                        got = "error:" + type(e).__name__
                    if got != data:
                        ctx.violation("the file cannot be read back through the cap of a successful upload", c2,
                                      "success-but-unreadable")
            try:
                # ---- upload #1, frozen after its first share reached incoming/ (+ s.freeze scheduler steps)
                out1 = []
                d1 = g.clients[0].upload(upload.Data(data, convergence=conv))
                d1.addBoth(out1.append)
                while not out1 and not g.incoming_files() and rt.step():
                    pass
                if s.freeze == "close":
                    # until the first remote close of #1 is about to be delivered (every share written into incoming/)
                    while not out1 and not any(lbl and lbl[1] == "close" for (lbl, _) in rt.pending) and rt.step():
                        pass
                else:
                    for _ in range(s.freeze):
                        if out1 or not rt.step():
                            break
                while any(c.getTime() <= rt.clock.seconds() for c in rt.clock.getDelayedCalls()):
                    rt.clock.advance(0)
                held, rt.pending[:] = list(rt.pending), []
                frozen = not out1
                case["frozen"] = frozen
                case["incoming_at_freeze"] = len(g.incoming_files())
                before2, _ = complete_now()
                # ---- upload #2 of the same file by another client
                cur[0] = "u2"
                outcome2, res2 = outcome_of(lambda: rt.wait(g.clients[1].upload(upload.Data(data, convergence=conv)), horizon=600.0))
                case["outcome"] = outcome2
                case["fired"] = []
                good2, _ = complete_now()
                disk2 = {}
                for (i, sh) in good2:
                    disk2.setdefault(sh, set()).add(i)
                if outcome2 == "success":
                    case["pushed"], case["preexisting"] = res2.get_pushed_shares(), res2.get_preexisting_shares()
                    judge("#2", res2, recs["u2"], "at report time")
                elif outcome2 == "stuck":
                    ctx.violation("upload #2 never completed although every server answered", case, "upload-stuck")
                elif outcome2 != "unhappy":
                    ctx.count("outcome-other:" + outcome2)
                # ---- the fate of upload #1
                cur[0] = "u1"
                outcome1, res1 = None, None
                if frozen:
                    if s.fate == "timeout":
                        rt.clock.advance(31 * 60)
                    elif s.fate == "disconnect":
                        for w in g.wrappers.values():
                            w.disconnect()
                            w.broken = False
                    else:
                        if s.fate == "fail":
                            for w in g.wrappers.values():
                                w.fault = lambda methname, args, kwargs: "error" if methname in ("write", "close") else None
                        rt.pending.extend(held)
                        try:
                            rt.wait(d1, horizon=600.0)
                        except grid.Stuck:
                            outcome1 = "stuck"
                        for w in g.wrappers.values():
                            w.fault = None
                rt.settle()
                if out1:
                    from twisted.python.failure import Failure
                    r = out1[0]
                    outcome1 = ("unhappy" if r.check(UploadUnhappinessError) else "error:" + r.type.__name__) if isinstance(r, Failure) else "success"
                    res1 = None if isinstance(r, Failure) else r
                case["outcome1"] = outcome1
                if outcome1 == "success" and res1 is not None:
                    judge("#1", res1, recs["u1"], "at the end")
                if outcome2 == "success":
                    judge("#2", res2, recs["u2"], "after the fate of #1")
                _, bad = complete_now()
                for (i, sh) in bad:
                    ctx.violation("a reader-visible share is incomplete or differs from the correct share bytes",
                                  dict(case, server=i, shnum=sh), "visible-share-not-complete")
            finally:
                encode.Encoder.set_shareholders = orig_set
                encode.Encoder._remove_shareholder = orig_rm
                upload.Tahoe2ServerSelector._failed = orig_failed
                upload.CHKUploader.set_shareholders = orig_chk_set
            # ---- correspondence with the model for #2: `pre` = what it found; in the model these are complete shares
            line, want = model_line(ctx, s.happy, recs["u2"], recs["u2"]["enc"], res2, outcome2, ids, disk2, before2)
            ctx.case(repr(sorted((k, repr(v)) for k, v in case.items())))
            ctx.count("concurrent:#2=%s" % outcome2)
            ctx.count("concurrent:fate=%s,#1=%s" % (s.fate if frozen else "not-frozen", outcome1))
            if outcome2 == "success" and res2.get_pushed_shares() == 0:
                ctx.count("concurrent:#2-success-with-zero-pushed")
            return case, line, want
        finally:
            layout.WriteBucketProxy.__init__.__defaults__ = batch_defaults
            g.close()


def _fixed(name, expect, **kw):
    d = dict(k=1, happy=1, n=3, num_servers=3, size=100, maxseg=64, readonly=[], full=[], pre_servers=[], pre_delete=0.0,
             faults=[], broken=[], policy="fifo", seed=5, batch=None)
    d.update(kw)
    return (name, expect, d)


def _concurrent(name, expect, **kw):
    d = dict(kind="concurrent", k=2, happy=3, n=4, num_servers=5, size=600, maxseg=64, freeze="close", fate="timeout",
             policy="fifo", seed=11, batch=None)
    d.update(kw)
    return (name, expect, d)


# FIXED CORPUS: run first, independent of VERIF_SEED; one minimal scenario per known mechanism (the seeded changes
# seeded/C06-a, -b, -c; no defect of C06 was repaired in /repo).  `expect` = the outcome of the unchanged code.
CORPUS = [
    # C06-a: _remove_shareholder must recompute happiness although the lost share still has another holder.
    # Server 0 holds shares 0,1,2 from an earlier upload, servers 1 and 2 get one duplicate each, threshold 3;
    # the writer on a new server fails during the push -> happiness 2 < 3 -> unhappiness error.
    _fixed("a-dup-holder-write-phase", "unhappy", happy=3, pre_servers=[0], faults=[[1, "write", 0]], batch=40),
    _fixed("a-dup-holder-flush", "unhappy", happy=3, pre_servers=[0], faults=[[2, "write", 0]]),
    _fixed("a-dup-holder-close", "unhappy", happy=3, pre_servers=[0], faults=[[1, "close", 0]], policy="lifo"),
    # C06-b: a failed remote write must reach the encoder (layout._actually_write hands the failure back).
    # One transient write failure on an otherwise healthy server; its close would be delivered normally.
    _fixed("b-lost-flush-tight", "unhappy", k=2, n=4, num_servers=4, happy=4, faults=[[1, "write", 0]]),
    _fixed("b-lost-flush-loose", "success", k=2, n=4, num_servers=4, happy=2, faults=[[1, "write", 0]]),
    _fixed("b-lost-midstream-write", "success", k=2, n=4, num_servers=4, happy=3, size=333, faults=[[2, "write", 2]], batch=40),
    # C06-c: UploadResults must be built from the landlords that survived the push, not from the allocation table.
    # A writer is lost during the push, the upload still succeeds; the lost share must not be reported.
    _fixed("c-lost-close-still-happy", "success", k=2, n=4, num_servers=4, happy=2, faults=[[1, "close", 0]]),
    _fixed("c-lost-write-still-happy", "success", k=2, n=4, num_servers=4, happy=3, faults=[[3, "write", 1]], batch=40,
           policy="random"),
    _fixed("c-two-lost-still-happy", "success", k=1, n=5, num_servers=5, happy=2, faults=[[0, "write", 0], [4, "close", 0]]),
    # C06-d: shares found must be COMPLETE shares.  Upload #1 of a file is frozen with every share written into incoming/
    # but not closed; upload #2 of the same file runs meanwhile; then #1 times out / is disconnected / fails / completes.
    # (changed tree: allocate_buckets lists the partial shares as alreadygot and the selector counts them: #2 reports
    # success with pushed=0 although no complete share exists.)
    _concurrent("d-second-upload-while-first-stalls-timeout", "unhappy", fate="timeout"),
    _concurrent("d-second-upload-while-first-stalls-disconnect", "unhappy", fate="disconnect", policy="random"),
    _concurrent("d-second-upload-while-first-fails", "unhappy", fate="fail", num_servers=4, happy=4, k=3),
    _concurrent("d-second-upload-while-first-completes", "unhappy", fate="complete", policy="lifo", batch=40),
    _concurrent("d-second-upload-tight-grid", "unhappy", fate="timeout", num_servers=2, n=2, k=1, happy=2),
    # C06-e: the success verdict must be taken on the tracker set that is actually pushed.  7 servers, k=2 happy=6 N=6, one
    # server answers get_buckets but fails every allocate_buckets: a second placement round allocates some share numbers on
    # two servers.  Unchanged tree: CHKUploader.set_shareholders asserts (DESIGN 8.9), nothing becomes visible.
    # (changed tree: duplicates are released after the happiness test; success on a layout with happiness 3..5 < 6.)
] + [
    _fixed("e-second-round-duplicate-allocation-s%d" % f, "error:AssertionError", k=2, happy=6, n=6, num_servers=7, size=600,
           maxseg=128, faults=[[f, "allocate_buckets", -1]], seed=1)
    for f in (0, 1, 2, 3, 5)
]


def run(ctx):
    import common
    common.setup_impl_path()
    if ctx.replay and isinstance(ctx.replay.get("case"), dict) and "num_servers" in ctx.replay["case"]:
        d = {k: v for k, v in ctx.replay["case"].items() if k not in ("fired", "outcome", "server", "shnum", "layout", "incoming", "corpus", "expect", "upload", "when",
                                                                       "frozen", "incoming_at_freeze", "outcome1", "pushed", "preexisting")}
        scen = [scenario_from(d)]
    else:
        corpus_only = bool(os.environ.get("VERIF_CORPUS_ONLY"))
        scen = [scenario_from(dict(d, corpus=name, expect=expect)) for (name, expect, d) in CORPUS]
        if not corpus_only:
            scen += [gen_scenario(ctx.rng) for _ in range(ctx.budget(150, 4000))]
            # concurrent-upload family (drawn after the single-upload stream, so that stream is unchanged)
            scen += [gen_concurrent(ctx.rng) for _ in range(ctx.budget(30, 800))]
            scen += [gen_allocfail(ctx.rng) for _ in range(ctx.budget(40, 1000))]
    lines, wants, cases = [], [], []
    for s in scen:
        concurrent = getattr(s, "kind", None) == "concurrent"
        case, line, want = run_concurrent(ctx, s) if concurrent else run_scenario(ctx, s)
        if getattr(s, "corpus", None):
            ctx.count("corpus:" + s.corpus)
            exercised = (case["frozen"] and case["incoming_at_freeze"] > 0) if concurrent else bool(case["fired"])
            if case["outcome"] != s.expect or not exercised:
                # the fixed scenario no longer exercises its mechanism (or the code decides differently)
                ctx.disagree("fixed corpus scenario %s: outcome / fault not as on the reference code" % s.corpus, case,
                             [case["outcome"], exercised], [s.expect, "mechanism exercised"])
        if line:
            for (l1, w1) in (zip(line, want) if isinstance(line, list) else [(line, want)]):
                lines.append(l1)
                wants.append(w1)
                cases.append(dict(case, line=l1))
                ctx.count("model-line:" + w1["outcome"])
    outs = ctx.model(lines)
    if outs is not None:
        for c, w, o in zip(cases, wants, outs):
            toks = o.split()
            got = {"outcome": toks[0] if toks else ""}
            for t in toks[1:]:
                k, _, v = t.partition("=")
                got[k] = v
            # outcome, shares placed, final servermap, and the UploadResults maps / counters
            keys = [k for k in w if not k.startswith("_")]
            if any(got.get(k) != w[k] for k in keys):
                ctx.disagree("upload decision (outcome, shares placed, final servermap, UploadResults sharemap/servermap/"
                             "pushed/preexisting) for the recorded failure script", c,
                             {k: w[k] for k in keys}, {k: got.get(k) for k in keys})
                continue
            if "_new_visible" in w:
                # server side: a share this upload made visible must be one the model lists as possibly visible
                # (remote close issued) on the server that allocated it, and never one with a missing write
                unl = lambda v: set() if v in (None, "-") else {int(x) for x in v.split(",")}
                vis, holes = unl(got.get("vis")), unl(got.get("holes"))
                alloc = {sh: p for sh, p in w["_alloc"]}
                for (i, sh) in w["_new_visible"]:
                    if sh not in vis or alloc.get(sh) != i or sh in holes:
                        ctx.disagree("a share made visible by this upload is not among the model's possibly-visible, "
                                     "hole-free bucket writers", c, [i, sh], o)
                        break
                ctx.count("model-outcome:" + got["outcome"])
    if cases:
        ctx.sample(cases[0])
    if os.environ.get("VERIF_CORPUS_ONLY") and not ctx.replay:
        return
    # cross-check of the happiness function handed to the model
    from allmydata.util.happinessutil import servers_of_happiness
    hl, hw, hc = [], [], []
    for _ in range(ctx.budget(300, 5000)):
        sm = {}
        for sh in range(ctx.rng.randrange(0, 7)):
            ps = {ctx.rng.randrange(0, 6) for _ in range(ctx.rng.randrange(1, 4))}
            sm[sh] = ps
        hl.append("hp " + (",".join("%d:%s" % (sh, ".".join(map(str, sorted(ps)))) for sh, ps in sorted(sm.items())) or "-"))
        hw.append(str(servers_of_happiness({sh: set(ps) for sh, ps in sm.items()})))
        hc.append({"sharemap": {sh: sorted(ps) for sh, ps in sm.items()}})
        if int(hw[-1]) != max_matching(sm):
            ctx.violation("servers_of_happiness differs from the maximum matching", hc[-1], "happiness-not-max-matching")
        ctx.case(None)
    ctx.compare("happiness value: happinessutil.servers_of_happiness vs the driver's maximum matching", hc, hw, ctx.model(hl))
