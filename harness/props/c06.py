"""C06 — a successful immutable upload meets servers-of-happiness; a failed one leaves nothing partial."""
import os

ID = "C06"
LEAN_PROPS = "Tahoe.Props.C06"
DRIVER = "C06"
GENERATED = []
SOURCES = ["src/allmydata/immutable/upload.py", "src/allmydata/immutable/encode.py",
           "src/allmydata/util/happinessutil.py", "src/allmydata/storage/immutable.py"]
DESIGN_REF = "DESIGN.md §2 C06"
TECHNIQUE = ("Lean 4 invariant proof over a model of the upload decision (selector test, Encoder._remove_shareholder over any "
             "failure script, close phase) for an abstract happiness function; correspondence of recorded failure scripts from real "
             "uploads on the in-process grid; monitor recomputing happiness from the share files on disk")
LEVEL_TEXT = ("Proved for every failure script and every happiness function: success implies the final layout (placed-and-closed + "
              "pre-existing) has happiness >= threshold, every placed share was closed with no failed write, and on the unhappiness "
              "error every bucket writer was aborted while anything made visible is a complete share. Tied to the code by replaying, in "
              "the model, the landlords / servermap / failure sequence recorded from real uploads with injected faults. Partial: the "
              "multi-round server-selection loop is modelled only through its final test; storage semantics of abort/close is C22.")
LEVEL_NOTE = ("Lean kernel + standard axioms; happiness function abstract in the theorems (C08 proves it is the maximum matching); "
              "hand-written model; real uploads run on harness/grid.py with fault hooks.")
RULE = ("seeded grids (1..8 servers, read-only/full/erroring servers, pre-existing shares from an earlier upload) x k/happy/N x file sizes; "
        "faults = error on the i-th call of allocate_buckets/write/close per server. A case is one upload; distinct = distinct "
        "(grid shape, fault script, outcome); non-trivial = at least one fault fired or a pre-existing share was found or the outcome is unhappy.")
TRUSTED = ["harness/grid.py fault hooks", "lean/Drv/C06.lean computes happiness with its own maximum-matching (Kuhn) implementation"]
ASSUMPTIONS = ["bucket writer abort deletes the incoming share and close makes it visible (C22)",
               "the happiness function used by the code is the one passed to the model (cross-checked: driver's matching vs happinessutil on every case)"]


def max_matching(sharemap):
    """independent maximum bipartite matching (shares x servers), Kuhn's algorithm"""
    match = {}

    def try_share(sh, seen):
        for p in sorted(sharemap.get(sh, ())):
            if p in seen:
                continue
            seen.add(p)
            if p not in match or try_share(match[p], seen):
                match[p] = sh
                return True
        return False
    n = 0
    for sh in sorted(sharemap):
        if try_share(sh, set()):
            n += 1
    return n


def share_data(path):
    from allmydata.storage.immutable import ShareFile
    sf = ShareFile(path)
    return sf.read_share_data(0, 10 ** 9)


class Scenario:
    pass


def gen_scenario(rng):
    s = Scenario()
    s.n = rng.choice([2, 3, 4, 5, 6])
    s.k = rng.randrange(1, s.n + 1)
    s.happy = rng.randrange(1, s.n + 1)
    s.num_servers = rng.randrange(1, 9)
    s.size = rng.choice([56, 57, 100, 200, 333, 1000])
    s.maxseg = rng.choice([64, 128, 100000])
    s.readonly = sorted(i for i in range(s.num_servers) if rng.random() < 0.12)
    s.full = sorted(i for i in range(s.num_servers) if rng.random() < 0.1 and i not in s.readonly)
    # pre-existing shares: a first upload onto a random subset of servers, (some) shares deleted afterwards
    s.pre_servers = sorted(i for i in range(s.num_servers) if rng.random() < 0.5) if rng.random() < 0.4 else []
    s.pre_delete = rng.random()
    # faults: (server, methname, nth call) -> error ; or server permanently broken
    s.faults = []
    if rng.random() < 0.75:
        for _ in range(rng.randrange(1, 4)):
            s.faults.append((rng.randrange(s.num_servers), rng.choice(["allocate_buckets", "write", "write", "close", "close"]),
                             rng.randrange(0, 6)))
    s.broken = sorted(i for i in range(s.num_servers) if rng.random() < 0.07)
    s.policy = rng.choice(["random", "random", "fifo", "lifo"])
    s.seed = rng.randrange(1 << 30)
    if rng.random() < 0.3:
        # duplicate-holder family: an earlier upload left every share on few servers; the new upload spreads
        # duplicates over the servers that joined since, under a tight threshold, and one of the new holders
        # fails during transfer (the share it held is still on the old server, the layout is not as happy)
        s.num_servers = rng.randrange(2, 6)
        s.n = rng.randrange(s.num_servers, s.num_servers + 2)
        s.k = rng.randrange(1, 3)
        s.happy = rng.randrange(max(1, s.num_servers - 1), s.num_servers + 1)
        s.readonly, s.full, s.broken = [], [], []
        s.pre_servers = sorted(rng.sample(range(s.num_servers), rng.randrange(1, max(2, s.num_servers - 1))))
        s.pre_delete = rng.choice([0.0, 0.0, 0.3])
        news = [i for i in range(s.num_servers) if i not in s.pre_servers] or [0]
        s.faults = [(rng.choice(news), rng.choice(["write", "write", "close"]), rng.randrange(0, 4))
                    for _ in range(rng.randrange(1, 3))]
    return s


def scenario_dict(s):
    return dict(k=s.k, happy=s.happy, n=s.n, num_servers=s.num_servers, size=s.size, maxseg=s.maxseg,
                readonly=s.readonly, full=s.full, pre_servers=s.pre_servers, pre_delete=s.pre_delete,
                faults=[list(f) for f in s.faults], broken=s.broken, policy=s.policy, seed=s.seed)


def scenario_from(d):
    s = Scenario()
    s.__dict__.update(d)
    s.faults = [tuple(f) for f in s.faults]
    return s


def run_scenario(ctx, s):
    import grid
    import random
    from allmydata.immutable import upload, encode
    from allmydata.interfaces import UploadUnhappinessError
    from allmydata.util import happinessutil
    from allmydata.util.happinessutil import merge_servers
    data = bytes((i * 7 + s.seed) % 251 for i in range(s.size))
    conv = b"c06-convergence!"
    case = scenario_dict(s)
    with grid.Runtime(seed=s.seed, policy=s.policy) as rt:
        g = grid.Grid(grid.fresh_dir("c06"), rt, num_servers=s.num_servers, k=s.k, happy=1, n=s.n,
                      max_segment_size=s.maxseg, readonly=())
        try:
            c = g.clients[0]
            ids = {g.serverid(i): i for i in range(s.num_servers)}
            # reference shares from a fault-free twin upload (share bytes are a function of data+params)
            ref = {}
            pre_present = set()
            if True:
                g2dir = grid.fresh_dir("c06ref")
                g2 = grid.Grid(g2dir, rt, num_servers=max(s.n, 1), k=s.k, happy=1, n=s.n, max_segment_size=s.maxseg)
                r2 = rt.wait(g2.clients[0].upload(upload.Data(data, convergence=conv)))
                from allmydata import uri as _uri
                si = _uri.from_string(r2.get_uri()).get_storage_index()
                for (_, shnum, path) in g2.share_files(si):
                    ref[shnum] = share_data(path)
                g2.close()
            # pre-existing shares
            if s.pre_servers:
                keep = list(g.broker.servers)
                g.broker.servers[:] = [g.servers[i] for i in s.pre_servers]
                try:
                    rt.wait(c.upload(upload.Data(data, convergence=conv)))
                except Exception:
                    pass
                g.broker.servers[:] = keep
                prng = random.Random(s.seed)
                for (i, shnum, path) in g.share_files(si):
                    if prng.random() < s.pre_delete:
                        os.unlink(path)
                    else:
                        pre_present.add((i, shnum))
            rt.settle()
            # now configure the real run
            c.encoding_params["happy"] = s.happy
            for i in s.readonly:
                g.storage[i].readonly_storage = True
            for i in s.full:
                g.storage[i].get_available_space = lambda: 0
            fired = []
            for i in range(s.num_servers):
                counts = {}
                mine = [(m, nth) for (srv, m, nth) in s.faults if srv == i]

                def fault(methname, args, kwargs, counts=counts, mine=mine, i=i):
                    n = counts.get(methname, 0)
                    counts[methname] = n + 1
                    if (methname, n) in mine:
                        fired.append((i, methname, n))
                        return "error"
                    return None
                g.wrappers[i].fault = fault
            for i in s.broken:
                g.wrappers[i].broken = True
            # instrumentation (observation only)
            rec = {"landlords": None, "servermap": None, "removed": [], "selector_failed": None}
            orig_set = encode.Encoder.set_shareholders
            orig_rm = encode.Encoder._remove_shareholder
            orig_failed = upload.Tahoe2ServerSelector._failed
            encs = []

            def set_sh(self, landlords, servermap):
                rec["landlords"] = {sh: ids[b._server.get_serverid()] if hasattr(b, "_server") else None for sh, b in landlords.items()}
                rec["servermap"] = {sh: sorted(ids[p] for p in ps) for sh, ps in servermap.items()}
                encs.append(self)
                return orig_set(self, landlords, servermap)

            def rm(self, why, shareid, where):
                rec["removed"].append((shareid, where))
                return orig_rm(self, why, shareid, where)

            def failed(self, msg):
                merged = merge_servers(self.peer_selector.get_sharemap_of_preexisting_shares(), self.use_trackers)
                rec["selector_failed"] = {sh: sorted(ids[p] for p in ps) for sh, ps in merged.items()}
                rec["selector_alloc"] = sorted((sh, ids[t.get_serverid()]) for t in self.use_trackers for sh in t.buckets)
                return orig_failed(self, msg)
            encode.Encoder.set_shareholders = set_sh
            encode.Encoder._remove_shareholder = rm
            upload.Tahoe2ServerSelector._failed = failed
            try:
                outcome, res = None, None
                try:
                    res = rt.wait(c.upload(upload.Data(data, convergence=conv)))
                    outcome = "success"
                except UploadUnhappinessError:
                    outcome = "unhappy"
                except grid.Stuck:
                    outcome = "stuck"
                except Exception as e:
                    outcome = "error:" + type(e).__name__
                rt.settle()
            finally:
                encode.Encoder.set_shareholders = orig_set
                encode.Encoder._remove_shareholder = orig_rm
                upload.Tahoe2ServerSelector._failed = orig_failed
            case["fired"] = [list(f) for f in fired]
            case["outcome"] = outcome
            # ---------------- monitor (from the statement, on the real server state)
            disk = {}
            for (i, shnum, path) in g.share_files(si):
                disk.setdefault(shnum, set()).add(i)
                body = share_data(path)
                if shnum not in ref or body != ref[shnum]:
                    ctx.violation("a reader-visible share is incomplete or differs from the correct share bytes",
                                  dict(case, server=i, shnum=shnum), "visible-share-not-complete")
            if outcome == "success":
                usable = {sh: {i for i in srvs if i not in s.broken} for sh, srvs in disk.items()}
                usable = {sh: v for sh, v in usable.items() if v}
                hp = max_matching(usable)
                if hp < s.happy:
                    ctx.violation("upload reported success but the layout on the answering servers has happiness %d < %d" % (hp, s.happy),
                                  dict(case, layout={sh: sorted(v) for sh, v in usable.items()}), "success-but-unhappy")
                for shnum, servers in res.get_sharemap().items():
                    for srv in servers:
                        i = ids[srv.get_serverid()]
                        if i not in disk.get(shnum, ()):
                            ctx.violation("a share reported as placed is not present on the named server",
                                          dict(case, server=i, shnum=shnum), "placed-share-missing")
            elif outcome == "unhappy":
                pass   # every visible share was already checked for completeness above
            elif outcome == "stuck":
                ctx.violation("upload never completed although every server answered or failed", case, "upload-stuck")
            else:
                # Another error class. The statement promises an unhappiness error only "if the threshold
                # cannot be met"; when it could have been met the statement is silent (see DESIGN 8.9: the
                # uploader can die with an AssertionError after allocating one share number on two servers).
                ctx.count("outcome-other:" + outcome)
                answering = [i for i in range(s.num_servers) if i not in s.broken]
                if len(answering) < s.happy:
                    ctx.violation("the threshold could not be met, but the upload failed with %s instead of an unhappiness error" % outcome,
                                  case, "upload-wrong-error:" + outcome)
            if g.incoming_files():
                # not reader-visible, so outside the statement; the model says every bucket writer of a
                # finished upload was closed or aborted, so for success/unhappy this is a model disagreement
                ctx.count("incoming-left-behind:" + outcome)
                if outcome in ("success", "unhappy"):
                    ctx.disagree("bucket writers left open after the upload ended (model: all closed or aborted)", case,
                                 [p for _, p in g.incoming_files()][:3], "none")
            # ---------------- correspondence with the model
            line, want = None, None
            if rec["landlords"] is not None and outcome in ("success", "unhappy"):
                enc = encs[-1]
                sm = rec["servermap"]
                pre_tok = ",".join("%d:%s" % (sh, ".".join(map(str, ps))) for sh, ps in sorted(sm.items())) or "-"
                alloc_tok = ",".join("%d:%d" % (sh, p) for sh, p in sorted(rec["landlords"].items())) or "-"
                phases, closes = [], []
                cur_where = None
                for (sh, where) in rec["removed"]:
                    if where == "close":
                        closes.append("f%d" % sh)
                        continue
                    if where != cur_where:
                        phases.append([])
                        cur_where = where
                    phases[-1].append(sh)
                ph_tok = "/".join(".".join(map(str, p)) for p in phases) or "-"
                line = "up %d %s %s %s %s" % (s.happy, pre_tok, alloc_tok, ph_tok, ",".join(closes) or "-")
                if outcome == "success":
                    final_sm = {sh: sorted(ids[p] for p in ps) for sh, ps in enc.servermap.items()}
                    want = "success placed=%s sm=%s" % (
                        ",".join(map(str, sorted(enc.get_shares_placed()))) or "-",
                        ";".join("%d:%s" % (sh, ".".join(map(str, ps))) for sh, ps in sorted(final_sm.items())) or "-")
                else:
                    want = "unhappy"
            elif rec["selector_failed"] is not None and outcome == "unhappy":
                sm = rec["selector_failed"]
                pre_tok = ",".join("%d:%s" % (sh, ".".join(map(str, ps))) for sh, ps in sorted(sm.items())) or "-"
                alloc_tok = ",".join("%d:%d" % (sh, p) for sh, p in rec["selector_alloc"]) or "-"
                line = "up %d %s %s - -" % (s.happy, pre_tok, alloc_tok)
                want = "unhappy"
            nontrivial = bool(fired or pre_present or outcome != "success" or s.broken or s.readonly or s.full)
            ctx.case(repr(sorted(case.items())) if nontrivial else None)
            ctx.count("outcome:" + outcome)
            ctx.count("faults-fired", len(fired))
            if rec["removed"]:
                ctx.count("uploads-with-removed-shareholder")
            if pre_present:
                ctx.count("uploads-with-preexisting-shares")
            return case, line, want
        finally:
            g.close()


def run(ctx):
    import common
    common.setup_impl_path()
    if ctx.replay and isinstance(ctx.replay.get("case"), dict) and "num_servers" in ctx.replay["case"]:
        d = {k: v for k, v in ctx.replay["case"].items() if k not in ("fired", "outcome", "server", "shnum", "layout", "incoming")}
        scen = [scenario_from(d)]
    else:
        scen = [gen_scenario(ctx.rng) for _ in range(ctx.budget(90, 4000))]
    lines, wants, cases = [], [], []
    for s in scen:
        case, line, want = run_scenario(ctx, s)
        if line:
            lines.append(line)
            wants.append(want)
            cases.append(dict(case, line=line))
    outs = ctx.model(lines)
    if outs is not None:
        for c, w, o in zip(cases, wants, outs):
            got = o if w.startswith("success") and False else o
            # compare outcome, placed set and final servermap (closed/aborted bookkeeping is model-internal)
            if w == "unhappy":
                ok = o.startswith("unhappy")
            else:
                ok = o.startswith(w + " ")
            if not ok:
                ctx.disagree("upload decision (outcome, shares placed, final servermap) for the recorded failure script", c, w, o)
    if cases:
        ctx.sample(cases[0])
    # cross-check of the happiness function handed to the model
    from allmydata.util.happinessutil import servers_of_happiness
    hl, hw, hc = [], [], []
    for _ in range(ctx.budget(300, 5000)):
        sm = {}
        for sh in range(ctx.rng.randrange(0, 7)):
            ps = {ctx.rng.randrange(0, 6) for _ in range(ctx.rng.randrange(1, 4))}
            sm[sh] = ps
        hl.append("hp " + (",".join("%d:%s" % (sh, ".".join(map(str, sorted(ps)))) for sh, ps in sorted(sm.items())) or "-"))
        hw.append(str(servers_of_happiness({sh: set(ps) for sh, ps in sm.items()})))
        hc.append({"sharemap": {sh: sorted(ps) for sh, ps in sm.items()}})
        if int(hw[-1]) != max_matching(sm):
            ctx.violation("servers_of_happiness differs from the maximum matching", hc[-1], "happiness-not-max-matching")
        ctx.case(None)
    ctx.compare("happiness value: happinessutil.servers_of_happiness vs the driver's maximum matching", hc, hw, ctx.model(hl))
