"""C31 — HTTP and direct storage access agree (storage/http_server.py, storage/http_client.py vs storage/server.py).

Three-way replay of seeded client-level histories:
  (D) direct calls on a real StorageServer (allocate_buckets / BucketWriter.write+close / BucketReader.read /
      slot_readv / slot_testv_and_readv_and_writev / get_buckets / enumerate_mutable_shares / add_lease),
  (H) the same operations through StorageClientImmutables / StorageClientMutables / StorageClientGeneral ->
      StubTreq -> HTTPServer -> a twin real StorageServer (same node id, same frozen clock), in-process,
  (M) the Lean driver (client model + server model).
Monitor (the property statement): D and H give the same results and leave byte-identical share files.
Correspondence: H and M give the same results and the same abstract state.
"""
ID = "C31"
LEAN_PROPS = "Tahoe.Props.C31"
DRIVER = "C31"
GENERATED = ["http"]
SOURCES = ["src/allmydata/storage/http_server.py", "src/allmydata/storage/http_client.py", "src/allmydata/storage/server.py",
           "src/allmydata/storage/immutable.py"]
DESIGN_REF = "DESIGN.md §2 C31"
TECHNIQUE = ("Lean 4 theorems over two executable models on one abstract storage state: the direct path (directStep: the "
             "StorageServer calls of server.py / immutable.py, incl. the lease side effect of allocate_buckets) and the HTTP "
             "path (client of http_client.py: request building, base64 secret headers, Range / Content-Range, the zero-length "
             "read variant generated from the live client; authorization gate; handlers of http_server.py; client "
             "interpretation of the answers); three-way differential replay of a fixed corpus and of seeded histories on twin "
             "real StorageServers (direct calls vs StorageClientImmutables/Mutables/General -> HTTPServer in-process) and on "
             "the Lean driver (clientStep through the gate, handledStep behind it, directStep), comparing every result, the "
             "arguments read-test-write arrives with, both servers' abstract state and the share files byte for byte")
LEVEL_TEXT = ("Proved for every state, operation and history of the model: http_path_eq_direct / http_history_eq_direct "
              "(clientStep through client, gate and handler = directStep: same result, same state, any history length), built "
              "from client_request_passes_gate (b64_roundtrip: the lenient decoder reads back b64encode; ASCII is UTF-8), "
              "client_url_is_routed and http_handlers_eq_direct_partial / http_history_eq_direct_partial (the layer behind the "
              "gate); http_read_eq_direct (range reads for every offset and length incl. 0 and past the end; missing shares: "
              "http_read_opt_eq_direct_probe), chunked_upload_eq_single (any chunking / order / overlap of consistent chunks, "
              "completion exactly at full coverage; write_handler_is_upStep), rtw_marshal_roundtrip, "
              "http_allocate_eq_direct_leases / allocate_renews_existing_leases. Both models are tied to the code by the "
              "three-way replay.")
LEVEL_NOTE = ("Lean kernel + standard axioms; werkzeug header codecs, cbor2 and pycddl are assumed interfaces exercised by the "
              "replay; storage container formats are abstracted (C22-C25 cover them). The two repaired defects (04453c5 "
              "zero-length read raised in the client; 187862a zero-length read of a missing share answered b'') are pinned "
              "by zero_length_read_probes and by corpus histories; no open finding.")
RULE = ("a case is one client-level storage operation executed on both real paths and on the driver; the fixed corpus (one "
        "minimal history per seeded mechanism and per repaired defect) runs first and alone under VERIF_CORPUS_ONLY=1; "
        "distinct = distinct (operation, arguments, result) triples; non-trivial = the server holds at least one share, "
        "upload or slot when the operation runs")
TRUSTED = ["lean/Tahoe/Http/{Marshal,Client,Server,Direct}.lean are hand transcriptions of http_client.py / http_server.py / "
           "server.py; that they are is correspondence only (the three-way replay)",
           "the direct path closes a BucketWriter as soon as write() reports completion (what the Foolscap client does "
           "explicitly and the HTTP server does implicitly)",
           "harness/props/c30.py Stack (StubTreq, frozen clock, cputhreadpool disabled); harness/shims RangeMap"]
ASSUMPTIONS = ["hypotheses of the main theorems, each with an example of what the code does outside it: OpOk — clients use the "
               "upload secret they created the upload with (401 otherwise; authorization is C30) and a read-test-write stays "
               "within the CDDL bounds of 30 test vectors, 30 read vectors, 256 shares (400 otherwise; the direct call has no "
               "bound); WireOk — secrets are non-empty and lease secrets 32 bytes long (400 otherwise), the storage index is "
               "rendered canonically (si_b2a), share numbers are below 256 (decimal round trip proved for those)",
               "chunks and bodies <= 64 KiB; mutable shares below MAX_SIZE; disk not full; clock frozen (lease expiry equal on both)",
               "empty chunks are refused on both paths (werkzeug ContentRange / RangeMap.set) and are outside chunked_upload_eq_single",
               "werkzeug Range/ContentRange header codecs, cbor2 and pycddl behave as sampled"]

import os
import shutil

from common import hx, WORK
from props import c30 as H


CORPUS_ONLY = bool(os.environ.get("VERIF_CORPUS_ONLY"))      # run only the fixed corpus (skip the random families)


def rbytes(rng, n):
    return bytes(rng.randrange(256) for _ in range(n))


# ----------------------------------------------------------------------------- the two real paths

class Direct:
    # the abstract view of the state is computed exactly as for the HTTP stack
    abstract = H.Stack.abstract
    open_uploads = H.Stack.open_uploads
    note_allocated = H.Stack.note_allocated

    def __init__(self, name, clock):
        H._prepare()
        from allmydata.storage.server import StorageServer
        self.dir = os.path.join(WORK, name)
        shutil.rmtree(self.dir, ignore_errors=True)
        os.makedirs(self.dir)
        self.ss = StorageServer(self.dir, b"\x00" * 20, clock=clock)
        self.writers = {}
        self.owner = {}

    def close(self):
        for bw in list(self.ss._bucket_writers.values()):
            try:
                bw.abort()
            except Exception:
                pass
        shutil.rmtree(self.dir, ignore_errors=True)

    def run(self, op):
        from allmydata.storage.common import si_a2b
        from allmydata.storage.immutable import ConflictingWriteError
        from allmydata.interfaces import BadWriteEnablerError, DataTooLargeError
        k = op[0]
        si = si_a2b(op[1].encode())
        if k == "c":
            have, ws = self.ss.allocate_buckets(si, bytes.fromhex(op[5]), bytes.fromhex(op[6]), set(op[2]), op[3])
            for n, bw in ws.items():
                self.writers[(op[1], n)] = bw
            self.note_allocated(op[1], list(ws), bytes.fromhex(op[4]))
            return "created:%s/%s" % (H.nats(have), H.nats(ws))
        if k == "w":
            bw = self.writers.get((op[1], op[2]))
            if bw is None:
                return "nowriter"
            try:
                fin = bw.write(op[4], bytes.fromhex(op[5]))
            except ConflictingWriteError:
                return "conflict"
            except DataTooLargeError:
                return "toolarge"
            except ValueError:
                return "emptychunk"       # RangeMap.set(True, offset, offset) refuses an empty range
            if fin:
                bw.close()
                del self.writers[(op[1], op[2])]
                req = []
            else:
                req = [(a, b) for (a, b, _) in bw.required_ranges().ranges()]
            return "progress:%s:%s" % ("T" if fin else "F", ",".join("%d-%d" % r for r in req) or "-")
        if k == "a":
            bw = self.writers.pop((op[1], op[2]), None)
            if bw is None:
                return "nowriter"
            bw.abort()
            return "done"
        if k == "r":
            b = self.ss.get_buckets(si).get(op[2])
            if b is None:
                return "noshare"
            return "data:" + hx(b.read(op[3], op[4]))
        if k == "m":
            d = self.ss.slot_readv(si, [op[2]], [(op[3], op[4])])
            if op[2] not in d:
                return "noshare"
            return "data:" + hx(d[op[2]][0])
        if k == "l":
            return "shares:" + H.nats(self.ss.get_buckets(si).keys())
        if k == "k":
            return "shares:" + H.nats(self.ss.enumerate_mutable_shares(si))
        if k == "e":
            if not list(self.ss.get_shares(si)):
                return "noshares"
            self.ss.add_lease(si, bytes.fromhex(op[2]), bytes.fromhex(op[3]))
            return "done"
        if k == "q":
            rtw = op[5]
            tw = {n: ([(a, b, b"eq", bytes.fromhex(c)) for (a, b, c) in tests], [(a, bytes.fromhex(c)) for (a, c) in writes], nl)
                  for (n, tests, writes, nl) in rtw["tw"]}
            try:
                ok, reads = self.ss.slot_testv_and_readv_and_writev(
                    si, (bytes.fromhex(op[2]), bytes.fromhex(op[3]), bytes.fromhex(op[4])), tw, [tuple(r) for r in rtw["rv"]])
            except BadWriteEnablerError:
                return "badenabler"
            return "rtw:%s:%s" % ("T" if ok else "F", show_reads(reads))
        raise ValueError(op)


def show_reads(reads):
    return ";".join("%d=%s" % (n, "+".join(hx(x) for x in reads[n])) for n in sorted(reads)) or "-"


def run_http(stack, op, recorder):
    """one operation through the real HTTP client; result in the driver's vocabulary"""
    from allmydata.storage.common import si_a2b
    from allmydata.storage.http_client import (StorageClientImmutables, StorageClientMutables, StorageClientGeneral,
                                               ClientException, TestVector, WriteVector, ReadVector, TestWriteVectors)
    imm = StorageClientImmutables(stack.client)
    mut = StorageClientMutables(stack.client)
    k = op[0]
    si = si_a2b(op[1].encode())
    try:
        if k == "c":
            r = stack.wait(imm.create(si, set(op[2]), op[3], bytes.fromhex(op[4]), bytes.fromhex(op[5]), bytes.fromhex(op[6])))
            return "created:%s/%s" % (H.nats(r.already_have), H.nats(r.allocated))
        if k == "w":
            r = stack.wait(imm.write_share_chunk(si, op[2], bytes.fromhex(op[3]), op[4], bytes.fromhex(op[5])))
            req = [(a, b) for (a, b, _) in r.required.ranges()]
            return "progress:%s:%s" % ("T" if r.finished else "F", ",".join("%d-%d" % x for x in req) or "-")
        if k == "a":
            stack.wait(imm.abort_upload(si, op[2], bytes.fromhex(op[3])))
            return "done"
        if k == "r":
            return "data:" + hx(stack.wait(imm.read_share_chunk(si, op[2], op[3], op[4])))
        if k == "m":
            return "data:" + hx(stack.wait(mut.read_share_chunk(si, op[2], op[3], op[4])))
        if k == "l":
            return "shares:" + H.nats(stack.wait(imm.list_shares(si)))
        if k == "k":
            return "shares:" + H.nats(stack.wait(mut.list_shares(si)))
        if k == "e":
            stack.wait(StorageClientGeneral(stack.client).add_or_renew_lease(si, bytes.fromhex(op[2]), bytes.fromhex(op[3])))
            return "done"
        if k == "q":
            rtw = op[5]
            tw = {n: TestWriteVectors(test_vectors=[TestVector(a, b, bytes.fromhex(c)) for (a, b, c) in tests],
                                      write_vectors=[WriteVector(a, bytes.fromhex(c)) for (a, c) in writes], new_length=nl)
                  for (n, tests, writes, nl) in rtw["tw"]}
            recorder.clear()
            r = stack.wait(mut.read_test_write_chunks(si, bytes.fromhex(op[2]), bytes.fromhex(op[3]), bytes.fromhex(op[4]), tw,
                                                      [ReadVector(a, b) for (a, b) in rtw["rv"]]))
            return "rtw:%s:%s" % ("T" if r.success else "F", show_reads(r.reads))
    except ClientException as e:
        return "err:%d" % e.code
    except (ValueError, AssertionError):
        return "clienterror"
    raise ValueError(op)


def canon_http(op, res):
    """map the HTTP client's errors onto the direct path's vocabulary"""
    k = op[0]
    if k == "w" and op[5] == "" and res == "clienterror":
        return "emptychunk"               # werkzeug's ContentRange refuses an empty range: both paths refuse the chunk
    table = {("w", "err:404"): "nowriter", ("w", "err:409"): "conflict", ("w", "err:500"): "toolarge",
             ("a", "err:404"): "nowriter", ("a", "err:405"): "nowriter",
             ("r", "err:404"): "noshare", ("m", "err:404"): "noshare", ("e", "err:404"): "noshares", ("q", "err:401"): "badenabler"}
    return table.get((k, res), res)


def op_token(op):
    k = op[0]
    if k == "c":
        return "c:%s:%s:%d:%s:%s:%s" % (op[1], ",".join(str(x) for x in sorted(set(op[2]))) or "-", op[3], hx(bytes.fromhex(op[4])),
                                        hx(bytes.fromhex(op[5])), hx(bytes.fromhex(op[6])))
    if k == "w":
        return "w:%s:%d:%s:%d:%s" % (op[1], op[2], hx(bytes.fromhex(op[3])), op[4], hx(bytes.fromhex(op[5])))
    if k == "a":
        return "a:%s:%d:%s" % (op[1], op[2], hx(bytes.fromhex(op[3])))
    if k in "rm":
        return "%s:%s:%d:%d:%d" % (k, op[1], op[2], op[3], op[4])
    if k in "lk":
        return "%s:%s" % (k, op[1])
    if k == "e":
        return "e:%s:%s:%s" % (op[1], hx(bytes.fromhex(op[2])), hx(bytes.fromhex(op[3])))
    if k == "q":
        return "q:%s:%s:%s:%s:%s" % (op[1], hx(bytes.fromhex(op[2])), hx(bytes.fromhex(op[3])), hx(bytes.fromhex(op[4])),
                                     H.rtw_token(op[5]))
    raise ValueError(op)


def share_files(ss):
    """relative path -> bytes for everything under the share directory (finished and incoming)"""
    res = {}
    for root, dirs, fs in os.walk(ss.sharedir):
        dirs.sort()
        for f in fs:
            p = os.path.join(root, f)
            with open(p, "rb") as fh:
                res[os.path.relpath(p, ss.sharedir)] = fh.read()
    return res


# ----------------------------------------------------------------------------- generator

class World:
    def __init__(self, rng):
        from allmydata.storage.common import si_b2a
        self.rng = rng
        self.imm = [si_b2a(rbytes(rng, 16)).decode() for _ in range(2)]
        self.mut = [si_b2a(rbytes(rng, 16)).decode() for _ in range(2)]
        self.lease = [rbytes(rng, 32).hex() for _ in range(3)]
        self.up = {s: rbytes(rng, 20).hex() for s in self.imm}
        self.we = {s: rbytes(rng, 32).hex() for s in self.mut}
        self.size = {s: rng.choice([1, 5, 12, 20, 33]) for s in self.imm}
        self.target = {}

    def tgt(self, si, n):
        if (si, n) not in self.target:
            self.target[(si, n)] = rbytes(self.rng, self.size[si])
        return self.target[(si, n)]


def gen_rtw(rng):
    tw = []
    for x in sorted(set(rng.randrange(3) for _ in range(rng.choice([1, 1, 2, 3])))):
        tests = []
        r = rng.random()
        if r < 0.25:
            tests.append([rng.randrange(8), rng.randrange(1, 6), rbytes(rng, rng.randrange(0, 3)).hex()])
        elif r < 0.4:
            tests.append([0, rng.randrange(0, 3), ""])
        writes = [[rng.randrange(14), rbytes(rng, rng.randrange(0, 9)).hex()] for _ in range(rng.choice([0, 1, 1, 2, 3]))]
        nl = rng.choice([None, None, None, None, 0, rng.randrange(1, 14)])
        tw.append([x, tests, writes, nl])
    rv = [[rng.randrange(16), rng.randrange(0, 20)] for _ in range(rng.choice([0, 1, 1, 2]))]
    return {"tw": tw, "rv": rv}


def gen_history(rng, length, zero_ok):
    """mostly-valid histories: the generator keeps a rough picture of which uploads are open / finished"""
    w = World(rng)
    ops = []
    open_up = {}        # (si, n) -> set of covered offsets (approximate)
    done = set()
    slots = set()

    def pick_imm(pool_pref):
        pool = sorted(pool_pref)
        if pool and rng.random() < 0.8:
            return rng.choice(pool)
        return (rng.choice(w.imm), rng.randrange(3))

    for _ in range(length):
        r = rng.random()
        if r < 0.12 or (not open_up and not done and r < 0.5):
            si = rng.choice(w.imm)
            nums = sorted(set(rng.randrange(3) for _ in range(rng.choice([1, 2, 3]))))
            ops.append(["c", si, nums, w.size[si], w.up[si], rng.choice(w.lease), rng.choice(w.lease)])
            for n in nums:
                if (si, n) not in done and (si, n) not in open_up:
                    open_up[(si, n)] = set()
        elif r < 0.42:
            si, n = pick_imm(open_up)
            t = w.tgt(si, n)
            a = rng.randrange(len(t))
            b = rng.randrange(a + 1, len(t) + 1)
            if rng.random() < 0.2:
                a, b = 0, len(t)
            data = t[a:b]
            q = rng.random()
            if q < 0.08:
                data = rbytes(rng, b - a)                 # conflicting bytes (if the range was written before)
            elif q < 0.12:
                data = data + b"xy"                       # beyond the allocated size when it reaches the end
            elif q < 0.15 and zero_ok:
                data = b""                                # empty chunk
            elif (si, n) in open_up:
                open_up[(si, n)] |= set(range(a, b))
                if len(open_up[(si, n)]) == len(t):
                    del open_up[(si, n)]
                    done.add((si, n))
            ops.append(["w", si, n, w.up[si], a, data.hex()])
        elif r < 0.46:
            si, n = pick_imm(open_up)
            open_up.pop((si, n), None)
            ops.append(["a", si, n, w.up[si]])
        elif r < 0.62:
            si, n = pick_imm(done)
            ln = rng.choice([1, 2, 5, 10, 40, 100]) if (rng.random() < 0.93 or not zero_ok) else 0
            ops.append(["r", si, n, rng.randrange(0, 40), ln])
        elif r < 0.74:
            si = rng.choice(sorted(slots)) if (slots and rng.random() < 0.85) else rng.choice(w.mut)
            ln = rng.choice([1, 2, 5, 10, 40]) if (rng.random() < 0.93 or not zero_ok) else 0
            ops.append(["m", si, rng.randrange(3), rng.randrange(0, 20), ln])
        elif r < 0.78:
            ops.append(["l", rng.choice(w.imm)])
        elif r < 0.82:
            ops.append(["k", rng.choice(w.mut)])
        elif r < 0.87:
            ops.append(["e", rng.choice(w.imm + w.mut), rng.choice(w.lease), rng.choice(w.lease)])
        else:
            si = rng.choice(w.mut)
            slots.add(si)
            we = w.we[si] if rng.random() < 0.93 else rbytes(rng, 32).hex()
            ops.append(["q", si, we, rng.choice(w.lease), rng.choice(w.lease), gen_rtw(rng)])
    return ops


CORPUS = [
    # chunked upload in shuffled order, completion on the last missing piece, reads incl. past the end
    [["c", "SI0", [0], 10, "aa", "L0", "L1"], ["w", "SI0", 0, "aa", 6, "06070809"], ["w", "SI0", 0, "aa", 0, "000102"],
     ["r", "SI0", 0, 0, 5], ["w", "SI0", 0, "aa", 2, "02030405"], ["r", "SI0", 0, 0, 5], ["r", "SI0", 0, 8, 10], ["r", "SI0", 0, 10, 3],
     ["r", "SI0", 0, 30, 3], ["l", "SI0"], ["w", "SI0", 0, "aa", 0, "00"], ["a", "SI0", 0, "aa"], ["e", "SI0", "L2", "L0"]],
    # conflicting write, abort, re-create
    [["c", "SI0", [0, 1], 4, "aa", "L0", "L1"], ["w", "SI0", 0, "aa", 0, "0001"], ["w", "SI0", 0, "aa", 1, "ff02"], ["w", "SI0", 0, "aa", 1, "0102"],
     ["a", "SI0", 1, "aa"], ["c", "SI0", [0, 1], 4, "aa", "L0", "L1"], ["w", "SI0", 1, "aa", 2, "0203ff"], ["w", "SI0", 0, "aa", 3, "03"], ["c", "SI0", [0, 2], 4, "aa", "L2", "L1"]],
    # mutable: create, test, truncate, extend with an empty write, delete
    [["q", "SI1", "WE", "L0", "L1", {"tw": [[0, [], [[0, "616263"]], None], [2, [], [[3, "64"]], None]], "rv": [[0, 10]]}],
     ["q", "SI1", "WE", "L0", "L1", {"tw": [[0, [[0, 3, "616263"]], [[1, "5a5a5a5a"]], 4]], "rv": [[0, 10], [2, 1]]}],
     ["m", "SI1", 0, 0, 10], ["m", "SI1", 0, 3, 10], ["m", "SI1", 0, 4, 1], ["m", "SI1", 1, 0, 1], ["k", "SI1"],
     ["q", "SI1", "WE", "L2", "L1", {"tw": [[0, [[0, 1, "00"]], [[0, "ff"]], None]], "rv": []}],
     ["q", "SI1", "XX", "L0", "L1", {"tw": [[0, [], [[0, "ff"]], None]], "rv": []}],
     ["q", "SI1", "WE", "L0", "L1", {"tw": [[2, [], [[9, ""]], None], [0, [], [], 0]], "rv": [[0, 20]]}], ["k", "SI1"], ["m", "SI1", 2, 0, 20],
     ["e", "SI1", "L2", "L2"]],
]


# the input of the repaired finding `zero-length-read` (04453c5): zero-length reads of existing immutable and mutable
# shares, inside, at and past the end — reverting the repair makes the HTTP client raise ValueError here again
CORPUS.append(
    [["c", "SI0", [0], 3, "aa", "L0", "L1"], ["w", "SI0", 0, "aa", 0, "010203"], ["r", "SI0", 0, 1, 0], ["r", "SI0", 0, 0, 0],
     ["r", "SI0", 0, 3, 0], ["r", "SI0", 0, 9, 0],
     ["q", "SI1", "WE", "L0", "L1", {"tw": [[0, [], [[0, "616263"]], None]], "rv": []}], ["m", "SI1", 0, 1, 0], ["m", "SI1", 0, 7, 0]])
# the remaining difference (open finding `zero-length-read-missing-share`): the share / slot does not exist
CORPUS.append(
    [["q", "SI1", "WE", "L0", "L1", {"tw": [[0, [], [[0, "616263"]], None]], "rv": []}], ["m", "SI1", 1, 1, 0], ["r", "SI0", 0, 0, 0],
     ["m", "SI1", 1, 1, 2], ["r", "SI0", 0, 0, 2]])


# the three seeded changes, one minimal history each
# C31-a: the test vector's `size` (not the specimen's length) decides how much is compared: "no share here yet"
#        (offset 0, size 1, specimen b"") must fail on a share that holds data, on both paths
CORPUS.append(
    [["q", "SI1", "WE", "L0", "L1", {"tw": [[0, [], [[0, "616263"]], None]], "rv": []}],
     ["q", "SI1", "WE", "L0", "L1", {"tw": [[0, [[0, 1, ""]], [[0, "5a5a5a5a5a"]], None]], "rv": [[0, 10]]}],
     ["q", "SI1", "WE", "L0", "L1", {"tw": [[0, [[0, 5, "616263"]], [[0, "51"]], None]], "rv": []}],
     ["m", "SI1", 0, 0, 10]])
# C31-b: an empty write beyond the end of the data extends the share with zeros, on both paths
CORPUS.append(
    [["q", "SI1", "WE", "L0", "L1", {"tw": [[0, [], [[0, "6162"]], None]], "rv": []}],
     ["q", "SI1", "WE", "L0", "L1", {"tw": [[0, [], [[7, ""]], None]], "rv": [[0, 20]]}],
     ["m", "SI1", 0, 0, 20], ["q", "SI1", "WE", "L0", "L1", {"tw": [], "rv": [[0, 20]]}]])
# C31-c: allocating again on a storage index that already holds a finished share adds / renews the caller's lease on
#        it, on both paths (the share files are compared byte for byte at the end of the history)
CORPUS.append(
    [["c", "SI0", [0], 2, "aa", "L0", "L1"], ["w", "SI0", 0, "aa", 0, "0102"], ["c", "SI0", [0, 1], 2, "aa", "L2", "L1"],
     ["r", "SI0", 0, 0, 2], ["e", "SI0", "L0", "L2"]])


# completion detection (seed C22-d): strictly back-to-front and tail-first chunk orders — the share is complete, and
# becomes readable, only when the first byte arrives; reads before that find no share
CORPUS.append(
    [["c", "SI0", [0, 1], 6, "aa", "L0", "L1"], ["w", "SI0", 0, "aa", 4, "0405"], ["r", "SI0", 0, 0, 6], ["l", "SI0"],
     ["w", "SI0", 0, "aa", 2, "0203"], ["w", "SI0", 0, "aa", 1, "01"], ["r", "SI0", 0, 4, 2], ["w", "SI0", 0, "aa", 0, "00"],
     ["r", "SI0", 0, 0, 6], ["w", "SI0", 1, "aa", 1, "0102030405"], ["l", "SI0"], ["w", "SI0", 1, "aa", 0, "00"], ["l", "SI0"]])


# seed C31-d: a re-sent chunk that lies entirely inside data already received is still compared with it — altered bytes
# are a conflict (409 / ConflictingWriteError) on both paths, an identical re-send is accepted; the share keeps its bytes
CORPUS.append(
    [["c", "SI0", [0], 6, "aa", "L0", "L1"], ["w", "SI0", 0, "aa", 0, "00010203"], ["w", "SI0", 0, "aa", 1, "ffee"],
     ["w", "SI0", 0, "aa", 1, "0102"], ["w", "SI0", 0, "aa", 0, "00010203"], ["w", "SI0", 0, "aa", 3, "ff"],
     ["w", "SI0", 0, "aa", 4, "0405"], ["r", "SI0", 0, 0, 6]])


def instantiate(corpus_hist, rng):
    from allmydata.storage.common import si_b2a
    names = {"SI0": si_b2a(rbytes(rng, 16)).decode(), "SI1": si_b2a(rbytes(rng, 16)).decode(),
             "L0": rbytes(rng, 32).hex(), "L1": rbytes(rng, 32).hex(), "L2": rbytes(rng, 32).hex(), "WE": rbytes(rng, 32).hex(),
             "XX": rbytes(rng, 32).hex()}
    return [[names.get(x, x) if isinstance(x, str) else x for x in op] for op in corpus_hist]


def classify(op, d, h):
    k = op[0]
    if k in "rm" and op[4] == 0:
        return "zero-length-read-missing-share" if d == "noshare" else "zero-length-read"
    if k == "w" and op[5] == "":
        return "empty-chunk-write"
    return "result-mismatch-" + {"c": "create", "w": "write", "a": "abort", "r": "read", "m": "mread", "l": "list", "k": "mlist",
                                 "e": "lease", "q": "rtw"}[k]


# ----------------------------------------------------------------------------- one history on all three paths

def run_history(ctx, ops):
    """returns (http results line, driver line, record of rtw argument pairs)"""
    clock = H.make_clock()
    stack = H.Stack("c31h-%d" % os.getpid(), b"sw", clock=clock)
    direct = Direct("c31d-%d" % os.getpid(), clock)
    recorder = []
    orig = stack.ss.slot_testv_and_readv_and_writev

    def recording(si, secrets, tw, rv, *a, **kw):
        recorder.append((si, tuple(secrets), tw, rv))
        return orig(si, secrets, tw, rv, *a, **kw)
    stack.ss.slot_testv_and_readv_and_writev = recording
    outs, douts = [], []
    diverged = False
    try:
        for i, op in enumerate(ops):
            for v in ([op[4], op[5], op[6]] if op[0] == "c" else [op[2], op[3]] if op[0] == "e" else [op[3], op[4]] if op[0] == "q" else []):
                H.KNOWN_SECRETS.add(bytes.fromhex(v))
            before = stack.abstract()
            d = direct.run(op)
            if op[0] == "w" and op[5] == "" and d == "nowriter":
                d = "emptychunk"          # an empty chunk is refused on both paths, whether or not an upload exists
            douts.append(d)
            h = run_http(stack, op, recorder)
            if op[0] == "c" and h.startswith("created:"):
                alloc = h.split(":")[1].split("/")[1]
                if alloc != "-":
                    stack.note_allocated(op[1], [int(x) for x in alloc.split(",")], bytes.fromhex(op[4]))
            outs.append(h)
            nontrivial = before != "adv=0"
            ctx.case((op[0], repr(op[2:]), h) if nontrivial else None)
            ctx.count("op:%s:%s" % (op[0], h.split(":")[0] if not h.startswith("err") else h))
            if diverged:
                continue
            sub = {"kind": "hist", "ops": ops[:i + 1]}
            if op[0] == "w" and op[5] == "" and d == "nowriter":
                d = "emptychunk"          # an empty chunk is refused on both paths, whether or not an upload exists
            if canon_http(op, h) != d:
                ctx.violation("HTTP path and direct call disagree: direct=%s http=%s" % (d[:80], h[:80]), sub, classify(op, d, h),
                              detail={"direct": d, "http": h})
                if not (op[0] in "rm" and op[4] == 0):     # a read changes nothing: the two servers are still in step
                    diverged = True
                continue
            if op[0] == "q" and recorder:
                # what the storage server behind HTTP was called with == what the direct caller passed
                (_, secrets, tw, rv) = recorder[0]
                rtw = op[5]
                want_tw = {n: ([(a, b, b"eq", bytes.fromhex(c)) for (a, b, c) in tests], [(a, bytes.fromhex(c)) for (a, c) in writes], nl)
                           for (n, tests, writes, nl) in rtw["tw"]}
                got_tw = {n: ([tuple(t) for t in v[0]], [tuple(x) for x in v[1]], v[2]) for n, v in tw.items()}
                if got_tw != want_tw or [tuple(r) for r in rv] != [tuple(r) for r in rtw["rv"]] or \
                        secrets != (bytes.fromhex(op[2]), bytes.fromhex(op[3]), bytes.fromhex(op[4])):
                    ctx.violation("read-test-write arguments changed on the way through HTTP", sub, "rtw-marshalling")
                    diverged = True
                ctx.count("rtw-args-checked")
        if not diverged:
            fd, fh = share_files(direct.ss), share_files(stack.ss)
            if fd != fh:
                diff = sorted(set(k for k in set(fd) | set(fh) if fd.get(k) != fh.get(k)))
                ctx.violation("share files differ between the direct and the HTTP server: %s" % diff[:3], {"kind": "hist", "ops": ops},
                              "share-files-differ")
            ctx.count("files-compared", len(fd))
        final = stack.abstract()
        dfinal = direct.abstract()
    finally:
        stack.ss.slot_testv_and_readv_and_writev = orig
        stack.close()
        direct.close()
    return (" ".join(outs) + " || " + final, "hist " + " ".join(op_token(op) for op in ops),
            " ".join(douts) + " || " + dfinal)


def run(ctx):
    H._prepare()
    hists = []
    if ctx.replay:
        c = ctx.replay["case"]
        hists = [c["ops"]]
    else:
        import random
        fixed = random.Random("C31-fixed-corpus")            # the corpus does not depend on VERIF_SEED
        for ch in CORPUS:
            hists.append(instantiate(ch, fixed))
        ctx.count("corpus-histories", len(CORPUS))
        for i in range(0 if CORPUS_ONLY else ctx.budget(220, 4000)):
            # zero-length reads / empty chunks are a known divergence: give them their own share of histories
            hists.append(gen_history(ctx.rng, ctx.rng.choice([10, 25, 45]), zero_ok=(i % 5 == 0)))
    impls, lines, cases, dimpls = [], [], [], []
    for ops in hists:
        out, line, dout = run_history(ctx, ops)
        impls.append(out)
        lines.append(line)
        dimpls.append(dout)
        cases.append({"kind": "hist", "ops": ops})
    model = ctx.model(lines)
    ctx.compare("client-level history: StorageClient*->HTTPServer (real) vs driver (every result, final state)", cases, impls, model)
    # the HTTP path behind the gate (`handledStep`, the object of the theorem http_handlers_eq_direct) prints the same
    model = ctx.model(["h" + l for l in lines])
    ctx.compare("client-level history: StorageClient*->HTTPServer (real) vs handledStep", cases, impls, model)
    # the direct path: real StorageServer calls vs `directStep` (results mapped onto the direct vocabulary)
    model = ctx.model(["d" + l for l in lines])
    if model is not None:
        mapped = []
        for ops, m in zip(hists, model):
            res, st = m.split(" || ")
            mapped.append(" ".join(canon_http(op, r) for op, r in zip(ops, res.split(" "))) + " || " + st)
        ctx.compare("client-level history: direct StorageServer calls (real) vs directStep (every result, final state)",
                    cases, dimpls, mapped)
    # function level: the read path on one share, all offsets/lengths around the end
    rl, ri, rc = [], [], []
    if not ctx.replay and not CORPUS_ONLY:
        rl, ri, rc = read_grid(ctx)
        model = ctx.model(rl)
        ctx.compare("read_share_chunk on a finished share (offset x length grid) vs httpRead", rc, ri, model)
    if hists:
        ctx.sample({"ops": [op_token(o)[:80] for o in hists[0][:6]], "http": impls[0][:300]})


def read_grid(ctx):
    """every (offset, length) around the end of an immutable and a mutable share, HTTP vs direct vs model"""
    from allmydata.storage.common import si_b2a, si_a2b
    from allmydata.storage.http_client import StorageClientImmutables, StorageClientMutables, ClientException, TestWriteVectors, WriteVector
    rng = ctx.rng
    lines, impl, cases = [], [], []
    clock = H.make_clock()
    stack = H.Stack("c31g-%d" % os.getpid(), b"sw", clock=clock)
    try:
        imm = StorageClientImmutables(stack.client)
        mut = StorageClientMutables(stack.client)
        for size in ([1, 7] if ctx.tier != "thorough" else [1, 2, 7, 16, 40]):
            data = rbytes(rng, size)
            si = rbytes(rng, 16)
            stack.wait(imm.create(si, {0}, size, b"u", b"r" * 32, b"c" * 32))
            stack.wait(imm.write_share_chunk(si, 0, b"u", 0, data))
            msi = rbytes(rng, 16)
            stack.wait(mut.read_test_write_chunks(msi, b"w" * 32, b"r" * 32, b"c" * 32,
                                                  {0: TestWriteVectors(write_vectors=[WriteVector(0, data)])}, []))
            for off in range(0, size + 3):
                for ln in range(0, size + 4):
                    for kind in ("r", "m"):
                        try:
                            got = stack.wait((imm if kind == "r" else mut).read_share_chunk(si if kind == "r" else msi, 0, off, ln))
                            res = "data:" + hx(got)
                        except ClientException as e:
                            res = "err:%d" % e.code
                        except (ValueError, AssertionError):
                            res = "clienterror"
                        want = data[off:off + ln]
                        case = {"kind": "read", "share": kind, "data": data.hex(), "offset": off, "length": ln}
                        if res != "data:" + hx(want):
                            ctx.violation("read_share_chunk(offset=%d, length=%d) over HTTP gives %s, the share holds %s there" % (
                                off, ln, res, hx(want)), case, "zero-length-read" if ln == 0 else "read-wrong-data")
                        lines.append("read %s %d %d" % (hx(data), off, ln))
                        impl.append(res)
                        cases.append(case)
                        ctx.case(("grid", kind, size, off, ln))
        # a share that does not exist: every (offset, length) must surface as 404 like the direct paths' missing entry
        for off in (0, 3):
            for ln in (0, 1, 5):
                for kind in ("r", "m"):
                    try:
                        got = stack.wait((imm if kind == "r" else mut).read_share_chunk(si if kind == "r" else msi, 9, off, ln))
                        res = "data:" + hx(got)
                    except ClientException as e:
                        res = "err:%d" % e.code
                    except (ValueError, AssertionError):
                        res = "clienterror"
                    case = {"kind": "read-missing", "share": kind, "offset": off, "length": ln}
                    if res != "err:404":
                        ctx.violation("read_share_chunk(offset=%d, length=%d) of a share that does not exist gives %s over HTTP; "
                                      "the direct paths have no such share" % (off, ln, res), case,
                                      "zero-length-read-missing-share" if ln == 0 else "missing-share-read")
                    lines.append("readmissing %d %d" % (off, ln))
                    impl.append(res)
                    cases.append(case)
                    ctx.case(("grid-missing", kind, off, ln))
        ctx.count("read-grid", len(lines))
    finally:
        stack.close()
    return lines, impl, cases
