"""C04 — random-access and concurrent immutable reads."""
ID = "C04"
LEAN_PROPS = "Tahoe.Props.C04"
DRIVER = "C04"
GENERATED = ["immutable"]
SOURCES = ["src/allmydata/immutable/downloader/node.py", "src/allmydata/immutable/downloader/segmentation.py",
           "src/allmydata/immutable/filenode.py", "src/allmydata/immutable/literal.py", "src/allmydata/util/spans.py"]
DESIGN_REF = "DESIGN.md §2 C04"
TECHNIQUE = ("Lean 4 theorems over the C01 pipeline model extended with DownloadNode.read clipping, the Segmentation loop "
             "(guessed vs actual segment size, overlap trimming, the single retry), DecryptingConsumer counter positioning, "
             "LiteralFileNode slicing, the node's shared request queue, byte-level readers under arbitrary delivery schedules, "
             "and a data refinement of the C03/C46 composed system (DownloadNode queue + fetchers + any number of "
             "Segmentations, imported) to those readers. Differential correspondence of the get_segment call sequence, chunks "
             "written and plaintext against real nodes on an in-process grid (fresh and warmed nodes, seeded delivery), of "
             "DecryptingConsumer against the keystream model, of real Segmentation._got_segment under arbitrary deliveries "
             "(feedAll), of the real request queue (get_segment / _cancel_request / process_blocks), and of 1-4 overlapping "
             "reads with pause/resume/stop from inside and from outside write(). A fixed corpus runs first; "
             "implementation-side monitor against bytes slicing")
LEVEL_TEXT = ("read_slice_rs256 (zfec's code, no assumption on the erasure code) and read_slice (codec-parametric): every "
              "read(offset,size) returns exactly the slice, for all offsets, sizes (None included), guessed/known segment "
              "size; ctr_offset / ctr_stream_chunks for all keystreams; read_slice_literal; concurrent reads, safety half: "
              "concurrent_reads_safe (every schedule of genuine deliveries to any number of readers) and reads_refine (every "
              "history of the composed node+reads system of C03/C46: each byte a consumer receives is the byte at that read's "
              "own position; pause/resume/turn/stop deliver nothing); queue facts: concurrent_reads_independent_partial.  "
              "Not proved: liveness (every live reader eventually completes) - C03/C46.")
LEVEL_NOTE = ("Lean kernel + standard axioms; erasure code = C36's rs256 (MDS law proved there), AES-CTR a parameter; the "
              "composed system Tahoe.Fetch.Sys is tied to the real plumbing by the C46 harness, the byte-level reader and the "
              "queue by this harness; completion of concurrent reads is monitored, not proved.")
RULE = ("fixed corpus first (independent of VERIF_SEED; VERIF_CORPUS_ONLY=1 stops here): literal reads for every "
        "(offset,size) shape incl. size 0; on one node: cancel of one of several readers waiting for the same segment, "
        "pause/resume from outside write() with the segment arriving during the pause, a lone reader stopped from outside "
        "with requests in flight followed by new reads, stopped / repeated / concurrent reads from the end offset of a "
        "completed read. Then: one case = one read(offset,size) on a real LiteralFileNode / ImmutableFileNode (sequential: "
        "fresh or warmed node, offsets preferring the end of earlier reads, some consumers stopping at the first write; "
        "concurrent: 2-4 overlapping reads with scripted pause/resume/stop inside write(); external: 1-4 reads driven at "
        "arbitrary scheduler steps), one DecryptingConsumer run, one queue-operation history, or one arbitrary-delivery "
        "history of real Segmentation objects; offsets and sizes concentrated on segment and 16-byte boundaries, EOF, past "
        "EOF, size None; distinct = distinct (file, offset, size, node state, script, seed); non-trivial = the requested "
        "range is non-empty")
TRUSTED = ["lean/Tahoe/Immutable/Pipeline.lean (clipRead, overlap, gotSegment, segLoop, ReaderState.deliver, feed, feedAll, "
           "decryptAt, litRead) is a hand transcription of DownloadNode.read, spans.overlap, Segmentation._fetch_next/"
           "_got_segment/_retry_bad_segment, DecryptingConsumer and LiteralFileNode.read; lean/Tahoe/Immutable/NodeQueue.lean "
           "of DownloadNode.get_segment/_start_new_segment/_extract_requests/_cancel_request and the success branch of "
           "process_blocks",
           "lean/Tahoe/Immutable/Segmentation.lean + Fetch.lean (C03/C46 builder's Seg / Node / Sys models, imported by "
           "reads_refine; tied to the code by the C46 harness)",
           "harness/grid.py (in-process grid, seeded scheduler, virtual clock)"]
ASSUMPTIONS = ["offsets and sizes are non-negative ints (the web layer validates ranges: C40)",
               "after any answered get_segment the node knows the real segment size (the UEB is fetched before a segment or a "
               "BadSegmentNumberError is delivered)",
               "every DownloadNode.read creates a fresh Segmentation for a range clipped to the file (hypothesis HistOk of "
               "reads_refine)",
               "delivery orders are those of a fair scheduler (see C01); liveness is not claimed here",
               "servers honest and available; AES-CTR = xor with a keystream; zfec's C code computes the rs256 model"]

import random

from common import hx


def keystream(key, n):
    from allmydata.crypto import aes
    return aes.encrypt_data(aes.create_encryptor(key), b"\x00" * n)


def boundary_points(rng, size, seg):
    pts = {0, 1, size, size - 1, size + 1, size + 17, max(0, size - 16)}
    for m in (seg, 16):
        if m > 0:
            for j in range(0, 4):
                q = rng.randrange(0, size // m + 2) * m
                pts |= {q - 1, q, q + 1}
    pts |= {rng.randrange(0, size + 3) for _ in range(4)}
    return sorted(p for p in pts if p >= 0)


def gen_range(rng, size, seg):
    pts = boundary_points(rng, size, seg)
    off = rng.choice(pts)
    r = rng.random()
    if r < 0.15:
        return off, None
    if r < 0.25:
        return off, rng.choice([0, 1, size, size + 5])
    end = rng.choice(pts)
    if end < off:
        off, end = (end, off) if rng.random() < 0.8 else (off, off + rng.randrange(0, 40))
    return off, end - off


class ScriptedConsumer:
    """IConsumer that pauses / resumes / stops its producer at scripted byte counts."""

    def __init__(self, rt, script):
        from zope.interface import directlyProvides
        from twisted.internet.interfaces import IConsumer
        directlyProvides(self, IConsumer)
        self.rt = rt
        self.script = list(script)     # [(threshold_bytes, "pause", delay) | (threshold_bytes, "stop")]
        self.chunks = []
        self.total = 0
        self.producer = None
        self.stopped = False
        self.unregistered = False
        self.actions = 0

    def registerProducer(self, p, streaming):
        self.producer = p
        self.streaming = streaming

    def unregisterProducer(self):
        self.unregistered = True

    def write(self, data):
        from twisted.internet import reactor
        self.chunks.append(data)
        self.total += len(data)
        while self.script and self.total >= self.script[0][0] and not self.stopped:
            act = self.script.pop(0)
            self.actions += 1
            if act[1] == "pause":
                self.producer.pauseProducing()
                reactor.callLater(act[2], self._resume)
            elif act[1] == "stop":
                self.stopped = True
                self.producer.stopProducing()

    def _resume(self):
        if not self.stopped and not self.unregistered:
            self.producer.resumeProducing()


class PassiveConsumer:
    """IConsumer that only records; pause / resume / stop are applied from outside write() by the harness"""

    def __init__(self):
        from zope.interface import directlyProvides
        from twisted.internet.interfaces import IConsumer
        directlyProvides(self, IConsumer)
        self.chunks = []
        self.producer = None
        self.unregistered = False
        self.stopped = False
        self.paused = False
        self.actions = 0
        self.result = None

    def registerProducer(self, p, streaming):
        self.producer = p

    def unregisterProducer(self):
        self.unregistered = True

    def write(self, data):
        self.chunks.append(data)

    def live(self):
        return self.producer is not None and not self.unregistered and not self.stopped and self.result is None

    def act(self, what):
        if not self.live():
            return
        if what == "pause" and not self.paused:
            self.paused = True
            self.actions += 1
            self.producer.pauseProducing()
        elif what == "resume" and self.paused:
            self.paused = False
            self.actions += 1
            self.producer.resumeProducing()
        elif what == "stop":
            self.stopped = True
            self.actions += 1
            self.producer.stopProducing()


def drive(rt, consumers, schedule, max_steps=400000, horizon=4000.0):
    """Pump the runtime one scheduler step at a time and apply `schedule` = [(step, reader, action)] when the step
    counter reaches each entry (immediately if the system goes quiet first).  Ends when every reader has a result;
    returns False if readers are still unfinished after the schedule is exhausted, nothing is deliverable and the
    virtual clock has been advanced past `horizon` seconds (storage crawlers re-arm timers forever, so quiescence
    alone never happens)."""
    schedule = sorted(schedule, key=lambda a: a[0])
    steps = 0
    t_end = None
    while True:
        while schedule and schedule[0][0] <= steps:
            _, j, what = schedule.pop(0)
            consumers[j].act(what)
        if all(c.result is not None for c in consumers) and not schedule:
            rt.settle()
            return True
        steps += 1
        if steps > max_steps:
            return False
        if rt.step():
            continue
        if schedule:                       # quiet: bring the next scripted action forward
            steps = schedule[0][0]
            continue
        if any(c.paused and c.live() for c in consumers):
            for c in consumers:            # never leave a live reader paused forever
                c.act("resume")
            continue
        calls = rt.clock.getDelayedCalls()
        if not calls:
            return False
        if t_end is None:
            t_end = rt.clock.seconds() + horizon
        nxt = min(cl.getTime() for cl in calls)
        if nxt > t_end:
            return False
        rt.clock.advance(max(0, nxt - rt.clock.seconds()))


def model_events(m):
    """'3:r,3:10,4:7;HEX' -> (segnums, chunk lens, hex)"""
    ev, _, out = m.partition(";")
    segs, lens = [], []
    if ev not in ("-", ""):
        for e in ev.split(","):
            s, _, l = e.partition(":")
            segs.append(int(s))
            if l != "r":
                lens.append(int(l))
    return segs, lens, out


def run_ctr(ctx):
    """DecryptingConsumer vs the keystream model; monitor: decrypting ct[off:off+n] positioned at off gives pt[off:off+n]."""
    from allmydata.immutable.filenode import DecryptingConsumer
    from allmydata.crypto import aes
    from allmydata.util.consumer import MemoryConsumer
    rng = ctx.rng
    lines, impl, metas = [], [], []
    for i in range(ctx.budget(250, 4000)):
        key = bytes(rng.randrange(256) for _ in range(16))
        size = rng.choice([0, 1, 15, 16, 17, 31, 32, 33, 100, rng.randrange(0, 400)])
        pt = bytes(rng.randrange(256) for _ in range(size))
        ct = aes.encrypt_data(aes.create_encryptor(key), pt)
        off = rng.choice([0, 1, 15, 16, 17, 31, 32, 33, 47, 48, 49, rng.randrange(0, size + 20)])
        n = rng.choice([0, 1, 15, 16, 17, 32, size, rng.randrange(0, size + 20)])
        piece = ct[off:off + n]
        mc = MemoryConsumer()
        dc = DecryptingConsumer(mc, key, off)
        # feed in one to three writes (one decryptor, several writes)
        cuts = sorted(rng.randrange(0, len(piece) + 1) for _ in range(rng.randrange(0, 3)))
        prev = 0
        for c in cuts + [len(piece)]:
            dc.write(piece[prev:c])
            prev = c
        got = b"".join(mc.chunks)
        case = {"kind": "ctr", "key": key.hex(), "pt": pt.hex(), "off": off, "n": n, "cuts": cuts}
        if got != pt[off:off + n]:
            ctx.violation("DecryptingConsumer positioned at offset does not recover the plaintext slice", case,
                          "ctr-offset-mod16=%d" % (off % 16))
        ks = keystream(key, off + len(piece) + 16)
        lines.append("ctr %d %s %s" % (off, hx(ks), hx(piece)))
        impl.append(hx(got))
        metas.append(case)
        ctx.case(("ctr", off, n, len(cuts)) if piece else None)
        ctx.count("ctr:off%16=" + ("0" if off % 16 == 0 else "15" if off % 16 == 15 else "mid"))
    model = ctx.model(lines)
    if model is not None:
        ctx.compare("DecryptingConsumer (counter = offset//16, skip offset%16) vs keystream model", metas, impl, model)


def run_lit_corpus(ctx):
    """fixed corpus for literal files: every (offset, size) shape incl. an explicit size of 0 before EOF (seeded C04-e),
    size None, sizes past EOF, offsets at and past EOF"""
    from allmydata.immutable.literal import LiteralFileNode
    from allmydata import uri
    from allmydata.util.consumer import MemoryConsumer
    lines, impl, metas = [], [], []
    for data in (b"", b"a", b"hello", bytes(range(55))):
        size = len(data)
        for off in sorted({0, 1, 2, size // 2, max(0, size - 1), size, size + 1, size + 7}):
            for sz in (0, None, 1, 2, size, size + 5):
                node = LiteralFileNode(uri.LiteralFileURI(data))
                mc = MemoryConsumer()
                box = []
                node.read(mc, off, sz).addBoth(box.append)
                got = b"".join(mc.chunks)
                want = data[off:] if sz is None else data[off:off + sz]
                case = {"kind": "lit-corpus", "data": data.hex(), "off": off, "size": sz}
                if not box or box[0] is not mc or got != want:
                    ctx.violation("LiteralFileNode.read does not deliver the requested slice", case,
                                  "lit-slice-" + ("none" if sz is None else "size0" if sz == 0 else "past-eof" if off >= size else
                                                  "clip" if off + sz > size else "inside"),
                                  {"got_len": len(got), "want_len": len(want)})
                lines.append("lit %s %d %s" % (hx(data), off, "N" if sz is None else sz))
                impl.append(hx(got))
                metas.append(case)
                ctx.case(("litC", data.hex(), off, sz) if want else None)
    ctx.count("corpus:lit", len(lines))
    model = ctx.model(lines)
    if model is not None:
        ctx.compare("LiteralFileNode.read vs litRead (fixed corpus)", metas, impl, model)


def run_lit(ctx):
    from allmydata.immutable.literal import LiteralFileNode
    from allmydata import uri
    from allmydata.util.consumer import MemoryConsumer
    rng = ctx.rng
    lines, impl, metas = [], [], []
    for i in range(ctx.budget(300, 5000)):
        size = rng.choice([0, 1, 2, 16, 17, 54, 55, rng.randrange(0, 56)])
        data = bytes(rng.randrange(256) for _ in range(size))
        off, sz = gen_range(rng, size, 16)
        node = LiteralFileNode(uri.LiteralFileURI(data))
        mc = MemoryConsumer()
        box = []
        node.read(mc, off, sz).addBoth(box.append)
        got = b"".join(mc.chunks)
        case = {"kind": "lit", "data": data.hex(), "off": off, "size": sz}
        want = data[off:] if sz is None else data[off:off + sz]
        if not box or box[0] is not mc or got != want:
            ctx.violation("LiteralFileNode.read does not deliver the requested slice", case,
                          "lit-slice-" + ("none" if sz is None else "past-eof" if off >= size else "clip" if off + sz > size else "inside"))
        lines.append("lit %s %d %s" % (hx(data), off, "N" if sz is None else sz))
        impl.append(hx(got))
        metas.append(case)
        ctx.case(("lit", size, off, sz) if want else None)
        ctx.count("lit:" + ("none" if sz is None else "past-eof" if off >= size else "clip" if off + sz > size else "inside"))
    model = ctx.model(lines)
    if model is not None:
        ctx.compare("LiteralFileNode.read vs litRead", metas, impl, model)


FILES = [  # (size, k, n, maxSeg)
    (56, 3, 10, 21), (200, 2, 3, 32), (333, 3, 5, 48), (1000, 1, 2, 100), (4097, 4, 6, 1024), (129, 2, 2, 64), (640, 5, 7, 16),
    (3000, 3, 10, 1048576),
]


def fresh_node(c, cap):
    from allmydata import uri
    return c.nodemaker._create_immutable(uri.from_string(cap))


def wrap_get_segment(node):
    """make the DownloadNode, record every get_segment(segnum); returns (dnode, list)"""
    node._cnode._maybe_create_download_node()
    dn = node._cnode._node
    calls = []
    if not hasattr(dn, "_c04_wrapped"):
        orig = dn.get_segment

        def get_segment(segnum, logparent=None):
            dn._c04_calls.append(segnum)
            return orig(segnum, logparent)
        dn.get_segment = get_segment
        dn._c04_wrapped = True
    dn._c04_calls = calls
    return dn, calls


def run_reads(ctx):
    import grid
    from allmydata.immutable import upload
    from allmydata.interfaces import DownloadStopped
    from allmydata.immutable.downloader.node import DownloadNode
    from allmydata.util.consumer import MemoryConsumer
    from twisted.internet import defer
    rng = ctx.rng
    thorough = ctx.tier == "thorough"
    defmax = DownloadNode.default_max_segment_size
    lines, impl, metas = [], [], []
    plines, pimpl, pmetas = [], [], []
    files = list(FILES)
    for _ in range(ctx.budget(4, 40)):
        k = rng.randrange(1, 6)
        ms = rng.choice([16, 17, 31, 32, 48, 100, 255])
        seg = -(-ms // k) * k
        files.append((rng.choice([2, 3, 5]) * seg + rng.choice([-1, 0, 1, 7]), k, rng.randrange(k, k + 4), ms))
    replay = ctx.replay.get("case") if ctx.replay else None
    for fi, (size, k, n, max_seg) in enumerate(files):
        size = max(56, size)
        seed = rng.randrange(1 << 30)
        drng = random.Random(seed)
        data = bytes(drng.randrange(256) for _ in range(size))
        seg = -(-min(max_seg, size) // k) * k
        with grid.Runtime(seed=seed, policy=rng.choice(["random", "random", "fifo"])) as rt:
            g = grid.Grid(grid.fresh_dir("c04"), rt, num_servers=rng.randrange(max(1, min(n, 3)), n + 2), num_clients=1,
                          k=k, happy=1, n=n, max_segment_size=max_seg)
            try:
                c = g.clients[0]
                res = rt.wait(c.upload(upload.Data(data, convergence=b"c04" + b"\x00" * 13)))
                cap = res.get_uri()
                from allmydata import uri
                ks = keystream(uri.from_string(cap).key, size)
                # ---------------- sequential reads: fresh node (guess) and warmed node (actual segment size)
                warm = fresh_node(c, cap)
                rt.wait(warm.read(MemoryConsumer(), 0, 1))
                ends = [1]          # end offsets of reads that ran to completion on the warm node
                for ri in range(ctx.budget(60, 400)):
                    off, sz = gen_range(rng, size, seg)
                    use_warm = rng.random() < 0.5
                    if use_warm and rng.random() < 0.4:
                        off = rng.choice(ends)          # continue exactly where an earlier read of this node ended
                        sz = rng.choice([None, 1, 7, seg, rng.randrange(0, size + 2)])
                    node = warm if use_warm else fresh_node(c, cap)
                    if use_warm and rng.random() < 0.3:
                        # a consumer that stops after its first write: whatever it got must be a prefix of its slice
                        sc = ScriptedConsumer(rt, [(1, "stop")])
                        want = data[off:] if sz is None else data[off:off + sz]
                        case = {"kind": "read-stopped", "file": [size, k, n, max_seg], "seed": seed, "off": off, "size": sz}
                        try:
                            rt.wait(node.read(sc, off, sz))
                            if want and not sc.stopped:
                                ctx.violation("a read whose consumer stops at its first write ended without a write", case, "stop-no-write")
                        except DownloadStopped:
                            pass
                        except Exception as ex:
                            ctx.violation("read with a stopping consumer failed", case, "read-stopped-failed-" + type(ex).__name__)
                        if not want.startswith(b"".join(sc.chunks)):
                            ctx.violation("a stopped reader received bytes that are not a prefix of its slice", case,
                                          "stopped-read-not-prefix")
                        ctx.count("read:stopped-after-first-write")
                        ctx.case(("RS", fi, off, sz, seed) if want else None)
                        continue
                    dn, calls = wrap_get_segment(node)
                    known = dn.segment_size is not None
                    mc = MemoryConsumer()
                    case = {"kind": "read", "file": [size, k, n, max_seg], "seed": seed, "off": off, "size": sz, "warm": use_warm}
                    try:
                        r = rt.wait(node.read(mc, off, sz))
                        got = b"".join(mc.chunks)
                        ok = r is mc
                    except Exception as ex:
                        got, ok = None, False
                        ctx.violation("read(offset,size) failed or hung", case, "read-failed-" + type(ex).__name__, repr(ex)[:300])
                    want = data[off:] if sz is None else data[off:off + sz]
                    cls = ("none" if sz is None else "empty" if sz == 0 else "past-eof" if off >= size else
                           "clip" if off + sz > size else "inside")
                    if got is not None and (got != want or not ok):
                        ctx.violation("read(offset,size) does not deliver the requested slice", case,
                                      "read-slice-%s-%s" % (cls, "known" if known else "guessed"),
                                      {"got_len": len(got), "want_len": len(want)})
                    if got is not None and use_warm and ok:
                        ends.append(off + len(got))
                    if got is not None:
                        lines.append("read %d %d %d %d %d %s %s %s" % (k, max_seg, defmax, 1 if known else 0, off,
                                                                        "N" if sz is None else sz, hx(ks), hx(data)))
                        impl.append("%s|%s|%s" % (",".join(map(str, calls)), ",".join(str(len(x)) for x in mc.chunks), hx(got)))
                        metas.append(case)
                    ctx.case(("R", fi, off, sz, known, seed) if want else None)
                    ctx.count("read:" + cls)
                    ctx.count("read:" + ("known" if known else "guessed"))
                    if len(calls) > len(mc.chunks):
                        ctx.count("read:retried")
                # ---------------- concurrent reads on one node
                for ci in range(ctx.budget(14, 80)):
                    m = rng.randrange(2, 5)
                    use_warm = rng.random() < 0.4
                    node = warm if use_warm else fresh_node(c, cap)
                    dn, calls = wrap_get_segment(node)
                    known = dn.segment_size is not None
                    readers = []
                    for j in range(m):
                        off, sz = gen_range(rng, size, seg)
                        script = []
                        want = data[off:] if sz is None else data[off:off + sz]
                        for _ in range(rng.randrange(0, 4)):
                            th = rng.randrange(1, len(want) + 2)
                            if rng.random() < 0.25:
                                script.append((th, "stop"))
                            else:
                                script.append((th, "pause", rng.choice([0, 0.1, 1.0, 30.0])))
                        script.sort(key=lambda a: a[0])
                        readers.append((off, sz, script, want))
                    case = {"kind": "concurrent", "file": [size, k, n, max_seg], "seed": seed, "warm": use_warm,
                            "readers": [[o, s, [list(a) for a in sc]] for (o, s, sc, _) in readers]}
                    cons = [ScriptedConsumer(rt, sc) for (_, _, sc, _) in readers]
                    results = [None] * m
                    ds = []
                    for j, (off, sz, sc, want) in enumerate(readers):
                        d = node.read(cons[j], off, sz)
                        d.addBoth(lambda r, j=j: results.__setitem__(j, r))
                        ds.append(d)
                    try:
                        rt.wait(defer.DeferredList(ds))
                    except Exception as ex:
                        ctx.violation("concurrent reads hung", case, "concurrent-hang-" + type(ex).__name__, repr(ex)[:200])
                    for j, (off, sz, sc, want) in enumerate(readers):
                        cj = cons[j]
                        got = b"".join(cj.chunks)
                        r = results[j]
                        from twisted.python.failure import Failure
                        if cj.stopped:
                            ctx.count("concurrent:stopped")
                            if not want.startswith(got):
                                ctx.violation("a stopped reader received bytes that are not a prefix of its slice", case,
                                              "concurrent-stopped-not-prefix", {"reader": j})
                            if not (isinstance(r, Failure) and r.check(DownloadStopped)):
                                ctx.violation("a stopped read did not end with DownloadStopped", case, "concurrent-stopped-result",
                                              {"reader": j, "result": repr(r)[:200]})
                        else:
                            ctx.count("concurrent:completed")
                            if r is None:
                                ctx.violation("a live reader never finished while others paused/stopped", case,
                                              "concurrent-live-hang", {"reader": j})
                            elif isinstance(r, Failure):
                                ctx.violation("a live reader failed while others paused/stopped", case,
                                              "concurrent-live-failed-" + r.type.__name__, {"reader": j, "err": repr(r.value)[:200]})
                            elif got != want:
                                ctx.violation("a concurrent reader did not receive its own slice", case,
                                              "concurrent-wrong-slice", {"reader": j, "got_len": len(got), "want_len": len(want)})
                        if (cj.producer is not None) and not cj.unregistered:
                            ctx.violation("producer never unregistered", case, "concurrent-not-unregistered", {"reader": j})
                        # chunk boundaries of this reader vs the model's plan (prefix for stopped readers)
                        if want:
                            plines.append("plan %d %d %d %d %d %d %s" % (size, k, seg, -(-min(size, defmax) // k) * k,
                                                                         1 if known else 0, off, "N" if sz is None else sz))
                            pimpl.append((cj.stopped, [len(x) for x in cj.chunks]))
                            pmetas.append(dict(case, reader=j))
                        ctx.case(("C", fi, ci, j, off, sz, repr(sc), seed) if want else None)
                    ctx.count("concurrent:readers=%d" % m)
                    ctx.count("concurrent:script-actions", sum(cj.actions for cj in cons))
                # ---------------- 1-4 reads whose pause / resume / stop come from OUTSIDE write(), at arbitrary scheduler steps
                for ei in range(ctx.budget(16, 80)):
                    m = rng.randrange(1, 5)
                    use_warm = rng.random() < 0.4
                    node = warm if use_warm else fresh_node(c, cap)
                    dn, calls = wrap_get_segment(node)
                    known = dn.segment_size is not None
                    readers, schedule = [], []
                    for j in range(m):
                        off, sz = gen_range(rng, size, seg)
                        readers.append((off, sz, data[off:] if sz is None else data[off:off + sz]))
                        t = 0
                        for _ in range(rng.randrange(0, 5)):
                            t += rng.choice([0, 1, 2, 3, 5, 8, 13, 21, 40, 80, rng.randrange(0, 200)])
                            if rng.random() < 0.12:
                                schedule.append((t, j, "stop"))
                                break
                            schedule.append((t, j, "pause"))
                            t += rng.choice([1, 2, 3, 5, 8, 13, 21, 40, 80, 150, 400, rng.randrange(1, 300)])
                            schedule.append((t, j, "resume"))
                    case = {"kind": "external", "file": [size, k, n, max_seg], "seed": seed, "warm": use_warm,
                            "readers": [[o, s_] for (o, s_, _) in readers], "schedule": [list(a) for a in schedule]}
                    cons = [PassiveConsumer() for _ in readers]
                    for j, (off, sz, want) in enumerate(readers):
                        d = node.read(cons[j], off, sz)
                        d.addBoth(lambda r, j=j: setattr(cons[j], "result", r if r is not None else True))
                    finished = drive(rt, cons, schedule)
                    from twisted.python.failure import Failure
                    for j, (off, sz, want) in enumerate(readers):
                        cj = cons[j]
                        got = b"".join(cj.chunks)
                        r = cj.result
                        if cj.stopped:
                            ctx.count("external:stopped")
                            if not want.startswith(got):
                                ctx.violation("a stopped reader received bytes that are not a prefix of its slice", case,
                                              "external-stopped-not-prefix", {"reader": j})
                            if not (isinstance(r, Failure) and r.check(DownloadStopped)):
                                ctx.violation("a stopped read did not end with DownloadStopped", case, "external-stopped-result",
                                              {"reader": j, "result": repr(r)[:200]})
                        else:
                            ctx.count("external:completed")
                            if r is None:
                                ctx.violation("a reader paused/resumed from outside write() never finished", case,
                                              "external-live-hang", {"reader": j, "got_len": len(got), "want_len": len(want)})
                            elif isinstance(r, Failure):
                                ctx.violation("a reader paused/resumed from outside write() (or a reader beside it) failed", case,
                                              "external-live-failed-" + r.type.__name__,
                                              {"reader": j, "err": repr(r.value)[:200], "got_len": len(got), "want_len": len(want)})
                            elif got != want:
                                ctx.violation("a reader paused/resumed from outside write() did not receive its own slice", case,
                                              "external-wrong-slice", {"reader": j, "got_len": len(got), "want_len": len(want)})
                            elif cj.producer is not None and not cj.unregistered:
                                ctx.violation("producer never unregistered", case, "external-not-unregistered", {"reader": j})
                        if want and not isinstance(r, Failure) or (want and cj.stopped):
                            plines.append("plan %d %d %d %d %d %d %s" % (size, k, seg, -(-min(size, defmax) // k) * k,
                                                                         1 if known else 0, off, "N" if sz is None else sz))
                            pimpl.append((cj.stopped, [len(x) for x in cj.chunks]))
                            pmetas.append(dict(case, reader=j))
                        ctx.case(("E", fi, ei, j, off, sz, repr(schedule), seed) if want else None)
                    if not finished:
                        ctx.count("external:drive-gave-up")
                    ctx.count("external:readers=%d" % m)
                    ctx.count("external:actions", sum(cj.actions for cj in cons))
            finally:
                g.close()
    model = ctx.model(lines)
    if model is not None:
        m2 = []
        for m in model:
            segs, lens, out = model_events(m)
            m2.append("%s|%s|%s" % (",".join(map(str, segs)), ",".join(map(str, lens)), out))
        ctx.compare("sequential read: get_segment calls | chunks written | plaintext", metas, impl, m2)
    pmodel = ctx.model(plines)
    if pmodel is not None:
        for case, (stopped, lens), m in zip(pmetas, pimpl, pmodel):
            _, mlens, _ = model_events(m)
            if (mlens[:len(lens)] != lens) if stopped else (mlens != lens):
                ctx.disagree("concurrent read: chunk boundaries of one reader vs the model's plan", case, lens, mlens)
    if metas:
        ctx.sample({"read": metas[0], "impl": impl[0][:200]})
    if pmetas:
        ctx.sample({"concurrent": pmetas[0], "chunks": pimpl[0][1][:10]})


def run_queue(ctx):
    """the node's shared request queue: real get_segment / _cancel_request / process_blocks (success branch) on a bare
    DownloadNode (no shares, decode stubbed) vs the NodeQueue model; monitor: pending requests => an active fetch for a
    wanted segment; cancel removes only its own request; a delivery fires exactly the requests for that segment"""
    import grid
    from twisted.internet import defer
    from allmydata import uri
    from allmydata.immutable.downloader.node import DownloadNode
    from allmydata.immutable.downloader.status import DownloadStatus
    rng = ctx.rng

    class Finder:
        def hungry(self):
            pass

        def stop(self):
            pass

    lines, impl, metas = [], [], []
    with grid.Runtime(seed=rng.randrange(1 << 30), policy="fifo") as rt:
        for _ in range(ctx.budget(150, 3000)):
            dn = object.__new__(DownloadNode)
            dn._verifycap = uri.CHKFileVerifierURI(b"s" * 16, b"u" * 32, 3, 10, 1000)
            dn._segment_requests, dn._active_segment, dn._shares = [], None, set()
            dn._sharefinder, dn._download_status, dn._lp = Finder(), DownloadStatus(b"s" * 16, 1000), None
            dn._si_prefix = b"x"
            dn.num_segments, dn.segment_size = 10, 100
            dn._decode_blocks = lambda segnum, blocks: defer.succeed((b"seg%d" % segnum, 0.0))
            dn._check_ciphertext_hash = lambda res, segnum: (segnum * 100, res[0], res[1])
            handles = {}     # handle -> (cancel object, fired list)
            ops, outs = [], []
            nexth = 0
            for _ in range(rng.randrange(1, 14)):
                r = rng.random()
                fired = []
                live = [h for h, (c, f) in handles.items() if c.active]
                if r < 0.5 or not handles:
                    s = rng.randrange(0, 4)
                    h = nexth
                    nexth += 1
                    d, c = dn.get_segment(s)
                    box = []
                    d.addBoth(lambda res, h=h: fired_now.append(h))
                    handles[h] = (c, box)
                    ops.append("g:%d:%d" % (s, h))
                    fired_now = []
                elif r < 0.75:
                    if dn._active_segment is None:
                        continue
                    fired_now = []
                    dn.process_blocks(dn._active_segment.segnum, {})
                    rt.settle()
                    fired = sorted(fired_now)
                    ops.append("d")
                else:
                    h = rng.choice(live) if live and rng.random() < 0.8 else rng.choice(list(handles))
                    was_active = handles[h][0].active
                    before = [(t[0], id(t[2])) for t in dn._segment_requests]
                    handles[h][0].cancel()
                    after = [(t[0], id(t[2])) for t in dn._segment_requests]
                    if after != [x for x in before if x[1] != id(handles[h][0])]:
                        ctx.violation("cancelling one request changed another reader's requests", {"kind": "queue", "ops": ops + ["c:%d" % h]},
                                      "queue-cancel-not-own")
                    if not was_active:
                        continue          # Cancel.cancel() is a no-op the second time; the model is not asked
                    ops.append("c:%d" % h)
                    fired_now = []
                hmap = {id(c): h for h, (c, f) in handles.items()}
                reqs = ",".join("%d.%d" % (t[0], hmap[id(t[2])]) for t in dn._segment_requests) or "-"
                act = "N" if dn._active_segment is None else str(dn._active_segment.segnum)
                outs.append("%s|%s|%s" % (act, reqs, ",".join(map(str, fired)) or "-"))
                case = {"kind": "queue", "ops": list(ops)}
                if dn._segment_requests and dn._active_segment is None:
                    ctx.violation("requests pending but no active fetch", case, "queue-stalled")
                if dn._active_segment is not None and dn._active_segment.segnum not in [t[0] for t in dn._segment_requests]:
                    ctx.violation("active fetch for a segment nobody wants", case, "queue-active-unwanted")
                ctx.case(("Q",) + tuple(ops))
                ctx.count("queue:" + ops[-1][0])
            if ops:
                lines.append("queue " + " ".join(ops))
                impl.append(";".join(outs))
                metas.append({"kind": "queue", "ops": ops})
    model = ctx.model(lines)
    if model is not None:
        ctx.compare("DownloadNode request queue (active segnum | requests | handles fired) after every operation", metas, impl, model)


def run_feed(ctx):
    """real Segmentation objects handed arbitrary genuine segments in arbitrary order (`_got_segment` called directly,
    WrongSegmentError = nothing written) vs the model's feedAll; monitor: every reader's output stays a prefix of its
    own slice and equals it once nothing is wanted any more"""
    from allmydata.immutable.downloader.segmentation import Segmentation
    from allmydata.immutable.downloader.common import WrongSegmentError
    rng = ctx.rng

    class VC:
        pass

    class Node:
        _si_prefix = b"x"

    class Ev:
        def update(self, *a):
            pass

    class Cons:
        def __init__(self):
            self.chunks = []

        def write(self, d):
            self.chunks.append(d)

    lines, impl, metas = [], [], []
    for _ in range(ctx.budget(250, 4000)):
        seg = rng.choice([1, 3, 4, 7, 16, 32])
        size = rng.choice([1, seg, seg + 1, 2 * seg, 3 * seg - 1, rng.randrange(1, 6 * seg + 2)])
        ct = bytes(rng.randrange(256) for _ in range(size))
        nseg = -(-size // seg)
        node = Node()
        node._verifycap = VC()
        node._verifycap.size = size
        m = rng.randrange(1, 5)
        ranges, segs, cons = [], [], []
        for j in range(m):
            off = rng.randrange(0, size + 1)
            sz = rng.randrange(0, size - off + 1)
            ranges.append((off, sz))
            cj = Cons()
            sg = Segmentation(node, off, sz, cj, Ev(), None)
            sg._alive, sg._hungry = True, False          # paused: _got_segment writes, but no follow-up fetch
            segs.append(sg)
            cons.append(cj)
        events = []
        for _ in range(rng.randrange(0, 4 * nseg + 3)):
            j = rng.randrange(m)
            # mostly the segment the reader needs next, sometimes any segment (fetched for someone else / wrong guess)
            s = segs[j]._offset // seg if rng.random() < 0.6 else rng.randrange(0, nseg + 1)
            if s >= nseg:
                continue
            events.append((j, s))
            try:
                segs[j]._got_segment((s * seg, ct[s * seg:(s + 1) * seg], 0.0), s)
            except WrongSegmentError:
                pass
            got = b"".join(cons[j].chunks)
            want = ct[ranges[j][0]:ranges[j][0] + ranges[j][1]]
            case = {"kind": "feed", "seg": seg, "ct": ct.hex(), "ranges": ranges, "events": list(events)}
            if not want.startswith(got) or (segs[j]._size == 0 and got != want):
                ctx.violation("a reader handed genuine segments wrote bytes outside its own slice", case, "feed-not-own-slice")
        lines.append("feedall %d %s %s %s" % (seg, hx(ct), ",".join("%d+%d" % r for r in ranges),
                                              ",".join("%d:%d" % e for e in events) or "-"))
        impl.append(";".join("%d,%d,%s" % (sg._offset, sg._size, hx(b"".join(cj.chunks))) for sg, cj in zip(segs, cons)))
        metas.append({"kind": "feed", "seg": seg, "ct": ct.hex(), "ranges": ranges, "events": events})
        ctx.case(("feed", seg, ct.hex(), repr(ranges), repr(events)) if events else None)
        ctx.count("feed:readers=%d" % m)
    model = ctx.model(lines)
    if model is not None:
        ctx.compare("Segmentation._got_segment under arbitrary deliveries to m readers vs feedAll", metas, impl, model)


CORPUS_FILES = [(200, 2, 3, 32), (333, 3, 5, 48)]      # (size, k, n, maxSeg): 32- and 48-byte segments


def run_resume_corpus(ctx):
    """Fixed corpus, run first: on ONE node object, a read completes ending at offset X; then
      (a) a read from X is stopped by its consumer after its first write and X is read again,
      (b) X is read to completion and then read again,
      (c) two / three reads starting at X run concurrently;
    for X on and off segment and AES-block boundaries and several delivery policies.  Every delivered byte is compared
    with the plaintext slice (statement: each read returns exactly its slice, whatever other reads did or do)."""
    import grid
    from twisted.internet import defer
    from allmydata.immutable import upload
    from allmydata.interfaces import DownloadStopped
    from allmydata.util.consumer import MemoryConsumer

    def check(case, what, sig, got, want, exact=True):
        if (got != want) if exact else (not want.startswith(got)):
            first = next((i for i, (a, b) in enumerate(zip(got, want)) if a != b), min(len(got), len(want)))
            ctx.violation(what, case, sig, {"got_len": len(got), "want_len": len(want), "first_diff": first})

    for fi, (size, k, n, max_seg) in enumerate(CORPUS_FILES):
        seg = -(-max_seg // k) * k
        data = bytes((i * 7 + (i >> 5) * 13 + 3) % 256 for i in range(size))
        for policy, seed in (("fifo", 1), ("random", 2), ("random", 3)):
            with grid.Runtime(seed=seed, policy=policy) as rt:
                g = grid.Grid(grid.fresh_dir("c04c"), rt, num_servers=n, num_clients=1, k=k, happy=1, n=n, max_segment_size=max_seg)
                try:
                    c = g.clients[0]
                    cap = rt.wait(c.upload(upload.Data(data, convergence=b"c04" + b"\x00" * 13))).get_uri()
                    # --- readers driven from OUTSIDE write(): (d) one of several readers waiting for the same segment is
                    #     cancelled while the request is outstanding -- the others must still get their slices;
                    #     (e) a reader is paused while its request is in flight, the segment arrives during the pause, it
                    #     is resumed when the system has gone quiet -- it must complete with exactly its slice
                    from twisted.python.failure import Failure
                    for shape, ranges, schedule in (
                            ("cancel-sibling-at-0", [(0, None), (3, 50), (0, 40)], [(0, 0, "stop")]),
                            ("cancel-sibling-at-4", [(seg + 1, 60), (seg + 2, None)], [(4, 0, "stop")]),
                            ("cancel-two-of-three", [(0, None), (1, None), (2, seg + 9)], [(0, 0, "stop"), (2, 1, "stop")]),
                            ("pause-in-flight-at-0", [(0, None)], [(0, 0, "pause"), (10 ** 5, 0, "resume")]),
                            ("pause-in-flight-at-3", [(seg + 5, 3 * seg), (0, 20)], [(3, 0, "pause"), (10 ** 5, 0, "resume")]),
                            ("pause-twice", [(5, None), (7, None)], [(0, 0, "pause"), (40, 0, "resume"), (41, 0, "pause"),
                                                                       (10 ** 5, 0, "resume"), (2, 1, "pause"), (10 ** 5, 1, "resume")])):
                        node = fresh_node(c, cap)
                        case = {"kind": "outside-corpus", "file": [size, k, n, max_seg], "policy": policy, "seed": seed,
                                "shape": shape, "ranges": [list(r) for r in ranges], "schedule": [list(a) for a in schedule]}
                        cons = [PassiveConsumer() for _ in ranges]
                        for j, (off, sz) in enumerate(ranges):
                            d = node.read(cons[j], off, sz)
                            d.addBoth(lambda r, j=j: setattr(cons[j], "result", r if r is not None else True))
                        drive(rt, cons, list(schedule))
                        for j, (off, sz) in enumerate(ranges):
                            want = data[off:] if sz is None else data[off:off + sz]
                            got = b"".join(cons[j].chunks)
                            r = cons[j].result
                            if cons[j].stopped:
                                check(dict(case, reader=j), "a stopped reader received bytes that are not a prefix of its slice",
                                      "corpus-stopped-not-prefix", got, want, exact=False)
                            elif r is None:
                                ctx.violation("a reader never finished after another reader was cancelled / after being paused "
                                              "and resumed from outside write()", dict(case, reader=j), "corpus-live-hang:" + shape.split("-")[0],
                                              {"got_len": len(got), "want_len": len(want)})
                            elif isinstance(r, Failure):
                                ctx.violation("a live reader failed after a sibling's cancel / its own outside pause-resume",
                                              dict(case, reader=j), "corpus-live-failed:%s:%s" % (shape.split("-")[0], r.type.__name__),
                                              repr(r.value)[:200])
                            else:
                                check(dict(case, reader=j), "a live reader did not receive exactly its slice", "corpus-live-wrong-slice",
                                      got, want)
                        ctx.case(("OC", fi, policy, seed, shape))
                        ctx.count("corpus:" + shape)
                    # --- (f) a lone reader is stopped from outside write() while its share requests are in flight (no other
                    #     reader has a request queued); afterwards another read on the SAME node object -- a new one, or a
                    #     paused sibling that is resumed -- must still complete with its slice (seeded C04-d)
                    for stop_at in (1, 2, 3, 4, 5, 6, 8, 10, 13, 17, 22):
                        for shape in ("stop-alone-then-new-read", "stop-while-sibling-paused"):
                            node = fresh_node(c, cap)
                            case = {"kind": "stop-then-read-corpus", "file": [size, k, n, max_seg], "policy": policy, "seed": seed,
                                    "shape": shape, "stop_at": stop_at}
                            if shape == "stop-alone-then-new-read":
                                first = [PassiveConsumer()]
                                d = node.read(first[0], 0, None)
                                d.addBoth(lambda r, cj=first[0]: setattr(cj, "result", r if r is not None else True))
                                drive(rt, first, [(stop_at, 0, "stop")])
                                follow = [(0, None), (seg + 3, 40)]
                                cons = [PassiveConsumer() for _ in follow]
                                for j, (off, sz) in enumerate(follow):
                                    d = node.read(cons[j], off, sz)
                                    d.addBoth(lambda r, j=j: setattr(cons[j], "result", r if r is not None else True))
                                drive(rt, cons, [], max_steps=60000, horizon=600.0)
                                checks = list(zip(cons, follow))
                            else:
                                ranges = [(0, None), (2, None)]
                                cons = [PassiveConsumer() for _ in ranges]
                                for j, (off, sz) in enumerate(ranges):
                                    d = node.read(cons[j], off, sz)
                                    d.addBoth(lambda r, j=j: setattr(cons[j], "result", r if r is not None else True))
                                drive(rt, cons, [(0, 1, "pause"), (stop_at, 0, "stop"), (10 ** 5, 1, "resume")], max_steps=160000, horizon=600.0)
                                checks = [(cons[1], ranges[1])]
                            for cj, (off, sz) in checks:
                                want = data[off:] if sz is None else data[off:off + sz]
                                got = b"".join(cj.chunks)
                                if cj.result is None:
                                    ctx.violation("a read on a node hangs after an earlier read on the same node was stopped from "
                                                  "outside write() with requests in flight", case, "corpus-hang-after-outside-stop",
                                                  {"got_len": len(got), "want_len": len(want)})
                                elif isinstance(cj.result, Failure):
                                    ctx.violation("a read on a node fails after an earlier read on the same node was stopped",
                                                  case, "corpus-failed-after-outside-stop:" + cj.result.type.__name__)
                                else:
                                    check(case, "a read after an outside stop did not receive exactly its slice",
                                          "corpus-wrong-slice-after-outside-stop", got, want)
                            ctx.case(("SC", fi, policy, seed, shape, stop_at))
                            ctx.count("corpus:" + shape)
                    for X in (seg, 2 * seg, seg + 5, 17, 16, 3 * seg - 1, size - 9):
                        for shape in ("stop-then-reread", "read-then-reread", "concurrent-2", "concurrent-3"):
                            node = fresh_node(c, cap)
                            case = {"kind": "resume-corpus", "file": [size, k, n, max_seg], "policy": policy, "seed": seed,
                                    "X": X, "shape": shape}
                            a = min(X, 20)
                            mc = MemoryConsumer()
                            try:
                                rt.wait(node.read(mc, X - a, a))             # a read that completes, ending at X
                                check(case, "the first read does not deliver its slice", "corpus-first-read", b"".join(mc.chunks),
                                      data[X - a:X])
                                if shape == "stop-then-reread":
                                    sc = ScriptedConsumer(rt, [(1, "stop")])
                                    try:
                                        rt.wait(node.read(sc, X, None))
                                    except DownloadStopped:
                                        pass
                                    check(case, "a stopped reader received bytes that are not a prefix of its slice",
                                          "corpus-stopped-not-prefix", b"".join(sc.chunks), data[X:], exact=False)
                                    for sz in (None, 40, 7):
                                        m2 = MemoryConsumer()
                                        rt.wait(node.read(m2, X, sz))
                                        check(case, "reading again from the offset where a stopped read started returns wrong bytes",
                                              "reread-after-stopped-read", b"".join(m2.chunks), data[X:] if sz is None else data[X:X + sz])
                                elif shape == "read-then-reread":
                                    for sz in (33, 33, None, 5):
                                        m2 = MemoryConsumer()
                                        rt.wait(node.read(m2, X, sz))
                                        check(case, "reading the same offset twice on one node returns different / wrong bytes",
                                              "reread-same-offset", b"".join(m2.chunks), data[X:] if sz is None else data[X:X + sz])
                                else:
                                    sizes = [None, 40, 7][: int(shape[-1])]
                                    cons = [MemoryConsumer() for _ in sizes]
                                    ds = [node.read(cj, X, sz) for cj, sz in zip(cons, sizes)]
                                    rt.wait(defer.DeferredList(ds, consumeErrors=True))
                                    for j, (cj, sz) in enumerate(zip(cons, sizes)):
                                        check(dict(case, reader=j), "concurrent reads from one offset on one node do not each get their slice",
                                              "concurrent-same-offset", b"".join(cj.chunks), data[X:] if sz is None else data[X:X + sz])
                            except Exception as ex:
                                ctx.violation("a corpus read failed or hung", case, "corpus-read-failed-" + type(ex).__name__, repr(ex)[:200])
                            ctx.case(("RC", fi, policy, seed, X, shape))
                            ctx.count("corpus:" + shape)
                finally:
                    g.close()


def run(ctx):
    import common
    common.setup_impl_path()
    import grid  # noqa: F401
    import os
    # fixed corpus first (independent of VERIF_SEED): cancel of one of several readers waiting for the same segment
    # (seeded C04-a), pause/resume from outside write() with the segment arriving during the pause (C04-b), stopped /
    # repeated / concurrent reads from the end offset of a completed read on one node (C04-c)
    run_lit_corpus(ctx)
    run_resume_corpus(ctx)
    if os.environ.get("VERIF_CORPUS_ONLY"):
        return
    run_feed(ctx)
    run_queue(ctx)
    run_ctr(ctx)
    run_lit(ctx)
    run_reads(ctx)
