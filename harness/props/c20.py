"""C20 — directory edits behave like a name map (dirnode.py: update_metadata, Adder, Deleter,
MetadataSetter, move_child_to, normalize of names)."""
ID = "C20"
LEAN_PROPS = "Tahoe.Props.C20"
DRIVER = "C20"
GENERATED = []
SOURCES = ["src/allmydata/dirnode.py"]
DESIGN_REF = "DESIGN.md §2 C20"
TECHNIQUE = ("Lean 4 theorems over an executable model of the directory edit layer: refines_map (any op history over any "
             "number of directories = folds of map updates keyed by the normalized name, results and errors included), "
             "names_equal_up_to_normalization, metadata_rules (update_metadata key by key), no_overwrite_never_replaces, "
             "only_files_never_replaces_dir, failed_rename_keeps_old_link, rename_never_loses_child, "
             "linkcrtime_preserved_linkmotime_now, linkmotime_monotone, retries_refine_map (the modifier retry loop with "
             "first_time=False); differential correspondence of seeded op histories on real DirectoryNodes over the "
             "in-process grid with a virtual clock (result / error of every operation and the full listing of every "
             "directory after every operation) and of Deleter.modify through the retry loop; implementation-side monitor "
             "against a Python dict reference, incl. two-writer scenarios")
LEVEL_TEXT = ("10 theorems proved in Lean for all histories, all directories, every idempotent normalize: refinement to a "
              "name->(child, metadata) map, the metadata rules, the overwrite-mode, rename and timestamp clauses, and the "
              "refinement over modifier retries (Deleter's `first_time and must_exist`; Adder and MetadataSetter ignore "
              "first_time, so the no-overwrite / only-files refusals apply to re-read contents too).  The model is tied to "
              "dirnode.py by comparing, after every operation of seeded histories on real directories, the result or error "
              "and the complete listing (names, kinds, write and read caps, metadata incl. tahoe.linkcrtime/linkmotime), "
              "and by calling the real Deleter.modify(contents, None, first_time) on real contents.  Monitor only: what a "
              "publish collision between two uncoordinated holders of the write cap does to the shares (lost edit, "
              "ExistingChildError from the writer's own partial write; counted, C12's subject) — there the monitor demands "
              "only that a no-overwrite / only-files add never replaces an existing entry and that nothing foreign appears; "
              "sequential two-holder histories must be a name map in full.")
LEVEL_NOTE = ("Lean kernel + standard axioms; model hand-written, tied by correspondence; normalize is a parameter with the "
              "hypothesis norm∘norm = norm (sampled for unicodedata NFC); a stored child is its (kind, write cap, read cap) "
              "— its re-creation from the stored caps is C19/C16; uploads (add_file) and directory creation are inputs.")
RULE = ("seeded histories (<=30 ops; longer in thorough) over 3 real mutable directories (each reachable through a "
        "write handle and a read-only handle) of set_node/set_uri/set_children/set_nodes/add_file/create_subdirectory/"
        "delete/set_metadata_for/move_child_to/get/has_child/get_metadata_for with overwrite in {True, False, ONLY_FILES}, "
        "names from a pool with NFC-equivalent and colliding spellings, children of every cap kind incl. unknown caps; "
        "a case is one operation; distinct = distinct (op kind, flags, target-existed, kind of the existing child, result); "
        "non-trivial = the target directory is non-empty before the op; plus two-writer scenarios (two clients, separate "
        "node objects of one dircap, each adding one link under the same / an NFC-equivalent / a different name with "
        "overwrite in {False, ONLY_FILES, True}, optionally over an existing file or directory entry; seeded random "
        "delivery order, and forced interleavings where one writer's publish requests are held back until the other's "
        "add completed — there the monitor demands what the statement says outright (a no-overwrite add never replaces "
        "an entry, also on the retry path; an only-files add never replaces a directory; nothing appears that nobody "
        "wrote) and only counts lost edits of colliding uncoordinated writers —, and sequential modes (the second holder "
        "starts after the first finished) where a name map is demanded in full), judged by the monitor only; plus, on the contents of the first 12 "
        "histories, Deleter.modify applied as the retry loop applies it (first_time=True, then False on re-read contents with "
        "and without the child) for every flag combination, compared with the model")
TRUSTED = ["lean/Tahoe/Dir/Edit.lean is a hand transcription of dirnode.py's modifiers and DirectoryNode edit methods "
           "(dict as association list; metadata 'tahoe' key as a separate field; node = kind + write cap + read cap + error flag; "
           "the retry loop of MutableFileVersion.modify as a list of re-read contents)",
           "harness/grid.py (in-process grid, virtual clock) and the canonicalisation of listings in harness/props/c20.py"]
ASSUMPTIONS = ["normalize is idempotent (checked for every name used: NFC(NFC(x)) == NFC(x))",
               "the op histories are single-writer (the real modifiers run with first_time=True there); the retry branch is "
               "modelled and tied separately (retries_refine_map / delretry); share-level outcomes of colliding writers are "
               "not modelled",
               "for known nodes is_readonly() <=> get_write_uri() is None (checked for every node used)",
               "metadata 'tahoe' values are dicts (the edit operations never store anything else)"]

import json
import os
import unicodedata

import common
from common import hx

BASE = 1_700_000_000.0

NAMES = ["a", "b", "c", "\u00e9", "e\u0301", "\u212b", "\u00c5", "A\u030a", "\u00f1", "n\u0303", "\ud55c",
         "\u1112\u1161\u11ab", "\uf900", "\u8c48", "x/y", " a", "a ", "", "\u01c4", "\u1e9b\u0323", "\u017f\u0323\u0307",
         "Z" * 40, "\u0104\u0301", "A\u0328\u0301", "q\u0307\u0323", "q\u0323\u0307"]


def nfc(s):
    return unicodedata.normalize("NFC", s)


def nm(s):
    return hx(s.encode("utf-8"))


# ------------------------------------------------------------------ canonical forms (shared syntax with Drv/C20.lean)

def show_val(v):
    if v is None:
        return "n"
    if isinstance(v, float) and v >= BASE and v == int(v):
        return "t%d" % int(v - BASE)
    return "o%d%s" % (1 if v else 0, json.dumps(v, sort_keys=True).encode().hex())


def show_dict(d):
    return ",".join("%s=%s" % (k.encode().hex() or "-", show_val(d[k])) for k in sorted(d)) or "-"


def show_meta(md):
    """metadata dict -> `<user>!<tahoe|X>`; keys sorted"""
    if md is None:
        return "N"
    user = {k: v for k, v in md.items() if k != "tahoe"}
    if "tahoe" in md:
        t = md["tahoe"]
        return show_dict(user) + "!" + (show_dict(t) if isinstance(t, dict) else "-")
    return show_dict(user) + "!X"


def node_kind(n):
    from allmydata.interfaces import IDirectoryNode, IFileNode
    if IDirectoryNode.providedBy(n):
        return "d"
    if IFileNode.providedBy(n):
        return "f"
    return "u"


def show_node(n, err=False):
    rw, ro = n.get_write_uri(), n.get_readonly_uri()
    return "%s.%s.%s.%d" % (node_kind(n), rw.hex() if rw is not None else "-", ro.hex() if ro is not None else "-", 1 if err else 0)


def canon_meta(t):
    if t == "N":
        return t
    u, th = t.split("!")
    srt = lambda d: d if d in ("-", "X") else ",".join(sorted(d.split(",")))
    return srt(u) + "!" + srt(th)


def canon_dir(t):
    if t == "-":
        return t
    es = []
    for e in t.split(";"):
        n, nd, md = e.split("~")
        es.append((n, "~".join([n, nd, canon_meta(md)])))
    return ";".join(e[1] for e in sorted(es))


def canon_out(tok):
    """model output token `res#dump` with dict keys and entries sorted"""
    res, dump = tok.split("#")
    if res.startswith("md:"):
        res = "md:" + canon_meta(res[3:])
    return res + "#" + "|".join(canon_dir(d) for d in dump.split("|"))


ERRS = {"NotWriteableError": "NotWriteable", "ExistingChildError": "ExistingChild", "NoSuchChildError": "NoSuchChild",
        "ChildOfWrongTypeError": "ChildOfWrongType", "MustNotBeUnknownRWError": "CapError",
        "MustBeDeepImmutableError": "CapError", "MustBeReadonlyError": "CapError", "KeyError": "KeyError",
        "AssertionError": "Assertion"}


# ------------------------------------------------------------------ generation (symbolic, replayable)

def cap_pool():
    """(writecap, readcap) pairs as given to set_uri / create_node_from_uri; None = absent"""
    from allmydata import uri
    k16 = lambda i: bytes([i]) * 16
    k32 = lambda i: bytes([i]) * 32
    chk = uri.CHKFileURI(k16(1), k32(2), 3, 10, 1234)
    chk2 = uri.CHKFileURI(k16(3), k32(4), 1, 2, 99)
    lit = uri.LiteralFileURI(b"hello")
    ssk = uri.WriteableSSKFileURI(k16(5), k32(6))
    mdmf = uri.WriteableMDMFFileURI(k16(7), k32(8))
    d1 = uri.DirectoryURI(uri.WriteableSSKFileURI(k16(9), k32(10)))
    d2 = uri.MDMFDirectoryURI(uri.WriteableMDMFFileURI(k16(11), k32(12)))
    di = uri.ImmutableDirectoryURI(chk2)
    dl = uri.LiteralDirectoryURI(uri.LiteralFileURI(b""))
    s = lambda u: u.to_string()
    return [
        (s(chk), None), (None, s(chk)), (s(chk2), s(chk2)), (s(lit), None), (None, s(lit)),
        (s(ssk), None), (s(ssk), s(ssk.get_readonly())), (None, s(ssk.get_readonly())),
        (s(mdmf), s(mdmf.get_readonly())), (None, s(mdmf.get_readonly())),
        (s(d1), s(d1.get_readonly())), (s(d1), None), (None, s(d1.get_readonly())),
        (s(d2), s(d2.get_readonly())), (None, s(d2.get_readonly())),
        (None, s(di)), (s(di), None), (None, s(dl)),
        (b"lafs://from_the_future_rw", b"lafs://from_the_future_ro"),      # unknown rw + ro
        (None, b"lafs://from_the_future_ro"), (None, b"ro.lafs://from_the_future_ro"),
        (None, b"imm.lafs://from_the_future_imm"), (b"ro.lafs://single_ro", None), (b"imm.lafs://single_imm", None),
        (None, None),
        # invalid: raise_error() raises
        (b"lafs://from_the_future_rw_only", None),                          # MustNotBeUnknownRWError
        (b"lafs://future_rw", b"imm.lafs://future_imm"),                    # MustBeDeepImmutableError
    ]

N_BAD = 2   # trailing entries of cap_pool whose node records an error


def gen_meta(rng):
    r = rng.random()
    if r < 0.35:
        return None
    md = {}
    for k in rng.sample(["k1", "k2", "mtime", "ctime", "no-write", "tahoe", "ctime", "no-write"], rng.randrange(0, 4)):
        if k == "tahoe":
            md[k] = rng.choice([{"linkcrtime": 5, "bogus": 1}, {}, 7, {"linkmotime": 1.5}])
        elif k == "no-write":
            md[k] = rng.choice([True, False, 0, 1, "x", "", None, [], [0]])
        elif k == "ctime":
            md[k] = rng.choice([None, 12345, 99.5, "old", 0])
        else:
            md[k] = rng.choice([1, "v", {"n": [1, {"z": None}]}, [], None, True, 2.5, "é"])
    return md


def gen_child(rng, npool):
    """symbolic child: ["pool", i] | ["dir", j, "rw"|"ro"]"""
    r = rng.random()
    if r < 0.22:
        return ["dir", rng.randrange(3), rng.choice(["rw", "ro"])]
    if r < 0.27:
        return ["pool", npool - 1 - rng.randrange(N_BAD)]
    return ["pool", rng.randrange(npool - N_BAD)]


def gen_history(rng, n, npool):
    names = rng.sample(NAMES, rng.choice([3, 5, 8]))
    # make collisions likely: add the NFC-equivalents present in NAMES of the chosen names
    names += [x for x in NAMES if nfc(x) in [nfc(y) for y in names] and x not in names]
    ops = []
    ow = lambda: rng.choice(["y", "y", "n", "f"])
    hd = lambda: [rng.randrange(3), 1 if rng.random() < 0.06 else 0]
    likely = [set(), set(), set()]      # names that probably exist (rough guess, only steers the generator)

    def existing(d, name):
        """mostly a spelling of a name that probably exists in directory d"""
        if likely[d] and rng.random() < 0.7:
            t = rng.choice(sorted(likely[d]))
            return rng.choice([x for x in names if nfc(x) == t] or [t])
        return name
    for _ in range(n):
        r = rng.random()
        dt = rng.choice([0, 0, 1, 1, 2, 7])
        name = rng.choice(names)
        if r < 0.16:
            op = ["set_node", hd(), name, gen_child(rng, npool), gen_meta(rng), ow()]
        elif r < 0.28:
            op = ["set_uri", hd(), name, gen_child(rng, npool), gen_meta(rng), ow()]
        elif r < 0.38:
            k = rng.randrange(0, 4)
            ents = [[rng.choice(names), gen_child(rng, npool), gen_meta(rng)] for _ in range(k)]
            op = [rng.choice(["set_children", "set_nodes"]), hd(), ents, ow(), rng.random() < 0.5]
        elif r < 0.44:
            op = ["add_file", hd(), name, rng.choice([3, 20, 80]), gen_meta(rng), ow()]
        elif r < 0.50:
            op = ["create_subdirectory", hd(), name, gen_meta(rng), ow()]
        elif r < 0.64:
            h = hd()
            op = ["delete", h, existing(h[0], name), rng.random() < 0.7, rng.random() < 0.2, rng.random() < 0.2]
            likely[h[0]].discard(nfc(op[2]))
        elif r < 0.74:
            h = hd()
            op = ["set_metadata_for", h, existing(h[0], name), gen_meta(rng) or {}]
        elif r < 0.90:
            same = rng.random() < 0.45
            h1 = hd()
            name = existing(h1[0], name)
            h2 = [h1[0], 0] if same else hd()
            new = None if rng.random() < 0.25 else rng.choice(names)
            if rng.random() < 0.15:
                new = rng.choice([x for x in names if nfc(x) == nfc(name)])    # rename to an equivalent spelling
            op = ["move_child_to", h1, name, h2, new, ow()]
            if nfc(name) in likely[h1[0]]:
                likely[h1[0]].discard(nfc(name))
                likely[h2[0]].add(nfc(new if new is not None else name))
        elif r < 0.94:
            h = hd()
            op = ["get", h, existing(h[0], name)]
        elif r < 0.97:
            op = ["has_child", hd(), name]
        else:
            h = hd()
            op = ["get_metadata_for", h, existing(h[0], name)]
        if op[0] in ("set_node", "set_uri", "add_file", "create_subdirectory"):
            likely[op[1][0]].add(nfc(op[2]))
        elif op[0] in ("set_children", "set_nodes"):
            likely[op[1][0]].update(nfc(e[0]) for e in op[2])
        ops.append([dt] + op)
    return {"names": names, "ops": ops}


# fixed corpus (runs first, independent of VERIF_SEED): one minimal history per known mechanism —
#  rename onto an NFC-equivalent spelling (seeded C20-a), overwrite modes / rename failures, the metadata rule
#  "None keeps, {} clears, 'tahoe' ignored" (seeded C20-c); TWO_CORPUS: no-overwrite on the retry path (seeded C20-b)
CORPUS = [
    # rename onto an NFC-equivalent spelling of itself inside one directory (the "redundant rename" shortcut)
    {"names": ["\u00e9", "e\u0301"], "ops": [
        [1, "set_node", [0, 0], "\u00e9", ["pool", 0], None, "y"],
        [1, "move_child_to", [0, 0], "e\u0301", [0, 0], "\u00e9", "y"],
        [1, "move_child_to", [0, 0], "\u00e9", [0, 0], None, "n"],
        [1, "move_child_to", [0, 0], "e\u0301", [1, 0], "e\u0301", "n"],
        [0, "move_child_to", [1, 0], "\u00e9", [0, 1], "x", "y"],
        [2, "move_child_to", [1, 0], "\u00e9", [1, 0], "b", "y"],
        [2, "get_metadata_for", [1, 0], "b"]]},
    # spellings that NFC changes although they contain no combining mark — ANGSTROM SIGN, KELVIN SIGN, conjoining
    # Hangul jamo — are the same key as their NFC form (seeded C20-d: normalize() skipping NFC for such names)
    {"names": ["\u00c5", "\u212b", "\ud55c", "\u1112\u1161\u11ab", "K", "\u212a"], "ops": [
        [1, "set_node", [0, 0], "\u00c5", ["pool", 0], {"k1": 1}, "y"],
        [1, "set_node", [0, 0], "\u212b", ["pool", 3], None, "n"],
        [1, "set_node", [0, 0], "\ud55c", ["dir", 1, "rw"], None, "y"],
        [1, "set_uri", [0, 0], "\u1112\u1161\u11ab", ["pool", 3], None, "f"],
        [1, "set_node", [0, 0], "K", ["pool", 5], None, "y"],
        [1, "has_child", [0, 0], "\u212a"],
        [1, "set_metadata_for", [0, 0], "\u1112\u1161\u11ab", {"m": 1}],
        [1, "delete", [0, 0], "\u212a", True, False, False],
        [1, "move_child_to", [0, 0], "\u212b", [1, 0], "\u212a", "n"],
        [1, "get", [1, 0], "K"],
        [1, "set_children", [1, 0], [["\u1112\u1161\u11ab", ["pool", 0], None], ["\ud55c", ["pool", 3], None]], "y", False]]},
    # metadata given without user keys clears the user metadata, None keeps it (seeded C20-c)
    {"names": ["x", "y", "z"], "ops": [
        [1, "set_node", [0, 0], "x", ["pool", 0], {"k1": 1, "k2": "v"}, "y"],
        [1, "set_metadata_for", [0, 0], "x", {}],
        [1, "set_node", [0, 0], "y", ["pool", 3], {"k1": 1}, "y"],
        [1, "set_node", [0, 0], "y", ["pool", 3], {"tahoe": {"linkcrtime": 5}}, "y"],
        [1, "set_uri", [0, 0], "z", ["pool", 5], {"k1": 1}, "y"],
        [1, "set_uri", [0, 0], "z", ["pool", 5], None, "y"],
        [1, "set_children", [0, 0], [["z", ["pool", 6], {}]], "y", False],
        [1, "get_metadata_for", [0, 0], "x"], [0, "get_metadata_for", [0, 0], "y"], [0, "get_metadata_for", [0, 0], "z"]]},
    # overwrite modes against file / directory / unknown children, rename failures
    {"names": ["a", "b"], "ops": [
        [1, "set_node", [0, 0], "a", ["dir", 1, "rw"], {"k1": 1}, "y"],
        [1, "set_node", [0, 0], "b", ["pool", 0], {"ctime": 12345}, "y"],
        [1, "set_uri", [0, 0], "a", ["pool", 3], None, "f"],
        [1, "set_uri", [0, 0], "b", ["pool", 3], None, "f"],
        [1, "set_uri", [0, 0], "b", ["pool", 5], None, "n"],
        [1, "set_node", [1, 0], "a", ["pool", 18], {"no-write": True}, "y"],
        [1, "move_child_to", [1, 0], "a", [0, 0], "a", "f"],
        [1, "move_child_to", [1, 0], "a", [0, 0], "b", "n"],
        [1, "move_child_to", [1, 0], "a", [0, 0], "b", "f"],
        [1, "delete", [0, 0], "a", True, False, True],
        [1, "delete", [0, 0], "a", True, True, False],
        [1, "delete", [0, 0], "zz", False, False, False],
        [1, "set_metadata_for", [0, 0], "b", {"no-write": 1, "tahoe": {"linkcrtime": 1}}],
        [1, "set_children", [0, 0], [["a", ["pool", 5], None], ["a", ["pool", 6], {"no-write": "x"}]], "y", False],
        [1, "set_children", [0, 1], [["q", ["pool", 5], None]], "y", False],
        [1, "set_nodes", [0, 0], [["c", ["pool", 5], None], ["a", ["pool", 6], None]], "n", False]]},
]


# ------------------------------------------------------------------ execution on the real code

class World:
    def __init__(self, ctx, rt, g):
        self.ctx, self.rt, self.g = ctx, rt, g
        self.c = g.clients[0]
        self.pool = cap_pool()

    def fresh_dirs(self):
        self.rw = [self.rt.wait(self.c.create_dirnode()) for _ in range(3)]
        self.ro = [self.c.create_node_from_uri(d.get_readonly_uri()) for d in self.rw]

    def handle(self, h):
        return (self.ro if h[1] else self.rw)[h[0]]

    def caps(self, sym):
        if sym[0] == "pool":
            return self.pool[sym[1]]
        d = self.rw[sym[1]]
        return (d.get_uri(), d.get_readonly_uri()) if sym[2] == "rw" else (None, d.get_readonly_uri())

    def node(self, sym):
        w, r = self.caps(sym)
        return self.c.create_node_from_uri(w, r)

    def listing(self, prev=None, only=None):
        """[ {nfc-name: (node token, metadata dict)} per directory ] through the write handles; directories not in
        `only` are carried over from `prev` (they are re-read at every 5th operation and at the end of a history)"""
        res = []
        for i, d in enumerate(self.rw):
            if only is not None and i not in only:
                res.append(prev[i])
                continue
            ch = self.rt.wait(d.list())
            res.append({name: (show_node(n), md) for name, (n, md) in ch.items()})
        return res


def show_listing(lst):
    return "|".join(";".join("%s~%s~%s" % (nm(k), d[k][0], show_meta(d[k][1])) for k in sorted(d, key=nm)) or "-" for d in lst)


def exec_op(w, op, now_log):
    """run one symbolic op on the real directories -> (result token, driver op token fields builder)"""
    from allmydata.immutable import upload
    from allmydata.dirnode import ONLY_FILES
    rt = w.rt
    OW = {"y": True, "n": False, "f": ONLY_FILES}
    kind, h = op[1], op[2]
    dn = w.handle(h)
    info = {}

    def node_tok(sym):
        n = w.node(sym)
        err = False
        try:
            n.raise_error()
        except Exception:
            err = True
        if not n.is_unknown() and (n.is_readonly() != (n.get_write_uri() is None)):
            w.ctx.disagree("is_readonly() <=> get_write_uri() is None fails for a known node", {"sym": sym},
                           repr(n), None)
        return n, show_node(n, err)

    def call(f):
        try:
            return ("ok", rt.wait(f()))
        except Exception as e:  # noqa
            name = type(e).__name__
            if name not in ERRS:
                raise
            return ("err", ERRS[name])

    if kind in ("set_node", "set_uri"):
        _, _, _, name, sym, md, ow = op
        n, ntok = node_tok(sym)
        if kind == "set_node":
            st, r = call(lambda: dn.set_node(name, n, None if md is None else dict(md), overwrite=OW[ow]))
        else:
            wc, rc = w.caps(sym)
            st, r = call(lambda: dn.set_uri(name, wc, rc, None if md is None else dict(md), overwrite=OW[ow]))
        info["line"] = lambda now: "S/%d/%d/%d/%s/%s/%s/%s/%d" % (now, h[0], h[1], nm(name), ntok, show_meta(md), ow,
                                                                    1 if kind == "set_uri" else 0)
        info["given"] = {nfc(name): ident(ntok)}
        res = "ok" if st == "ok" else "err:" + r
    elif kind in ("set_children", "set_nodes"):
        _, _, _, ents, ow, _ = op
        d = {}
        toks = {}
        gtok = {}
        for (name, sym, md) in ents:
            n, ntok = node_tok(sym)
            wc, rc = w.caps(sym)
            if kind == "set_children":
                d[name] = (wc, rc) if md is None else (wc, rc, dict(md))
            else:
                d[name] = (n, None if md is None else dict(md))
            toks[name] = "%s~%s~%s" % (nm(name), ntok, show_meta(md))
            gtok[name] = ident(ntok)
        st, r = call(lambda: (dn.set_children if kind == "set_children" else dn.set_nodes)(d, overwrite=OW[ow]))
        ent_s = ";".join(toks[k] for k in d) or "-"       # dict order = order of first insertion
        info["given"] = {}
        for k in d:
            info["given"][nfc(k)] = gtok[k]
        eager, cr = (1, 0) if kind == "set_children" else (0, 1)
        info["line"] = lambda now: "C/%d/%d/%d/%s/%d/%d/%s" % (now, h[0], h[1], ow, eager, cr, ent_s)
        res = "ok" if st == "ok" else "err:" + r
    elif kind == "add_file":
        _, _, _, name, size, md, ow = op
        data = (b"%d:" % size) + b"x" * size
        st, r = call(lambda: dn.add_file(name, upload.Data(data, convergence=b"c" * 16), None if md is None else dict(md),
                                         overwrite=OW[ow]))
        ntok = show_node(r) if st == "ok" else "f.-.aa.0"
        info["given"] = {nfc(name): ident(ntok)}
        # add_file normalizes the name itself and passes the normalized name on
        info["line"] = lambda now: "S/%d/%d/%d/%s/%s/%s/%s/1" % (now, h[0], h[1], nm(nfc(name)), ntok, show_meta(md), ow)
        res = "ok" if st == "ok" else "err:" + r
    elif kind == "create_subdirectory":
        _, _, _, name, md, ow = op
        st, r = call(lambda: dn.create_subdirectory(name, overwrite=OW[ow], metadata=None if md is None else dict(md)))
        ntok = show_node(r) if st == "ok" else "d.aa.bb.0"
        info["given"] = {nfc(name): ident(ntok)}
        info["line"] = lambda now: "C/%d/%d/%d/%s/0/1/%s~%s~%s" % (now, h[0], h[1], ow, nm(nfc(name)), ntok, show_meta(md))
        res = "ok" if st == "ok" else "err:" + r
    elif kind == "delete":
        _, _, _, name, me, mbd, mbf = op
        st, r = call(lambda: dn.delete(name, must_exist=me, must_be_directory=mbd, must_be_file=mbf))
        info["line"] = lambda now: "D/%d/%d/%d/%s/%d%d%d" % (now, h[0], h[1], nm(name), me, mbd, mbf)
        res = ("node:" + (show_node(r) if r is not None else "N")) if st == "ok" else "err:" + r
    elif kind == "set_metadata_for":
        _, _, _, name, md = op
        st, r = call(lambda: dn.set_metadata_for(name, dict(md)))
        # set_metadata_for normalizes the name before building the MetadataSetter
        info["line"] = lambda now: "M/%d/%d/%d/%s/%s" % (now, h[0], h[1], nm(nfc(name)), show_meta(md))
        res = "ok" if st == "ok" else "err:" + r
    elif kind == "move_child_to":
        _, _, _, name, h2, new, ow = op
        dn2 = w.handle(h2)
        st, r = call(lambda: dn.move_child_to(name, dn2, new, overwrite=OW[ow]))
        info["line"] = lambda now: "R/%d/%d/%d/%s/%d/%d/%s/%s" % (now, h[0], h[1], nm(name), h2[0], h2[1],
                                                                  "N" if new is None else nm(new), ow)
        if st == "ok":
            res = "red" if isinstance(r, str) else "node:" + (show_node(r) if r is not None else "N")
        else:
            res = "err:" + r
    elif kind == "get":
        st, r = call(lambda: dn.get(op[3]))
        info["line"] = lambda now: "G/%d/%d/%d/%s" % (now, h[0], h[1], nm(op[3]))
        res = "node:" + show_node(r) if st == "ok" else "err:" + r
    elif kind == "has_child":
        st, r = call(lambda: dn.has_child(op[3]))
        info["line"] = lambda now: "H/%d/%d/%d/%s" % (now, h[0], h[1], nm(op[3]))
        res = "bool:%d" % r if st == "ok" else "err:" + r
    elif kind == "get_metadata_for":
        st, r = call(lambda: dn.get_metadata_for(op[3]))
        info["line"] = lambda now: "T/%d/%d/%d/%s" % (now, h[0], h[1], nm(op[3]))
        res = "md:" + show_meta(r) if st == "ok" else "err:" + r
    else:
        raise ValueError(kind)
    return res, info["line"], info.get("given", {})


# ------------------------------------------------------------------ the monitor (from the statement; dict reference)

def ident(tok):
    """identity of a child as the directory reports it: kind + read cap (write cap if there is no read cap)"""
    k, rw, ro, _ = tok.split(".")
    return (k, ro if ro != "-" else rw)


def user_md(md):
    return {k: v for k, v in md.items() if k != "tahoe"}


def sysmd(md, k):
    t = md.get("tahoe")
    return t.get(k) if isinstance(t, dict) else None


def monitor(ctx, w, case, i, op, res, before, after, now, ref, given):
    """`ref` = [dict nfc-name -> child identity] per directory, updated here by the map semantics of the statement."""
    kind, h = op[1], op[2]
    ok = not res.startswith("err:")
    tnow = BASE + now
    V = lambda what, sig: ctx.violation(what, {"history": case, "op_index": i}, sig, {"op": op, "result": res})
    adds = []          # (dir, nfc-name, child identity or None = whatever, overwrite mode, user metadata or None)
    src = None
    if kind in ("set_node", "set_uri"):
        adds = [(h[0], nfc(op[3]), op[6], op[5])]
    elif kind in ("set_children", "set_nodes"):
        adds = [(h[0], nfc(e[0]), op[4], e[2]) for e in op[3]]
    elif kind == "add_file":
        adds = [(h[0], nfc(op[3]), op[6], op[5])]
    elif kind == "create_subdirectory":
        adds = [(h[0], nfc(op[3]), op[5], op[4])]
    elif kind == "move_child_to":
        new = nfc(op[3]) if op[5] is None else nfc(op[5])
        src = (h[0], nfc(op[3]))
        if res != "red" and ok:
            adds = [(op[4][0], new, op[6], None)]
    owmode = op[-1] if kind in ("set_node", "set_uri", "add_file", "create_subdirectory", "move_child_to") else \
        (op[4] if kind in ("set_children", "set_nodes") else None)
    # --- a failed operation is not an update
    if not ok and after != before:
        V("an operation that reported an error changed a directory", "failed-op-changed-state:" + kind)
    # --- map reference
    if ok:
        if kind == "delete":
            ref[h[0]].pop(nfc(op[3]), None)
        elif kind == "move_child_to" and res != "red":
            child = ref[src[0]].pop(src[1], None)
            ref[adds[0][0]][adds[0][1]] = child
        elif adds:
            for (d, name, _, _) in adds:
                ref[d][name] = given[name]
    for d in range(3):
        if set(after[d]) != set(ref[d]):
            V("the names of a directory differ from the name map (keys = NFC names)", "map-names:" + kind)
        else:
            for name in ref[d]:
                if ident(after[d][name][0]) != ref[d][name]:
                    V("a child differs from the name map", "map-child:" + kind)
    # untouched links stay exactly as they were
    touched = {(d, n) for (d, n, _, _) in adds}
    if kind == "delete" or kind == "set_metadata_for":
        touched.add((h[0], nfc(op[3])))
    if src and ok and res != "red":
        touched.add(src)
    for d in range(3):
        for name in before[d]:
            if (d, name) not in touched and after[d].get(name) != before[d][name]:
                V("a link that the operation does not name changed", "map-frame:" + kind)
    # --- metadata of the map: set replaces the user metadata, rename carries it
    if ok:
        if kind == "set_metadata_for":
            if user_md(after[h[0]][nfc(op[3])][1]) != user_md(op[4]):
                V("set_metadata_for did not store the given metadata", "map-metadata:set")
        if kind == "move_child_to" and res != "red":
            (d2, new, _, _) = adds[0]
            if new in after[d2] and user_md(after[d2][new][1]) != user_md(before[src[0]][src[1]][1]):
                V("rename did not carry the link's metadata", "map-metadata:rename")
            if new not in after[d2] or ident(after[d2][new][0]) != ident(before[src[0]][src[1]][0]):
                V("after a successful rename the child is not linked under the new name", "rename-lost-child")
            if src != (d2, new) and src[1] in after[src[0]]:
                V("after a successful rename the old link is still there", "rename-kept-old-link")
    # --- overwrite modes
    if owmode == "n":
        tgt = adds[0][0] if adds else (op[4][0] if kind == "move_child_to" else h[0])
        for name in before[tgt]:
            if (tgt, name) != (src if (ok and res != "red") else None) and after[tgt].get(name) != before[tgt][name]:
                V("an add with overwrite=False replaced or changed an existing link", "no-overwrite-replaced:" + kind)
    if owmode == "f":
        tgt = adds[0][0] if adds else (op[4][0] if kind == "move_child_to" else h[0])
        for name in before[tgt]:
            if before[tgt][name][0].startswith("d.") and (tgt, name) != (src if (ok and res != "red") else None) \
                    and after[tgt].get(name) != before[tgt][name]:
                V("an add with overwrite=ONLY_FILES replaced or changed a directory link", "only-files-replaced-dir:" + kind)
    # --- failed rename keeps the old link
    if kind == "move_child_to" and not ok:
        if after != before:
            V("a failed rename changed a directory", "failed-rename-changed-state")
        if src[1] in before[src[0]] and after[src[0]].get(src[1]) != before[src[0]][src[1]]:
            V("a failed rename lost the old link", "failed-rename-lost-link")
    # --- timestamps
    for d in range(3):
        for name in after[d]:
            md1 = after[d][name][1]
            if name in before[d]:
                md0 = before[d][name][1]
                m0, m1 = sysmd(md0, "linkmotime"), sysmd(md1, "linkmotime")
                if isinstance(m0, float) and not (isinstance(m1, float) and m1 >= m0):
                    V("linkmotime went backwards", "linkmotime-decreased:" + kind)
                updated = ok and ((kind == "set_metadata_for" and (d, name) == (h[0], nfc(op[3]))) or
                                  (kind != "move_child_to" and (d, name) in touched and kind != "delete"))
                if updated:
                    if sysmd(md0, "linkcrtime") is not None and sysmd(md1, "linkcrtime") != sysmd(md0, "linkcrtime"):
                        V("linkcrtime did not survive an update of the link", "linkcrtime-changed:" + kind)
                    if m1 != tnow:
                        V("linkmotime of an updated link is not the time of the update", "linkmotime-not-now:" + kind)
            elif sysmd(md1, "linkmotime") != tnow:
                V("linkmotime of a new link is not the time of its creation", "linkmotime-not-now:new:" + kind)


# ------------------------------------------------------------------ one history

def run_history(ctx, w, case):
    import time as _time
    rt = w.rt
    w.fresh_dirs()
    allnames = set()
    for op in case["ops"]:
        k = op[1]
        if k in ("set_children", "set_nodes"):
            allnames |= {e[0] for e in op[3]}
        else:
            allnames.add(op[3])
            if k == "move_child_to" and op[5] is not None:
                allnames.add(op[5])
    allnames |= {nfc(x) for x in allnames}
    for x in allnames:
        if nfc(nfc(x)) != nfc(x):
            ctx.disagree("NFC is not idempotent", {"name": x}, nfc(nfc(x)), nfc(x))
    table = ",".join("%s>%s" % (nm(x), nm(nfc(x))) for x in sorted(allnames)) or "-"
    toks, impl = [], []
    ref = [dict() for _ in range(3)]
    before = w.listing()
    vt = _time.time
    for i, op in enumerate(case["ops"]):
        rt.clock.advance(op[0])
        log = []

        def logged():
            t = vt()
            log.append(t)
            return t
        _time.time = logged
        try:
            res, line, given = exec_op(w, op, log)
        finally:
            _time.time = vt
        now = int((log[0] if log else vt()) - BASE)
        if log and any(t != log[0] for t in log):
            ctx.note("clock moved inside one operation: %r" % (log,))
        full = (i % 5 == 4) or i == len(case["ops"]) - 1
        only = None if full else ({op[2][0]} | ({op[4][0]} if op[1] == "move_child_to" else set()))
        after = w.listing(before, only)
        toks.append(line(now))
        impl.append(res + "#" + show_listing(after))
        monitor(ctx, w, case, i, op, res, before, after, now, ref, given)
        kind = op[1]
        h = op[2]
        tgt = nfc(op[3]) if isinstance(op[3], str) else None
        ex = before[h[0]].get(tgt) if tgt is not None else None
        flags = tuple(x for x in op[4:] if isinstance(x, (bool, str, type(None))) and kind != "set_metadata_for")
        key = (kind, h[1], flags, ex[0][0] if ex else "-", res if res.startswith("err:") else res.split(":")[0])
        ctx.case(key if before[h[0]] else None)
        ctx.count("op:" + kind)
        ctx.count("result:" + (res if res.startswith("err:") or res in ("ok", "red") else res.split(":")[0]))
        before = after
    return "hist 3 %s %s" % (table, " ".join(toks)), " ".join(impl)


# ------------------------------------------------------------------ Deleter.modify through the retry loop

def deleter_retries(ctx, w, case, dlines, dimpls, dcases):
    """the real Deleter.modify(old_contents, servermap, first_time) applied as MutableFileVersion.modify's loop applies
    it — first_time=True on the first contents, False on every re-read — against the model's retryLoop/deleterModifyFT"""
    from allmydata.dirnode import Deleter
    dn = w.rw[0]
    b0 = w.rt.wait(dn._node.download_best_version())
    ch0 = dn._unpack_contents(b0)
    names = sorted(ch0)
    if not names:
        return
    dump = lambda b: ";".join("%s~%s~%s" % (nm(k), show_node(n), show_meta(md))
                              for k, (n, md) in sorted(dn._unpack_contents(b).items(), key=lambda kv: nm(kv[0]))) or "-"
    for name in names[:2] + ["c20-absent"]:
        without = dn._unpack_contents(b0)
        if name in without:
            del without[name]
        b1 = dn._pack_contents(without)
        for reads in ([b0], [b0, b1], [b1], [b0, b0], [b1, b0], [b0, b1, b1]):
            for flags in ((True, False, False), (False, False, False), (True, True, False), (True, False, True)):
                d = Deleter(dn, name, must_exist=flags[0], must_be_directory=flags[1], must_be_file=flags[2])
                out = None
                for j, b in enumerate(reads):
                    try:
                        new = d.modify(b, None, j == 0)
                        out = "ok:%s#%s" % (show_node(d.old_child) if d.old_child is not None else "N", dump(b if new is None else new))
                    except Exception as e:  # noqa
                        out = "err:" + ERRS.get(type(e).__name__, type(e).__name__)
                        break
                allnames = set(ch0) | {name}
                table = ",".join("%s>%s" % (nm(x), nm(nfc(x))) for x in sorted(allnames)) or "-"
                dlines.append("delretry %s %s %d%d%d %s" % (table, nm(name), flags[0], flags[1], flags[2],
                                                           "^".join(dump(b) for b in reads)))
                dimpls.append(out)
                dcases.append({"delretry": name, "flags": list(flags), "reads": len(reads), "history": case})
                ctx.case(("delretry", len(reads), flags, out.split("#")[0].split(":")[0] + (out if out.startswith("err") else "")))
    ctx.count("delretry-histories")


# ------------------------------------------------------------------ two writers on one directory (monitor only)

WRITE = "slot_testv_and_readv_and_writev"


def gen_two_writer(rng):
    """two holders of one directory's write cap each add one link, concurrently"""
    base = rng.choice(["report.txt", "caf\u00e9.txt", "\u212b", "q\u0307\u0323", "a", "\ud55c"])
    spell = lambda: unicodedata.normalize(rng.choice(["NFC", "NFD"]), base)
    same = rng.random() < 0.8
    ow = lambda: rng.choice(["n", "n", "n", "n", "f", "y"])
    pre = rng.choice([None, None, None, "file", "dir"])
    return {"two": True, "mode": rng.choice(["forced", "forced", "concurrent", "concurrent", "forced-b-first",
                                             "sequential", "sequential-b-first"]),
            "pre": pre, "pre_name": spell() if rng.random() < 0.6 else "other",
            "A": {"name": spell(), "ow": ow(), "kind": rng.choice(["file", "file", "dir"])},
            "B": {"name": spell() if same else "b-" + base, "ow": ow(), "kind": rng.choice(["file", "file", "dir"])}}


TWO_CORPUS = [
    {"two": True, "mode": "forced", "pre": None, "pre_name": "other",
     "A": {"name": "report.txt", "ow": "n", "kind": "file"}, "B": {"name": "report.txt", "ow": "n", "kind": "file"}},
    {"two": True, "mode": "forced", "pre": None, "pre_name": "other",
     "A": {"name": "caf\u00e9.txt", "ow": "n", "kind": "file"}, "B": {"name": "cafe\u0301.txt", "ow": "n", "kind": "dir"}},
    {"two": True, "mode": "concurrent", "pre": "dir", "pre_name": "x",
     "A": {"name": "x", "ow": "f", "kind": "file"}, "B": {"name": "x", "ow": "n", "kind": "file"}},
]


def ref_apply(m, op):
    """the name map of the statement: one add with its overwrite mode -> (result, new map)"""
    k = nfc(op["name"])
    if k in m:
        if op["ow"] == "n" or (op["ow"] == "f" and m[k][0] == "dir"):
            return "exists", m
    m2 = dict(m)
    m2[k] = (op["kind"], op["cap"])
    return "ok", m2


def run_two_writer(ctx, rt, g, case):
    from twisted.python.failure import Failure
    from allmydata import uri
    from allmydata.dirnode import ONLY_FILES
    from allmydata.interfaces import ExistingChildError, IDirectoryNode
    from allmydata.mutable.common import UncoordinatedWriteError
    OW = {"y": True, "n": False, "f": ONLY_FILES}
    ca, cb = g.clients[0], g.clients[1]
    a = rt.wait(ca.create_dirnode())
    b = cb.create_node_from_uri(a.get_uri())
    assert b is not a and not b.is_readonly()
    mk = lambda kind, tag: (uri.LiteralFileURI(tag).to_string() if kind == "file"
                            else uri.LiteralDirectoryURI(uri.LiteralFileURI(tag)).to_string())
    ref0 = {}
    if case["pre"]:
        cap = mk(case["pre"], b"")
        rt.wait(a.set_uri(case["pre_name"], None, cap))
        ref0[nfc(case["pre_name"])] = (case["pre"], cap)
    ops = {}
    for who in "AB":
        op = dict(case[who])
        op["cap"] = mk(op["kind"], b"child of " + who.encode())
        ops[who] = op
    start = lambda node, op: node.set_uri(op["name"], None, op["cap"], overwrite=OW[op["ow"]])
    boxes = {}

    def watch(who, d):
        boxes[who] = []
        d.addBoth(boxes[who].append)
        return d
    first, second = ("A", "B") if not case["mode"].endswith("b-first") else ("B", "A")
    nodes = {"A": a, "B": b}
    if case["mode"].startswith("sequential"):
        # no overlap: the second holder starts after the first one's add has completed
        d1 = watch(first, start(nodes[first], ops[first]))
        rt.pump(until=d1)
        d2 = watch(second, start(nodes[second], ops[second]))
        rt.pump(until=d2)
    elif case["mode"].startswith("forced"):
        # the first writer's publish requests are held back "on the wire" while the other one completes its add
        d1 = watch(first, start(nodes[first], ops[first]))
        steps = 0
        while not any(lbl and lbl[1] == WRITE for (lbl, _) in rt.pending):
            if not rt.step() or steps > 200000:
                break
            steps += 1
        held, rt.pending = rt.pending, []
        d2 = watch(second, start(nodes[second], ops[second]))
        rt.pump(until=d2)
        rt.pending.extend(held)
        rt.pump(until=d1)
    else:
        d1 = watch("A", start(a, ops["A"]))
        d2 = watch("B", start(b, ops["B"]))
        rt.pump(until=d1)
        rt.pump(until=d2)
    res = {}
    for who in "AB":
        bx = boxes[who]
        if not bx:
            res[who] = "pending"
        elif isinstance(bx[0], Failure):
            res[who] = "exists" if bx[0].check(ExistingChildError) else \
                ("ucwe" if bx[0].check(UncoordinatedWriteError) else "error:" + bx[0].type.__name__)
            bx[0].trap(Exception)
        else:
            res[who] = "ok"
    final = {}
    for k, (n, md) in rt.wait(cb.create_node_from_uri(a.get_uri()).list()).items():
        final[k] = ("dir" if IDirectoryNode.providedBy(n) else "file", n.get_uri())
    # ---- monitor
    V = lambda what, sig: ctx.violation(what, case, sig, {"results": res, "final": {k: v[0] + ":" + v[1].decode() for k, v in final.items()}})
    for who in "AB":
        if res[who] in ("pending",) or res[who].startswith("error"):
            ctx.disagree("a concurrent add ended unexpectedly", case, res[who], None)
    overlapped = not case["mode"].startswith("sequential")
    same = nfc(ops["A"]["name"]) == nfc(ops["B"]["name"])
    # (1) what the statement says outright, on every path incl. the retry after an UncoordinatedWriteError:
    #     a no-overwrite add never replaces an entry, an only-files add never replaces a directory
    if same and all(ops[w_]["ow"] == "n" and res[w_] == "ok" for w_ in "AB"):
        V("two no-overwrite adds of one name both reported success: one replaced the other's entry",
          "concurrent-no-overwrite-replaced")
    for w_ in "AB":
        k = nfc(ops[w_]["name"])
        if res[w_] == "ok" and k in ref0 and (ops[w_]["ow"] == "n" or (ops[w_]["ow"] == "f" and ref0[k][0] == "dir")):
            V("an add that may not replace the existing entry reported success over it",
              "concurrent-no-overwrite-replaced" if ops[w_]["ow"] == "n" else "concurrent-only-files-replaced-dir")
    # (2) nothing may appear that nobody wrote
    allowed = {}
    for k, v in ref0.items():
        allowed.setdefault(k, set()).add(v)
    for w_ in "AB":
        allowed.setdefault(nfc(ops[w_]["name"]), set()).add((ops[w_]["kind"], ops[w_]["cap"]))
    for k, v in final.items():
        if v not in allowed.get(k, ()):
            V("the directory holds an entry that neither writer wrote", "concurrent-foreign-entry")
    # (3) map explanation: the two adds applied to one name map in some order
    explained = False
    for order in ("AB", "BA"):
        # An add that failed with UncoordinatedWriteError may or may not have taken effect.  An add that reports
        # ExistingChildError may be looking at its *own* first attempt (its shares were written, the publish was
        # then declared uncoordinated, and the retry finds the name taken): the statement only forbids that an add
        # *replaces* an entry, so such an add is also accepted as "took effect on a free name, reported exists".
        variants = [[]]
        for who in order:
            variants = [v + [x] for v in variants
                        for x in ([True, False] if res[who] == "ucwe" else ["own", True] if res[who] == "exists" else [True])]
        for v in variants:
            m = dict(ref0)
            okay = True
            for who, applied in zip(order, v):
                if not applied:
                    continue
                r, m = ref_apply(m, ops[who])
                if applied == "own":
                    if r != "ok":
                        okay = False
                elif res[who] != "ucwe" and r != res[who]:
                    okay = False
            if okay and m == final:
                explained = True
    if not explained:
        if not overlapped:
            # the holders took turns: a name map is demanded in full
            V("two adds made one after the other by two holders of the write cap are not explained by a name map",
              "sequential-writers-not-a-map")
        else:
            # The publishes overlapped.  Tahoe does not coordinate writers ("prime coordination directive"): one
            # writer's shares may be partly overwritten, readers may find either version, and a retried modifier may
            # meet its own partial write.  The statement (op *sequences*) promises nothing here beyond (1) and (2).
            own = [w_ for w_ in "AB" if res[w_] == "exists" and nfc(ops[w_]["name"]) not in ref0
                   and not (same and res["B" if w_ == "A" else "A"] in ("ok", "exists", "ucwe"))]
            ctx.count("concurrent:exists-from-own-partial-write" if own else "concurrent:lost-edit-after-collision")
    ctx.case(("two", case["mode"], case["pre"], ops["A"]["ow"], ops["B"]["ow"], res["A"], res["B"]))
    ctx.count("two-writer:%s:%s/%s" % (case["mode"], res["A"], res["B"]))


def run(ctx):
    common.setup_impl_path()
    import grid
    twos = []
    if ctx.replay:
        c = ctx.replay["case"]
        c = c["history"] if "history" in c else c
        hists, twos = ([], [c]) if c.get("two") else ([c], [])
    else:
        npool = len(cap_pool())
        hists = [json.loads(json.dumps(h)) for h in CORPUS]
        lens = [4, 12, 30] if ctx.tier != "thorough" else [4, 12, 30, 30, 80]
        corpus_only = os.environ.get("VERIF_CORPUS_ONLY") == "1"
        for _ in range(0 if corpus_only else ctx.budget(50, 500)):
            hists.append(gen_history(ctx.rng, ctx.rng.choice(lens), npool))
        twos = [json.loads(json.dumps(t)) for t in TWO_CORPUS]
        for _ in range(0 if corpus_only else ctx.budget(40, 600)):
            twos.append(gen_two_writer(ctx.rng))
    lines, impls = [], []
    dlines, dimpls, dcases = [], [], []
    with grid.Runtime(seed=ctx.seed, policy="random") as rt:
        g = grid.Grid(grid.fresh_dir("c20"), rt, num_servers=3, num_clients=2, k=1, happy=1, n=2)
        try:
            w = World(ctx, rt, g)
            for hi, hcase in enumerate(hists):
                line, impl = run_history(ctx, w, hcase)
                lines.append(line)
                impls.append(impl)
                if hi < 12:
                    deleter_retries(ctx, w, hcase, dlines, dimpls, dcases)
            # afterwards: the retry back-off of colliding writers moves the virtual clock by fractions of a second
            for tcase in twos:
                run_two_writer(ctx, rt, g, tcase)
        finally:
            g.close()
    model = ctx.model(lines)
    if model is not None:
        model = [" ".join(canon_out(t) for t in m.split(" ")) for m in model]
        ctx.compare("directory history: result/error of every op and the listing of all 3 directories after it",
                    hists, impls, model)
    dmodel = ctx.model(dlines)
    if dmodel is not None:
        fix = lambda t: t if "#" not in t else t.split("#")[0] + "#" + canon_dir(t.split("#")[1])
        ctx.compare("Deleter.modify through the retry loop (first_time True, then False on re-read contents)",
                    dcases, [fix(x) for x in dimpls], [fix(x) for x in dmodel])
    if hists:
        ctx.sample({"ops": hists[-1]["ops"][:4], "impl": impls[-1][:300]})
