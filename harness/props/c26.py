"""C26 — garbage collection deletes exactly the expired shares (storage/expirer.py, lease.py, cancel_lease)."""
import contextlib
import hashlib
import os
import random
import shutil
import time as _realtime

import common

ID = "C26"
LEAN_PROPS = "Tahoe.Props.C26"
DRIVER = "C26"
GENERATED = ["gc"]
SOURCES = ["src/allmydata/storage/expirer.py", "src/allmydata/storage/lease.py",
           "src/allmydata/storage/immutable.py", "src/allmydata/storage/mutable.py",
           "src/allmydata/storage/crawler.py"]
DESIGN_REF = "DESIGN.md §2 C26"
TECHNIQUE = ("Lean 4 theorems over executable models of LeaseCheckingCrawler.process_share / process_bucket, cancel_lease, the "
             "tahoe.cfg -> crawler configuration step, the lease-age histogram in the state file, and of the crawler driving the "
             "expirer over whole schedules (GcCycle.gcRun); differential correspondence against the real LeaseCheckingCrawler of a "
             "real StorageServer on real immutable and mutable share files with a patched clock: (A) process_bucket called "
             "directly, (B) whole cycles through start_slice incl. populated prefix directories listed in scripted order, (C) "
             "multi-slice schedules with time-slice interruptions, kills and restarts of a real LeaseCheckingCrawler (gcrun), "
             "(D) every expire.* settings combination through the production path (tahoe.cfg -> client.read_config -> "
             "_Client.get_anonymous_storage_server; cfg), cutoff-date servers also under eight process time zones, (E) the "
             "histogram across a mid-cycle state-file round trip (hist); monitor = the documented expiry predicate incl. the "
             "share-type filter, per pass, per cycle and per schedule")
LEVEL_TEXT = ("Proved for all configurations, clocks, lease lists and crawler schedules: disabled_never_deletes / "
              "disabled_bucket_untouched / disabled_never_deletes_any_schedule / not_enabled_in_tahoe_cfg_never_deletes; the full "
              "theorem deleted_iff_all_expired (removed iff type enabled and every lease expired under the documented predicate; "
              "exactly the expired leases are cancelled) and bucket_pass_deletes_exactly_expired under the explicit hypothesis "
              "WellFormedLeases (>= 1 lease, pairwise distinct cancel secrets); expired_share_deleted_within_one_cycle and "
              "valid_share_survives_every_schedule on the composed machine (any slicing, kills after any process_bucket call, "
              "restarts, changing listings, a clock per slice); sharetype_switches_select_types and "
              "cutoff_and_override_reach_the_crawler for the configuration step; histogram_survives_state_file for the expirer's "
              "state in the crawler state file; lease_duration_is_31_days pins the extracted constants. What the code does outside "
              "WellFormedLeases is pinned by three proved counterexamples (the three open known findings).")
LEVEL_NOTE = ("No _partial theorem is left. Hypothesis WellFormedLeases excludes exactly the three open findings (shared cancel "
              "secret deletes a valid lease / makes the expirer raise; lease-less share counted but kept). Two defects found by this "
              "check are repaired in /repo (age mode without override never expired: e9c8d12; lease crawler dead after a restart "
              "inside a cycle: e6c3ed8) and the model describes the repaired behaviour; reverting either is caught. "
              "Correspondence / monitor only: time zones of the cutoff date (value parsers are C48), space-recovered counts (counts "
              "compared, bytes not), the abort of a slice by a raising share (needs a shared cancel secret). Not covered: byte "
              "counters of the status page, on-disk rewriting of lease records by cancel_lease (layout: C29; cancel_lease is "
              "modelled as 'remove every lease with that secret' and tied by the leases read back from disk).")
RULE = ("a case is one share file (type, 0..6 leases with renewal times placed at/around the configured threshold) processed by the "
        "real LeaseCheckingCrawler under one policy configuration and a patched clock (directly, in a whole cycle, or in a "
        "multi-slice schedule), one settings combination built through the production path, one event of a crawler schedule, or "
        "one histogram round trip; distinct = distinct (config, now - renewal offsets, cancel-secret pattern, share type) resp. "
        "(settings) / (state file, oracle, kill point) / (ages); non-trivial = the share has at least one lease resp. the event made "
        "a process_bucket call or was a kill/restart")
TRUSTED = ["lean/Tahoe/Storage/Expire.lean and GcCycle.lean are hand transcriptions of process_share / process_bucket / cancel_lease / "
           "get_anonymous_storage_server + LeaseCheckingCrawler.__init__ / the histogram conversions, and of the crawler calling "
           "process_bucket (behaviour as of /repo with e9c8d12 and e6c3ed8); os.stat-based byte counters are not modelled",
           "the harness patches the module attributes `time` of expirer/lease/crawler (integral fake clock; the C27 scripted clock for "
           "multi-slice schedules) and `os` of crawler (listdir / scandir in native, descending or seeded order)",
           "production path: _Client.get_anonymous_storage_server is run unmodified on a minimal MultiService shell carrying "
           "the real read_config() result, nodeid and stats_provider=None (the rest of node start-up is not needed by it); "
           "the server's reactor clock is replaced by a twisted Clock for leases granted through the API; the process time zone "
           "is set through TZ + time.tzset() around construction and crawl",
           "multi-slice schedules: a LeaseCheckingCrawler subclass with the C27 hooks (time checks after process_bucket / "
           "finished_prefix, a kill = exception before save_state, then a new crawler from the state file)"]
ASSUMPTIONS = ["lease expiry = renewal time + 31 days (DEFAULT_RENEWAL_TIME; checked on leases granted through the real StorageServer API)",
               "clock values are integral seconds, one value per slice",
               "share files are well-formed v1/v2 containers (corrupt shares are outside this property)",
               "leases are not renewed concurrently with the crawl (the world changes only through the crawler during a schedule)",
               "in the schedule-level theorems every share has >= 1 lease and pairwise distinct cancel secrets (WellFormedLeases)"]

DAY = 86400
T0 = 1_700_000_000
NODEID = b"\x11" * 20


def secret(kind, n):
    return hashlib.sha256(("%s-%d" % (kind, n)).encode()).digest()


class FakeTime:
    def __init__(self):
        self.now = 0

    def time(self):
        return self.now


class _Entries(list):
    def __enter__(self):
        return self

    def __exit__(self, *a):
        return False

    def close(self):
        pass


class OsProxy:
    """Stands in for `os` inside allmydata.storage.crawler: while env.order is set, listdir / scandir present the
    entries of a directory in that order ("desc", or an int seed) - a directory listing is a set, the crawler may not
    rely on any native order."""

    def __init__(self, env):
        self._env = env

    def __getattr__(self, name):
        return getattr(os, name)

    def _permute(self, names):
        order = self._env.order
        names = list(names)
        if order is None:
            return names
        names.sort()
        if order == "desc":
            names.reverse()
        else:
            random.Random("c26-order-%s-%s" % (order, ",".join(names))).shuffle(names)
        return names

    def listdir(self, path="."):
        return self._permute(os.listdir(path))

    def scandir(self, path="."):
        with os.scandir(path) as it:
            ents = {e.name: e for e in it}
        return _Entries(ents[n] for n in self._permute(list(ents)))


class Env:
    """Patches the clock of the modules under test; gives real servers in a scratch dir."""

    def __init__(self, ctx):
        from allmydata.storage import expirer, lease, crawler
        self.ctx = ctx
        self.mods = (expirer, lease, crawler)
        self.ft = FakeTime()
        self.saved = [m.time for m in self.mods]
        for m in self.mods:
            m.time = self.ft
        self.order = None
        self.saved_os = crawler.os
        crawler.os = OsProxy(self)
        self.root = os.path.join(common.WORK, "c26-%d" % os.getpid())
        shutil.rmtree(self.root, ignore_errors=True)
        os.makedirs(self.root)
        self.n = 0
        self.servers = {}

    def close(self):
        for m, t in zip(self.mods, self.saved):
            m.time = t
        self.mods[2].os = self.saved_os
        shutil.rmtree(self.root, ignore_errors=True)

    def new_server(self, cfg):
        """Direct construction (real tuples), or - cfg["prod"] - the production path: a tahoe.cfg with the
        expire.* keys, allmydata.client.read_config, and _Client.get_anonymous_storage_server run on a
        minimal node shell (that method only needs .config/.get_config/.nodeid/.stats_provider and a
        MultiService to parent the server)."""
        from twisted.internet.task import Clock
        from allmydata.storage.server import StorageServer
        self.n += 1
        d = os.path.join(self.root, "s%d" % self.n)
        clock = Clock()
        if cfg.get("prod"):
            with tz_env(cfg.get("tz")):
                ss = self.production_server(cfg, d)
            if cfg.get("tz") is not None:
                self.ctx.count("tz:" + cfg["tz"])
            ss._clock = clock          # the node passes the reactor; leases granted via the API use this clock
        else:
            kw = {}
            if cfg["mode"] == "age":
                kw = dict(expiration_mode="age", expiration_override_lease_duration=cfg["override"])
            else:
                kw = dict(expiration_mode="cutoff-date", expiration_cutoff_date=cfg["cutoff"])
            types = tuple(t for t, on in (("immutable", cfg["imm"]), ("mutable", cfg["mut"])) if on)
            ss = StorageServer(d, NODEID, clock=clock, expiration_enabled=cfg["enabled"],
                               expiration_sharetypes=types, **kw)
        ss._verif_clock = clock
        ss.lease_checker.cpu_slice = 1e12
        self.check_parsed(cfg, ss)
        return ss

    def production_server(self, cfg, basedir, text=None):
        from twisted.application import service
        from allmydata.client import _Client, read_config

        class NodeShell(service.MultiService):
            STOREDIR = _Client.STOREDIR
            get_anonymous_storage_server = _Client.get_anonymous_storage_server

            def __init__(self, config):
                service.MultiService.__init__(self)
                self.config = config
                self.get_config = config.get_config
                self.nodeid = NODEID
                self.stats_provider = None

        os.makedirs(os.path.join(basedir, "private"), 0o700)
        with open(os.path.join(basedir, "tahoe.cfg"), "w") as f:
            f.write(tahoe_cfg(cfg) if text is None else text)
        config = read_config(basedir, "client.port")
        shell = NodeShell(config)
        ss = shell.get_anonymous_storage_server()
        ss._verif_shell = shell
        self.ctx.count("server:production-path")
        return ss

    @staticmethod
    def parsed_config(ss):
        lc = ss.lease_checker
        st = lc.sharetypes_to_expire
        if isinstance(st, (tuple, list, set, frozenset)) and all(isinstance(x, str) for x in st):
            types = ",".join(sorted(set(st))) or "-"
        else:
            types = "!not-a-collection-of-names:%r" % (st,)
        return "enabled=%s mode=%s override=%s cutoff=%s types=%s" % (
            bool(lc.expiration_enabled), lc.mode, lc.override_lease_duration, lc.cutoff_date, types)

    def check_parsed(self, cfg, ss):
        """The configuration the lease checker ended up with vs the documented meaning of the settings."""
        got = self.parsed_config(ss)
        want = "enabled=%s mode=%s override=%s cutoff=%s types=%s" % (
            cfg["enabled"], cfg["mode"], cfg["override"] if cfg["mode"] == "age" else None,
            cfg["cutoff"] if cfg["mode"] != "age" else None,
            ",".join(t for t, on in (("immutable", cfg["imm"]), ("mutable", cfg["mut"])) if on) or "-")
        if got != want:
            self.ctx.disagree("expiry configuration reaching LeaseCheckingCrawler (mode, override, cutoff, share types) "
                              "differs from the documented meaning of the settings", {"cfg": cfg}, got, want)

    def server_for(self, cfg):
        k = cfg_key(cfg)
        if k not in self.servers:
            self.servers[k] = self.new_server(cfg)
        return self.servers[k]


# process time zones under which production-path servers in cutoff-date mode are built and run
# ("unset" = no TZ variable; POSIX strings need no zoneinfo database)
ZONES = ["unset", "UTC", "PST8PDT", "America/Los_Angeles", "JST-9", "Asia/Tokyo", "XYZ-5:30", "Pacific/Kiritimati"]
UTC_ZONES = (None, "unset", "UTC")     # this sandbox has no /etc/localtime offset: unset behaves as UTC
# renewal offsets around the cutoff that fall between midnight UTC and local midnight of some zone
TZ_OFFSETS = [-5 * 3600, -1, 0, 1, 3 * 3600, 5 * 3600, 13 * 3600]


@contextlib.contextmanager
def tz_env(tz):
    """Run a block with the process time zone set to tz (None: leave the environment alone)."""
    if tz is None:
        yield
        return
    old = os.environ.get("TZ")
    try:
        if tz == "unset":
            os.environ.pop("TZ", None)
        else:
            os.environ["TZ"] = tz
        _realtime.tzset()
        yield
    finally:
        if old is None:
            os.environ.pop("TZ", None)
        else:
            os.environ["TZ"] = old
        _realtime.tzset()


def cfg_key(cfg):
    return (cfg["enabled"], cfg["mode"], cfg.get("override"), cfg.get("cutoff"), cfg["imm"], cfg["mut"],
            bool(cfg.get("prod")), cfg.get("spell", 0), cfg.get("tz"))


def duration_string(secs, spell):
    """A documented spelling (docs/garbage-collection.rst / time_format.parse_duration) of `secs` seconds."""
    forms = []
    if secs % (365 * DAY) == 0 and secs:
        forms += ["%d years", "%dyear"]
    if secs % (31 * DAY) == 0 and secs:
        forms += ["%d mo", "%dmonths", "%d month"]
    if secs % DAY == 0:
        forms += ["%d days", "%dday", "%d Days"]
    unit = {"y": 365 * DAY, "m": 31 * DAY, "d": DAY}
    if not forms:
        return ["%d s", "%dseconds", "%d second"][spell % 3] % secs
    f = forms[spell % len(forms)]
    return f % (secs // unit[f.replace("%d", "").strip().lower()[0]])


def tahoe_cfg(cfg):
    """tahoe.cfg for the production path.  spell selects boolean / duration spellings and which keys that
    equal their documented default are omitted (expire.enabled=false, expire.immutable/mutable=true,
    expire.mode when expiration is disabled and the mode is age)."""
    import time as _t
    spell = cfg.get("spell", 0)
    tr, fa = [("true", "false"), ("True", "False"), ("yes", "no"), ("on", "off"), ("1", "0")][spell % 5]
    omit = (spell // 5) % 2 == 1
    lines = ["[node]", "nickname = verif", "[storage]", "enabled = true"]
    if cfg["enabled"] or not omit:
        lines.append("expire.enabled = %s" % (tr if cfg["enabled"] else fa))
    if cfg["mode"] == "age":
        if cfg["enabled"] or not omit:
            lines.append("expire.mode = age")
        if cfg["override"] is not None:
            lines.append("expire.override_lease_duration = %s" % duration_string(cfg["override"], spell // 10))
    else:
        assert cfg["cutoff"] % DAY == 0
        lines.append("expire.mode = cutoff-date")
        lines.append("expire.cutoff_date = %s" % _t.strftime("%Y-%m-%d", _t.gmtime(cfg["cutoff"])))
    if not (cfg["imm"] and omit):
        lines.append("expire.immutable = %s" % (tr if cfg["imm"] else fa))
    if not (cfg["mut"] and omit):
        lines.append("expire.mutable = %s" % (tr if cfg["mut"] else fa))
    return "\n".join(lines) + "\n"


def cfg_tokens(cfg):
    if cfg["mode"] == "age":
        m = "a:-" if cfg["override"] is None else "a:%d" % cfg["override"]
    else:
        m = "c:%d" % cfg["cutoff"]
    return "%d %s %d%d" % (1 if cfg["enabled"] else 0, m, 1 if cfg["imm"] else 0, 1 if cfg["mut"] else 0)


# ------------------------------------------------------------------ reference predicate (from the statement/docs)

def doc_expired(cfg, now, renewal):
    """docs/garbage-collection.rst: age: renewal + duration < now (duration 31 d, or the override);
    cutoff-date: renewal < cutoff."""
    if cfg["mode"] == "age":
        dur = 31 * DAY if cfg["override"] is None else cfg["override"]
        return renewal + dur < now
    return renewal < cfg["cutoff"]


def type_enabled(cfg, ty):
    return cfg["imm"] if ty == "i" else cfg["mut"]


# ------------------------------------------------------------------ building real shares

def make_share(ss, si, shnum, ty, leases, via_server):
    """Create one share file with the given leases [(cancel_id, renewal_time, lease_uid)].
    via_server: the first lease is granted by the real StorageServer API at clock = renewal (so that the
    expiry really is what the server writes); the others are added with ShareFile/MutableShareFile.add_lease."""
    from allmydata.storage.common import storage_index_to_dir
    from allmydata.storage.immutable import ShareFile
    from allmydata.storage.mutable import MutableShareFile
    from allmydata.storage.shares import get_share_file
    from allmydata.storage.lease import LeaseInfo
    from allmydata.storage.server import DEFAULT_RENEWAL_TIME
    bdir = os.path.join(ss.sharedir, storage_index_to_dir(si))
    path = os.path.join(bdir, "%d" % shnum)
    rest = list(leases)
    data = b"d" * 25
    if via_server and leases:
        cid, renewal, uid = rest.pop(0)
        clk = ss._verif_clock
        clk.advance(renewal - clk.seconds())
        if ty == "i":
            _, writers = ss.allocate_buckets(si, secret("renew", uid), secret("cancel", cid), [shnum], len(data))
            writers[shnum].write(0, data)
            writers[shnum].close()
        else:
            ss.slot_testv_and_readv_and_writev(si, (secret("we", 0), secret("renew", uid), secret("cancel", cid)),
                                               {shnum: ([], [(0, data)], None)}, [])
    else:
        os.makedirs(bdir, exist_ok=True)
        if ty == "i":
            sf = ShareFile(path, max_size=len(data), create=True)
            sf.write_share_data(0, data)
        else:
            MutableShareFile(path).create(NODEID, secret("we", 0))
            MutableShareFile(path).writev([(0, data)], None)
    for (cid, renewal, uid) in rest:
        li = LeaseInfo(owner_num=1, renew_secret=secret("renew", uid), cancel_secret=secret("cancel", cid),
                       expiration_time=renewal + DEFAULT_RENEWAL_TIME, nodeid=NODEID)
        sf = get_share_file(path)
        if ty == "i":
            sf.add_lease(li)
        else:
            sf.add_lease(10 ** 9, li)
    return path


def read_leases(path, leases):
    """Remaining leases of a share file as [(cancel_id, expiry)], identified through the real
    is_renew_secret / is_cancel_secret (secrets are stored hashed in v2 containers)."""
    from allmydata.storage.shares import get_share_file
    out = []
    for li in get_share_file(path).get_leases():
        uid = [u for (_, _, u) in leases if li.is_renew_secret(secret("renew", u))]
        cids = sorted(set(c for (c, _, _) in leases if li.is_cancel_secret(secret("cancel", c))))
        out.append((cids[0] if len(cids) == 1 and len(uid) == 1 else -1, int(li.get_expiration_time())))
    return out


COUNT_KEYS = [a + "-" + b + c for a in ("examined", "original", "configured", "actual")
              for b in ("shares", "buckets") for c in ("", "-immutable", "-mutable")]


def counters(lc):
    rec = lc.state["cycle-to-date"]["space-recovered"]
    return [rec.get(k, 0) for k in COUNT_KEYS]


def exc_name(e):
    if isinstance(e, FileNotFoundError):
        return "nofile"
    if isinstance(e, IndexError):
        return "index"
    return "other:" + type(e).__name__


# ------------------------------------------------------------------ case generation

MID = T0 - T0 % DAY      # midnight UTC before T0: cutoff dates are whole days (expire.cutoff_date = YYYY-MM-DD)


def gen_cfg(rng):
    mode = rng.choice(["age-none", "age-none", "age-ov", "age-ov", "cutoff", "cutoff"])
    cfg = {"enabled": rng.random() < 0.8, "imm": rng.random() < 0.8, "mut": rng.random() < 0.8,
           "override": None, "cutoff": None, "prod": rng.random() < 0.65, "spell": rng.randrange(60)}
    if mode == "age-none":
        cfg["mode"] = "age"
    elif mode == "age-ov":
        cfg["mode"] = "age"
        cfg["override"] = rng.choice([0, 1, DAY, 10 * DAY, 31 * DAY, 60 * DAY, 62 * DAY, 365 * DAY])
    else:
        cfg["mode"] = "cutoff-date"
        cfg["cutoff"] = MID + rng.choice([-400 * DAY, -40 * DAY, -DAY, 0, DAY, 5 * DAY])
        if cfg["prod"]:
            cfg["tz"] = rng.choice(ZONES)
    return cfg


def all_cfgs():
    """every combination of enabled x share-type switches x (age, age+override…, cutoff dates), each once through
    the production path (tahoe.cfg -> read_config -> _Client.get_anonymous_storage_server) and once directly"""
    res = []
    n = 0
    for prod in (True, False):
        for enabled in (True, False):
            for imm in (True, False):
                for mut in (True, False):
                    for ov in (None, 0, DAY, 31 * DAY, 60 * DAY):
                        n += 1
                        res.append({"enabled": enabled, "imm": imm, "mut": mut, "mode": "age", "override": ov,
                                    "cutoff": None, "prod": prod, "spell": (7 * n) % 60 if prod else 0})
                    for cd in (MID - 40 * DAY, MID + DAY):
                        n += 1
                        c = {"enabled": enabled, "imm": imm, "mut": mut, "mode": "cutoff-date", "override": None,
                             "cutoff": cd, "prod": prod, "spell": (7 * n) % 60 if prod else 0}
                        if prod:
                            c["tz"] = ZONES[n % len(ZONES)]
                        res.append(c)
    return res


def threshold_renewal(cfg, now):
    """The renewal time at which the documented predicate flips."""
    if cfg["mode"] == "age":
        return now - (31 * DAY if cfg["override"] is None else cfg["override"])
    return cfg["cutoff"]


def gen_renewal(rng, cfg, now):
    th = threshold_renewal(cfg, now)
    r = rng.random()
    if cfg["mode"] != "age" and rng.random() < 0.45:
        return th + rng.choice(TZ_OFFSETS)          # between midnight UTC and some zone's local midnight
    if r < 0.55:
        return th + rng.choice([-2, -1, 0, 1, 2, -DAY, DAY, -3600, 3600])
    if r < 0.7:
        return now - 400 * DAY
    if r < 0.8:
        return now - rng.choice([0, 1, DAY])
    if r < 0.9:
        return now - 31 * DAY + rng.choice([-1, 0, 1])
    return th + rng.randrange(-100 * DAY, 100 * DAY)


def gen_share(rng, cfg, now, uid0, dup_p):
    ty = rng.choice(["i", "m"])
    n = rng.choice([0, 1, 1, 2, 2, 3, 3, 4, 5])
    leases = []
    for j in range(n):
        if leases and rng.random() < dup_p:
            cid = rng.choice(leases)[0]
        else:
            cid = uid0 + j
        ren = gen_renewal(rng, cfg, now)
        ren = max(ren, 40 * DAY)       # expiry and renewal must stay non-negative uint32 values
        leases.append((cid, ren, uid0 + j))
    return {"ty": ty, "leases": leases}


def share_token(sh):
    return sh["ty"] + ":" + (",".join("%d@%d" % (c, r + 31 * DAY) for (c, r, _) in sh["leases"]) or "-")


def case_key(cfg, now, sh):
    ids = {}
    pat = tuple(ids.setdefault(c, len(ids)) for (c, _, _) in sh["leases"])
    return (cfg_key(cfg), sh["ty"], pat, tuple(now - r for (_, r, _) in sh["leases"]))


# ------------------------------------------------------------------ the monitor (property statement on the real code)

def monitor_share(ctx, cfg, now, sh, exists_after, case, full_pass):
    """exists_after: the share file is still there after the crawler passed over its bucket.
    full_pass: the crawler finished the bucket/cycle without an exception (otherwise 'deleted within
    one cycle' is judged as well: the statement does not excuse a crashed crawler)."""
    leases = sh["leases"]
    dup = len(set(c for (c, _, _) in leases)) != len(leases)
    all_exp = all(doc_expired(cfg, now, r) for (_, r, _) in leases)
    should_go = cfg["enabled"] and type_enabled(cfg, sh["ty"]) and all_exp
    mode = "age-no-override" if (cfg["mode"] == "age" and cfg["override"] is None) else \
        ("age-override" if cfg["mode"] == "age" else "cutoff")
    if mode == "cutoff" and cfg.get("prod") and cfg.get("tz") not in UTC_ZONES:
        mode = "cutoff-depends-on-timezone"      # the case differs from the UTC runs only in the process time zone
    if not exists_after:
        if not cfg["enabled"]:
            ctx.violation("share deleted although expiration is disabled", case, "deleted-while-disabled")
        elif not should_go:
            if not type_enabled(cfg, sh["ty"]):
                sig = "deleted-although-type-not-enabled-" + ("mutable" if sh["ty"] == "m" else "immutable")
            else:
                sig = "shared-cancel-secret-deletes-valid-lease" if dup else "deleted-with-valid-lease-" + mode
            ctx.violation("share deleted although a lease is still valid or its type is not enabled", case, sig)
    elif should_go:
        if not leases:
            sig = "zero-lease-share-counted-but-kept"
        elif dup:
            sig = "shared-cancel-secret-expirer-raises"
        else:
            sig = "expired-share-kept-" + mode + (":same-prefix-dir" if case.get("same_prefix") else "")
        ctx.violation("share kept by a whole pass although expiration is enabled for its type and every lease is expired",
                      case, sig)


# ------------------------------------------------------------------ (A) process_bucket directly

def run_bucket(ctx, env, cfg, now, shares, via_server, si_n):
    """Build one bucket on the (cached) server for cfg, call the real process_bucket, return canonical output."""
    from allmydata.storage.common import storage_index_to_dir, si_b2a
    ss = env.server_for(cfg)
    lc = ss.lease_checker
    si = hashlib.sha256(b"si-%d" % si_n).digest()[:16]
    paths = []
    for k, sh in enumerate(shares):
        paths.append(make_share(ss, si, k, sh["ty"], sh["leases"], via_server))
    bdir = os.path.join(ss.sharedir, storage_index_to_dir(si))
    os.makedirs(bdir, exist_ok=True)
    # the server-granted expiry must be renewal + 31 d (assumption sampled here)
    for sh, p in zip(shares, paths):
        got = read_leases(p, sh["leases"])
        want = [(c, r + 31 * DAY) for (c, r, _) in sh["leases"]]
        if got != want:
            ctx.disagree("share construction: leases on disk differ from the case", {"share": sh}, got, want)
    order = [int(fn) for fn in os.listdir(bdir)]          # the order process_bucket will see
    env.ft.now = now
    before = counters(lc)
    hist_before = dict(lc.state["cycle-to-date"]["leases-per-share-histogram"])
    raised = None
    prefix = si_b2a(si)[:2].decode()
    try:
        with tz_env(cfg.get("tz")):
            lc.process_bucket(0, prefix, os.path.join(ss.sharedir, prefix), si_b2a(si).decode())
    except Exception as e:   # noqa
        raised = exc_name(e)
    after = counters(lc)
    hist_after = lc.state["cycle-to-date"]["leases-per-share-histogram"]
    nprocessed = sum(hist_after.get(k, 0) - hist_before.get(k, 0) for k in hist_after)
    outs = []
    for pos, k in enumerate(order):
        sh = shares[k]
        exists = os.path.exists(paths[k])
        case = {"cfg": cfg, "now": now, "shares": shares, "via_server": via_server, "share_index": k}
        if pos < nprocessed:
            rem = read_leases(paths[k], sh["leases"]) if exists else []
            is_last = (pos == nprocessed - 1)
            outs.append("%s/%d/%s" % (raised if (raised and is_last) else "ok", 1 if exists else 0,
                                      ",".join("%d@%d" % x for x in rem) or "-"))
        if pos < nprocessed or raised is None:
            monitor_share(ctx, cfg, now, sh, exists, case, raised is None)
        ctx.case(case_key(cfg, now, sh) if sh["leases"] else None)
        ctx.count("leases:%d" % len(sh["leases"]))
        ctx.count("type:" + sh["ty"])
        ctx.count("deleted" if not exists else "kept")
    ctx.count("mode:%s%s" % (cfg["mode"], "" if cfg["mode"] != "age" else ("+override" if cfg["override"] is not None else "")))
    ctx.count("enabled" if cfg["enabled"] else "disabled")
    if raised:
        ctx.count("raised:" + raised)
    impl = ";".join(outs) + " | " + ",".join(str(a - b) for a, b in zip(after, before)) + " | raised=%d" % (1 if raised else 0)
    line = "gc %s %d %s" % (cfg_tokens(cfg), now, " ".join(share_token(shares[k]) for k in order))
    shutil.rmtree(bdir, ignore_errors=True)
    return impl, line


def canon_model_bucket(out):
    """Model line -> same shape as the implementation's (drop wks / numleases, which the counters carry)."""
    if out is None:
        return None
    shares, tally, raised = out.split(" | ")
    short = []
    for s in shares.split(";"):
        if s:
            f = s.split("/")
            short.append("/".join(f[:3]))
    return ";".join(short) + " | " + tally + " | " + raised


# ------------------------------------------------------------------ (B) whole cycles through start_slice

def run_cycle(ctx, env, cfg, now, buckets, same_prefix=False, order=None):
    """Fresh server, several buckets, one whole cycle driven by the real start_slice().
    same_prefix: all storage indexes share their first 10 bits (one prefix directory); order: how the crawler is
    shown directory listings ("desc" / int seed; None = native)."""
    from allmydata.storage.common import storage_index_to_dir, si_b2a
    ss = env.new_server(cfg)
    lc = ss.lease_checker
    info = []
    for bi, shares in enumerate(buckets):
        si = hashlib.sha256(b"cyc-%d-%d" % (env.n, bi)).digest()[:16]
        if same_prefix:
            si = bytes([0x5a, 0x40 | (si[1] & 0x3f)]) + si[2:]
        paths = [make_share(ss, si, k, sh["ty"], sh["leases"], False) for k, sh in enumerate(shares)]
        bdir = os.path.join(ss.sharedir, storage_index_to_dir(si))
        os.makedirs(bdir, exist_ok=True)
        info.append((si_b2a(si).decode(), bdir, shares, paths, [int(fn) for fn in os.listdir(bdir)]))
    info.sort()   # crawl order: prefixes sorted, bucket names sorted within (names start with their prefix)
    env.ft.now = now
    raised = None
    env.order = order
    try:
        with tz_env(cfg.get("tz")):
            lc.start_slice()
    except Exception as e:   # noqa
        raised = exc_name(e)
    finally:
        env.order = None
    if same_prefix:
        ctx.count("cycle-runs:one-prefix-dir:%d-buckets" % len(buckets))
    outs, lines = [], []
    for (name, bdir, shares, paths, order) in info:
        per = []
        for k in order:
            exists = os.path.exists(paths[k])
            rem = read_leases(paths[k], shares[k]["leases"]) if exists else []
            per.append("ok/%d/%s" % (1 if exists else 0, ",".join("%d@%d" % x for x in rem) or "-"))
            monitor_share(ctx, cfg, now, shares[k], exists,
                          {"cfg": cfg, "now": now, "buckets": buckets, "kind": "cycle", "same_prefix": same_prefix,
                           "order": order}, raised is None)
            ctx.case(case_key(cfg, now, shares[k]) if shares[k]["leases"] else None)
        outs.append(";".join(per))
        lines.append("gc %s %d %s" % (cfg_tokens(cfg), now, " ".join(share_token(shares[k]) for k in order)))
    finished = lc.state["last-cycle-finished"]
    hist = ss.lease_checker._history_serializer.load()
    rec = hist.get("0", {}).get("space-recovered", {}) if raised is None else {}
    total = [rec.get(k, 0) for k in COUNT_KEYS]
    impl = " || ".join(outs) + " | " + ",".join(map(str, total)) + " | raised=%d finished=%s" % (1 if raised else 0, finished)
    ctx.count("cycle-runs")
    shutil.rmtree(ss.storedir, ignore_errors=True)
    return impl, lines


def canon_model_cycle(model_lines):
    if model_lines is None or any(m is None for m in model_lines):
        return None
    per, tot, raised = [], [0] * 24, 0
    for m in model_lines:
        shares, tally, r = canon_model_bucket(m).split(" | ")
        per.append(shares)
        tot = [a + int(b) for a, b in zip(tot, tally.split(","))]
        raised |= int(r.split("=")[1])
    return " || ".join(per) + " | " + ",".join(map(str, tot)) + " | raised=%d finished=%s" % (raised, "None" if raised else "0")


# ------------------------------------------------------------------ fixed corpus (past failures / design probes)

def corpus():
    now = T0
    age = {"enabled": True, "imm": True, "mut": True, "mode": "age", "override": None, "cutoff": None}
    ov31 = dict(age, override=31 * DAY)
    cut = {"enabled": True, "imm": True, "mut": True, "mode": "cutoff-date", "override": None, "cutoff": MID + DAY}
    res = []
    # probe 1: age mode, no override, lease renewed 400 days ago (expired 369 days ago)
    for ty in ("i", "m"):
        res.append((age, now, [{"ty": ty, "leases": [(1, now - 400 * DAY, 1)]}], True))
        res.append((age, now, [{"ty": ty, "leases": [(1, now - 31 * DAY - 1, 1), (2, now - 31 * DAY, 2)]}], True))
    # probe 2: one cancel secret on an expired and on a valid lease
    for ty in ("i", "m"):
        res.append((ov31, now, [{"ty": ty, "leases": [(7, now - 400 * DAY, 1), (7, now, 2)]}], True))
        res.append((cut, now, [{"ty": ty, "leases": [(7, now - 50 * DAY, 1), (7, now - 49 * DAY, 2), (8, now - 48 * DAY, 3)]}], False))
        res.append((cut, now, [{"ty": ty, "leases": [(7, now - 50 * DAY, 1), (7, now - 49 * DAY, 2)]}], False))
        res.append((cut, now, [{"ty": ty, "leases": []}], False))
    # share-type filter through the production configuration path: only one type enabled, both kinds all-expired
    for base in (dict(cut, prod=True), dict(ov31, override=10 * DAY, prod=True)):
        for (imm, mut) in ((True, False), (False, True), (False, False)):
            for ty in ("i", "m"):
                res.append((dict(base, imm=imm, mut=mut), now,
                            [{"ty": ty, "leases": [(1, now - 400 * DAY, 1), (2, now - 50 * DAY, 2)]}], False))
    # lease ORDER on disk (seeded/C26-a): a valid lease in front of / between expired ones must survive the cancel
    # loop and keep the share; all-expired shares in the same orders must go.  V = renewed now, E = 400 days ago.
    for base in (dict(cut, cutoff=MID - 40 * DAY), dict(ov31, prod=True)):
        for ty in ("i", "m"):
            # 5 and more leases: on a mutable share the 5th.. live in the extra-lease area (seeded/C26-e)
            for pat in ("VEEE", "EVEEE", "VEVE", "EEVE", "EEEE", "VEEEE", "EEEEV", "EVEEV", "EEEEE", "EEEEEV", "EVEEEE"):
                leases = [(k + 1, now if ch == "V" else now - 400 * DAY - k, k + 1) for k, ch in enumerate(pat)]
                res.append((base, now, [{"ty": ty, "leases": leases}], False))
    res.append((dict(cut, enabled=False), now, [{"ty": "i", "leases": [(1, now - 400 * DAY, 1)]}], True))
    res.append((dict(cut, imm=False), now, [{"ty": "i", "leases": [(1, now - 400 * DAY, 1)]}, {"ty": "m", "leases": [(2, now - 400 * DAY, 2)]}], False))
    return res


def same_prefix_corpus():
    """(seeded/C26-d) a populated prefix directory - 6 and 22 storage indexes sharing their first 10 bits - listed to the
    crawler in descending / seeded order: every all-expired share of an enabled type must be gone after ONE cycle."""
    res = []
    cutoff = MID - 40 * DAY
    cut = {"enabled": True, "imm": True, "mut": True, "mode": "cutoff-date", "override": None, "cutoff": cutoff}
    ov = {"enabled": True, "imm": True, "mut": True, "mode": "age", "override": 10 * DAY, "cutoff": None, "prod": True, "spell": 3}
    for cfg in (cut, ov):
        for nb in (6, 22):
            for order in ("desc", 5):
                buckets = []
                for b in range(nb):
                    ty = "im"[b % 2]
                    if b % 5 == 4:      # a bucket that must stay: one lease renewed today
                        buckets.append([{"ty": ty, "leases": [(1, T0 - 300 * DAY, 1), (2, T0, 2)]}])
                    else:
                        buckets.append([{"ty": ty, "leases": [(1, T0 - 300 * DAY - b, 1)]}])
                res.append((cfg, T0, buckets, True, order))
    return res


def cycle_corpus():
    """whole cycles on production-path servers in cutoff-date mode, one per process time zone: single-lease shares
    renewed -5h … +13h around the cutoff (midnight UTC of the configured date) and a share with an old and a fresh lease"""
    res = []
    cutoff = MID - 40 * DAY
    for zi, tz in enumerate(ZONES):
        cfg = {"enabled": True, "imm": True, "mut": True, "mode": "cutoff-date", "override": None, "cutoff": cutoff,
               "prod": True, "spell": zi, "tz": tz}
        buckets = []
        for k, off in enumerate(TZ_OFFSETS):
            buckets.append([{"ty": "im"[(k + zi) % 2], "leases": [(1, cutoff + off, 1)]}])
        buckets.append([{"ty": "i", "leases": [(1, cutoff - 300 * DAY, 1), (2, cutoff + 3 * 3600, 2)]},
                        {"ty": "m", "leases": [(3, cutoff - 300 * DAY, 3), (4, cutoff - 5 * 3600, 4)]}])
        res.append((cfg, T0, buckets))
    return res


# ------------------------------------------------------------------ (C) the crawler driving the expirer over schedules

def make_gc_class():
    from allmydata.storage.expirer import LeaseCheckingCrawler
    from props.c27 import Killed

    class GcCrawler(LeaseCheckingCrawler):
        """The real LeaseCheckingCrawler with the C27 scripting hooks (time checks, kills)."""
        cpu_slice = 1.0

        def __init__(self, script, *a):
            self.script = script
            LeaseCheckingCrawler.__init__(self, *a)

        def process_bucket(self, cycle, prefix, prefixdir, storage_index_b32):
            sc = self.script
            if sc.kill_after is not None and sc.calls >= sc.kill_after:
                raise Killed()
            LeaseCheckingCrawler.process_bucket(self, cycle, prefix, prefixdir, storage_index_b32)
            sc.slice_log.append((cycle, prefix, storage_index_b32))
            sc.calls += 1
            sc.checkpoint()

        def finished_prefix(self, cycle, prefix):
            self.script.checkpoint()

        def save_state(self):
            if self.script.kill_after is not None:
                raise Killed()
            LeaseCheckingCrawler.save_state(self)

    return GcCrawler


def run_gc_schedule(ctx, env, sched):
    """sched = {"kind": "gc", "cfg": cfg, "buckets": [{"same": bool, "shares": [share]}], "events": [event]},
    event = {"k": "s"|"k"|"r", "now": int, "o": [check indices], "kill": K}.
    Real share files, a real LeaseCheckingCrawler driven slice by slice; compared with the model's gcRun after every
    event (process_bucket log, state file, every share file and its leases)."""
    from allmydata.storage.common import storage_index_to_dir, si_b2a
    from props import c27
    cfg = sched["cfg"]
    ss = env.new_server(cfg)
    crawler_mod = env.mods[2]
    script = c27.Script(c27.FakeTime())
    if not hasattr(env, "gc_cls"):
        env.gc_cls = make_gc_class()
    statefile = os.path.join(ss.storedir, "gc.state")
    histfile = os.path.join(ss.storedir, "gc.history")
    types = tuple(t for t, on in (("immutable", cfg["imm"]), ("mutable", cfg["mut"])) if on)

    def new_crawler():
        return env.gc_cls(script, ss, statefile, histfile, cfg["enabled"], cfg["mode"], cfg["override"], cfg["cutoff"], types)

    binfo = []
    for bi, bk in enumerate(sched["buckets"]):
        si = hashlib.sha256(b"gc-%d-%d" % (env.n, bi)).digest()[:16]
        if bk["same"]:
            si = bytes([0x5a, 0x40 | (si[1] & 0x3f)]) + si[2:]
        paths = {k: make_share(ss, si, k, sh["ty"], sh["leases"], False) for k, sh in enumerate(bk["shares"])}
        binfo.append((si_b2a(si).decode(), os.path.join(ss.sharedir, storage_index_to_dir(si)), bk["shares"], paths))
    binfo.sort()
    names = [b[0] for b in binfo]
    rank = {n: i for i, n in enumerate(names)}
    saved_time = crawler_mod.time
    crawler_mod.time = script.ft
    try:
        c = new_crawler()
        prefixes = c.prefixes
        pidx = {p: i for i, p in enumerate(prefixes)}

        def share_tok(k, sh, leases):
            return "%d.%s.%s" % (k, sh["ty"], "_".join("%d@%d" % x for x in leases) or "-")

        world = ";".join("%d=%s" % (rank[n], "|".join(share_tok(k, sh, [(cid, r + 31 * DAY) for (cid, r, _) in sh["leases"]])
                                                        for k, sh in enumerate(shares)))
                         for (n, _, shares, _) in binfo) or "-"
        by_prefix = {}
        for n in names:
            by_prefix.setdefault(n[:2], [])
        for p in by_prefix:
            by_prefix[p] = crawler_mod.os.listdir(os.path.join(ss.sharedir, p))
        listing = ",".join("%d:%s" % (pidx[p], ".".join(str(rank[n]) for n in by_prefix[p]))
                           for p in sorted(by_prefix, key=lambda p: pidx[p])) or "-"
        outs, toks = [], []
        aborted = None          # an exception other than the scripted kill left start_slice
        abort_tb = []
        disturbed = False       # a kill / restart happened while a cycle was in progress
        for ev in sched["events"]:
            env.ft.now = ev["now"]
            stb = c27.read_state(statefile, rank, prefixes)[1]
            in_cycle = stb is not None and stb["current-cycle"] is not None
            oracle = ",".join(str(i) for i in sorted(set(ev.get("o", [])))) or "-"
            exc = ""
            if ev["k"] == "r":
                c = new_crawler()
                toks.append("%d~r" % ev["now"])
                script.slice_log = []
                disturbed = disturbed or in_cycle
            elif ev["k"] == "s":
                script.arm(set(ev["o"]), None, 0)
                try:
                    c.start_slice()
                except Exception as e:   # noqa - the real node would log it and never schedule this crawler again
                    import traceback
                    abort_tb = [l.strip().replace("\n", " ") for l in traceback.format_exc().split("  File")]
                    exc = "EXC:%s " % type(e).__name__
                    aborted = aborted or type(e).__name__
                toks.append("%d~s/%s/%s" % (ev["now"], oracle, listing))
            else:
                script.arm(set(ev["o"]), ev["kill"], 0)
                disturbed = True
                try:
                    c.start_slice()
                    raise AssertionError("scripted kill did not happen")
                except c27.Killed:
                    pass
                except AssertionError:
                    raise
                except Exception as e:   # noqa
                    import traceback
                    abort_tb = [l.strip().replace("\n", " ") for l in traceback.format_exc().split("  File")]
                    exc = "EXC:%s " % type(e).__name__
                    aborted = aborted or type(e).__name__
                script.kill_after = None
                c = new_crawler()
                toks.append("%d~k%d/%s/%s" % (ev["now"], ev["kill"], oracle, listing))
            lg = ",".join("%d.%d.%d" % (cy, pidx[p], rank[b]) for (cy, p, b) in script.slice_log) or "-"
            st = c27.read_state(statefile, rank, prefixes)[0]
            dump = []
            for (n, bdir, shares, paths) in binfo:
                per = []
                for k, sh in enumerate(shares):
                    if os.path.exists(paths[k]):
                        per.append(share_tok(k, sh, read_leases(paths[k], sh["leases"])))
                dump.append("%d=%s" % (rank[n], "|".join(per)))
            outs.append("%s%s/%s#%s" % (exc, lg, st, ";".join(dump) or "-"))    # the whole schedule is compared
            ctx.case(("gc", cfg_key(cfg), ev["k"], oracle, ev.get("kill"), st) if (script.slice_log or ev["k"] != "s") else None)
            ctx.count("gc-event:" + ev["k"])
        # the statement, over the whole schedule: shares with a lease that is valid throughout must still be there; all-expired
        # shares of an enabled type must be gone once a cycle has been completed
        if aborted and len(ctx.notes) < 4:
            ctx.note("crawler aborted: " + " | ".join(abort_tb[-3:]))
        if aborted:
            # every share here is well-formed: nothing may throw the crawler off; a dead crawler collects nothing any more
            ctx.violation("an exception left the lease crawler's slice (the node never runs this crawler again): expired shares are "
                          "no longer collected in this or any later cycle", sched,
                          "crawler-aborted:%s%s" % ("lease-age-histogram" if any("histogram" in l for l in abort_tb) else aborted,
                                                    ":after-restart-inside-a-cycle" if disturbed else ""))
        nows = [ev["now"] for ev in sched["events"]]
        fin = c27.read_state(statefile, rank, prefixes)[1]
        cycle_done = fin is not None and fin["last-cycle-finished"] is not None
        for (n, bdir, shares, paths) in binfo:
            for k, sh in enumerate(shares):
                exists = os.path.exists(paths[k])
                en = cfg["enabled"] and type_enabled(cfg, sh["ty"])
                always_exp = all(doc_expired(cfg, t, r) for (_, r, _) in sh["leases"] for t in nows)
                some_valid = any(all(not doc_expired(cfg, t, r) for t in nows) for (_, r, _) in sh["leases"])
                if not exists and (not en or some_valid):
                    ctx.violation("share deleted during a schedule although its type is not enabled or a lease stayed valid",
                                  sched, "schedule:deleted-with-valid-lease")
                if exists and en and always_exp and cycle_done and sh["leases"]:
                    ctx.violation("all-expired share of an enabled type survived a completed crawl cycle", sched,
                                  "schedule:expired-share-kept-after-full-cycle")
        ctx.count("gc-schedules")
    finally:
        crawler_mod.time = saved_time
    shutil.rmtree(ss.storedir, ignore_errors=True)
    return " || ".join(outs), "gcrun %s %d %s %s" % (cfg_tokens(cfg), len(prefixes), world, " ".join(toks))


def gen_gc_schedule(rng, fixed=None):
    from props import c27
    cfg = gen_cfg(rng) if fixed is None else fixed
    cfg = dict(cfg, prod=False)
    now = T0
    nb = rng.choice([2, 3, 4, 6])
    buckets = []
    for b in range(nb):
        shares = []
        for k in range(rng.choice([1, 1, 2])):
            sh = gen_share(rng, cfg, now, 100 * b + 10 * k + 1, 0.0)
            if not sh["leases"]:
                sh["leases"] = [(100 * b + 10 * k + 1, now - 400 * DAY, 100 * b + 10 * k + 1)]
            shares.append(sh)
        buckets.append({"same": rng.random() < 0.6, "shares": shares})
    evs = []
    t = now
    for _ in range(rng.choice([3, 4, 6, 8])):
        t += rng.choice([0, 1, 3600, DAY])
        r = rng.random()
        o = [rng.randrange(0, nb + 4) for _ in range(rng.choice([0, 1, 1, 2]))]
        if rng.random() < 0.3:
            o.append(rng.randrange(0, 1024 + nb))
        if r < 0.1:
            evs.append({"k": "r", "now": t})
        elif r < 0.3:
            evs.append({"k": "k", "now": t, "o": o, "kill": rng.randrange(0, nb + 1)})
        else:
            evs.append({"k": "s", "now": t, "o": o})
    evs.append({"k": "s", "now": t, "o": []})
    evs.append({"k": "s", "now": t, "o": []})
    return {"kind": "gc", "cfg": cfg, "buckets": buckets, "events": evs}


def gc_corpus():
    cut = {"enabled": True, "imm": True, "mut": True, "mode": "cutoff-date", "override": None, "cutoff": MID - 40 * DAY,
           "prod": False}
    old, new = T0 - 400 * DAY, T0

    def bk(same, *shares):
        return {"same": same, "shares": [{"ty": ty, "leases": [(10 * i + j + 1, r, 10 * i + j + 1) for j, r in enumerate(rs)]}
                                         for i, (ty, rs) in enumerate(shares)]}
    buckets = [bk(True, ("i", [old])), bk(True, ("m", [old, new]), ("m", [old])), bk(True, ("i", [old, old - 5])),
               bk(False, ("m", [new])), bk(False, ("i", [old]))]
    res = []
    # interruption after the first bucket, a slice killed after one more call, then to the end of the cycle and a second cycle
    res.append({"kind": "gc", "cfg": cut, "buckets": buckets, "events": [
        {"k": "s", "now": T0, "o": [0]}, {"k": "k", "now": T0 + 10, "o": [], "kill": 1}, {"k": "s", "now": T0 + 20, "o": [1]},
        {"k": "r", "now": T0 + 30}, {"k": "s", "now": T0 + 40, "o": []}, {"k": "s", "now": T0 + 50, "o": []}]})
    res.append({"kind": "gc", "cfg": dict(cut, enabled=False), "buckets": buckets, "events": [
        {"k": "s", "now": T0, "o": [1]}, {"k": "s", "now": T0 + 20, "o": []}]})
    res.append({"kind": "gc", "cfg": dict(cut, mut=False), "buckets": buckets, "events": [
        {"k": "k", "now": T0, "o": [], "kill": 2}, {"k": "s", "now": T0 + 20, "o": [2]}, {"k": "s", "now": T0 + 20, "o": []}]})
    age = {"enabled": True, "imm": True, "mut": True, "mode": "age", "override": None, "cutoff": None, "prod": False}
    # age mode: a lease that expires between two slices of the same cycle
    b2 = [bk(True, ("i", [T0 - 31 * DAY + 5])), bk(True, ("m", [T0 - 31 * DAY + 5, T0])), bk(True, ("i", [old]))]
    res.append({"kind": "gc", "cfg": age, "buckets": b2, "events": [
        {"k": "s", "now": T0, "o": [0]}, {"k": "s", "now": T0 + 100, "o": []}, {"k": "s", "now": T0 + 200, "o": []}]})
    return res


def run_hist(ctx, env):
    """The expirer's own state in the state file: lease-age histogram built by the real add_lease_age_to_histogram,
    saved inside a cycle by the real save_state (JSON list form), restored by a NEW LeaseCheckingCrawler
    (add_initial_state), extended again - against the model's histAdd / histToJson / histFromJson."""
    from allmydata.storage.expirer import LeaseCheckingCrawler
    rng = ctx.rng
    cfg = {"enabled": False, "imm": True, "mut": True, "mode": "age", "override": None, "cutoff": None}
    fixed = [([5, 86400, -5, -86401, 90000], [100, 200000]), ([], [7]), ([3 * DAY + 1, 3 * DAY, 3 * DAY - 1], []),
             ([400 * DAY, 1, 0, -1], [400 * DAY, 86399, 86400, -86400])]
    n = 0 if os.environ.get("VERIF_CORPUS_ONLY") else ctx.budget(40, 800)
    cases = list(fixed)
    for _ in range(n):
        def ages():
            return [rng.choice([0, 1, -1, DAY, DAY - 1, -DAY, -DAY - 1, 31 * DAY, rng.randrange(-3 * DAY, 500 * DAY)])
                    for _ in range(rng.choice([0, 1, 3, 8]))]
        cases.append((ages(), ages()))
    impl, lines = [], []

    def js(lc):
        l = lc.convert_lease_age_histogram(lc.state["cycle-to-date"]["lease-age-histogram"])
        return ",".join("%d:%d:%d" % tuple(t) for t in l) or "-"
    for (a, b) in cases:
        ss = env.new_server(cfg)
        lc = ss.lease_checker
        lc.state["current-cycle"] = 0            # inside a cycle: save_state keeps cycle-to-date (in its JSON form)
        for age in a:
            lc.add_lease_age_to_histogram(age)
        first = js(lc)
        lc.save_state()
        lc2 = LeaseCheckingCrawler(ss, os.path.join(ss.storedir, "lease_checker.state"),
                                   os.path.join(ss.storedir, "lease_checker.history"), False, "age", None, None,
                                   ("mutable", "immutable"))
        try:
            for age in b:
                lc2.add_lease_age_to_histogram(age)
            second = js(lc2)
        except Exception as e:   # noqa
            second = "EXC:" + type(e).__name__
            if b:
                ctx.violation("the lease crawler cannot continue its cycle after a restart: updating the lease-age histogram raises",
                              {"kind": "hist", "before": a, "after": b}, "crawler-aborted:lease-age-histogram:after-restart-inside-a-cycle")
        impl.append(first + " | " + second)
        lines.append("hist %s %s" % (",".join(map(str, a)) or "-", ",".join(map(str, b)) or "-"))
        ctx.case(("hist", tuple(a), tuple(b)) if (a or b) else None)
        ctx.count("hist-cases")
        shutil.rmtree(ss.storedir, ignore_errors=True)
    ctx.compare("lease-age histogram across a state-file round trip inside a cycle",
                [{"kind": "hist", "before": a, "after": b} for (a, b) in cases], impl, ctx.model(lines))


def run_settings(ctx, env):
    """tahoe.cfg -> crawler configuration, including absent keys, unknown mode names and settings that do not belong
    to the chosen mode: the production path (read_config + _Client.get_anonymous_storage_server +
    LeaseCheckingCrawler.__init__) against the model's configFromSettings."""
    import time as _t
    from allmydata.node import MissingConfigEntry
    grid = []
    for en in (None, True, False):
        for mode in (None, "age", "cutoff-date", "bogus"):
            for ov in (None, 10 * DAY):
                for cut in (None, MID - 40 * DAY):
                    for imm in (None, True, False):
                        for mut in (None, True, False):
                            grid.append((en, mode, ov, cut, imm, mut))
    n = ctx.budget(140, len(grid))
    if n < len(grid):
        ctx.rng.shuffle(grid)
        grid = grid[:n]
    impl, lines, cases = [], [], []
    for (en, mode, ov, cut, imm, mut) in grid:
        text = ["[node]", "nickname = verif", "[storage]", "enabled = true"]
        for key, v in (("expire.enabled", en), ("expire.immutable", imm), ("expire.mutable", mut)):
            if v is not None:
                text.append("%s = %s" % (key, "true" if v else "false"))
        if mode is not None:
            text.append("expire.mode = %s" % mode)
        if ov is not None:
            text.append("expire.override_lease_duration = %d days" % (ov // DAY))
        if cut is not None:
            text.append("expire.cutoff_date = %s" % _t.strftime("%Y-%m-%d", _t.gmtime(cut)))
        env.n += 1
        d = os.path.join(env.root, "cfg%d" % env.n)
        try:
            ss = env.production_server(None, d, text="\n".join(text) + "\n")
            got = env.parsed_config(ss)
        except MissingConfigEntry as e:
            got = "error:missing-mode" if "expire.mode" in str(e) else \
                ("error:missing-cutoff" if "expire.cutoff_date" in str(e) else "error:missing:" + str(e)[:60])
        except ValueError as e:
            got = "error:bad-mode" if "GC mode" in str(e) else "error:ValueError:" + str(e)[:60]
        shutil.rmtree(d, ignore_errors=True)

        def ob(v):
            return "-" if v is None else ("1" if v else "0")
        lines.append("cfg %s %s %s %s %s %s" % (ob(en), mode or "-", "-" if ov is None else ov, "-" if cut is None else cut,
                                                ob(imm), ob(mut)))
        impl.append(got)
        cases.append({"settings": text})
        ctx.case(("settings", en, mode, ov, cut, imm, mut))
        ctx.count("settings:" + (got.split(":")[1] if got.startswith("error") else "ok"))
        # statement, first clause: nothing may be deleted unless expire.enabled is set - checked on the configuration
        if not en and not got.startswith("error") and not got.startswith("enabled=False"):
            ctx.violation("expiration is active although expire.enabled is absent/false", {"settings": text},
                          "enabled-without-expire-enabled")
    ctx.compare("tahoe.cfg expire.* settings -> configuration of LeaseCheckingCrawler (production path)",
                cases, impl, ctx.model(lines))


def run(ctx):
    common.setup_impl_path()
    env = Env(ctx)
    try:
        _run(ctx, env)
    finally:
        env.close()


def _run(ctx, env):
    rng = ctx.rng
    cases = []      # (cfg, now, shares, via_server)
    if ctx.replay:
        c = ctx.replay["case"]
        if c.get("kind") == "gc":
            c["buckets"] = [{"same": b["same"], "shares": [fix_share(x) for x in b["shares"]]} for b in c["buckets"]]
            a, l = run_gc_schedule(ctx, env, c)
            ctx.compare("lease crawler over a schedule", [c], [a], ctx.model([l]))
            return
        if c.get("kind") == "cycle":
            impl, lines = run_cycle(ctx, env, c["cfg"], c["now"], [[fix_share(s) for s in b] for b in c["buckets"]],
                                    c.get("same_prefix", False), c.get("order"))
            ctx.compare("whole cycle", [c], [impl], [canon_model_cycle(ctx.model(lines))])
            return
        cases = [(c["cfg"], c["now"], [fix_share(s) for s in c["shares"]], c.get("via_server", False))]
    else:
        cases += corpus()
        cfgs = all_cfgs()
        n = 0 if os.environ.get("VERIF_CORPUS_ONLY") else ctx.budget(500, 12000)   # knob: fixed corpora only
        for i in range(n):
            cfg = cfgs[(i - i // 3) % len(cfgs)] if i % 3 else gen_cfg(rng)
            now = T0 + rng.choice([0, 1, 12345, 200 * DAY])
            nsh = rng.choice([1, 1, 1, 2, 3]) if rng.random() < 0.97 else 0
            dup_p = rng.choice([0.0, 0.0, 0.0, 0.3, 0.7])
            shares = [gen_share(rng, cfg, now, 10 * k + 1, dup_p) for k in range(nsh)]
            via = (nsh == 1 and rng.random() < 0.5)
            cases.append((cfg, now, shares, via))
    if not ctx.replay:
        run_settings(ctx, env)
        run_hist(ctx, env)
        gcs = gc_corpus()
        if not os.environ.get("VERIF_CORPUS_ONLY"):
            gcs += [gen_gc_schedule(rng) for _ in range(ctx.budget(30, 600))]
        gi, gl = [], []
        for g in gcs:
            a, l = run_gc_schedule(ctx, env, g)
            gi.append(a)
            gl.append(l)
        ctx.compare("lease crawler over a schedule (slices, kills, restarts): process_bucket log, state file, every share file",
                    gcs, gi, ctx.model(gl))
    impl, lines = [], []
    for i, (cfg, now, shares, via) in enumerate(cases):
        a, l = run_bucket(ctx, env, cfg, now, shares, via, i)
        impl.append(a)
        lines.append(l)
    model = ctx.model(lines)
    ctx.compare("process_bucket: per-share outcome / remaining leases / space-recovered counts",
                [{"cfg": c[0], "now": c[1], "shares": c[2], "via_server": c[3]} for c in cases],
                impl, None if model is None else [canon_model_bucket(m) for m in model])
    ctx.sample({"line": lines[0], "impl": impl[0]})
    ctx.sample({"line": lines[-1], "impl": impl[-1]})
    if ctx.replay:
        return
    # (B) whole cycles: distinct cancel secrets (a raising bucket would abort the cycle; those are covered by (A))
    ncyc = 0 if os.environ.get("VERIF_CORPUS_ONLY") else ctx.budget(60, 1200)
    cyc_cases, cyc_impl, cyc_model = [], [], []
    fixed = same_prefix_corpus() + cycle_corpus()
    for i in range(len(fixed) + ncyc):
        same, order = False, None
        if i < len(fixed):
            cfg, now, buckets = fixed[i][:3]
            if len(fixed[i]) > 3:
                same, order = fixed[i][3], fixed[i][4]
        elif i % 4 == 0:
            # populated prefix directory: 6..22 buckets whose storage indexes share their first 10 bits
            cfg = gen_cfg(rng)
            now = T0 + rng.choice([0, 1, 200 * DAY])
            buckets = [[gen_share(rng, cfg, now, 100 * b + 1, 0.0)] for b in range(rng.choice([6, 9, 14, 22]))]
            same, order = True, rng.choice(["desc", rng.randrange(1000), None])
        else:
            cfg = gen_cfg(rng)
            now = T0 + rng.choice([0, 1, 200 * DAY])
            buckets = [[gen_share(rng, cfg, now, 100 * b + 10 * k + 1, 0.0) for k in range(rng.choice([1, 1, 2]))]
                       for b in range(rng.choice([1, 2, 3, 4]))]
        a, ls = run_cycle(ctx, env, cfg, now, buckets, same, order)
        cyc_cases.append({"cfg": cfg, "now": now, "buckets": buckets, "kind": "cycle", "same_prefix": same, "order": order})
        cyc_impl.append(a)
        cyc_model.append(canon_model_cycle(ctx.model(ls)))
    if all(m is not None for m in cyc_model):
        ctx.compare("whole cycle through start_slice: kept/deleted shares, remaining leases, cycle totals in the history",
                    cyc_cases, cyc_impl, cyc_model)
    if cyc_impl:
        ctx.sample({"cycle": cyc_cases[0]["buckets"][:1], "impl": cyc_impl[0]})


def fix_share(s):
    return {"ty": s["ty"], "leases": [tuple(x) for x in s["leases"]]}
