"""C48 — configuration values parse to their documented meaning
(util/time_format.py parse_duration / parse_date, util/abbreviate.py parse_abbreviated_size / abbreviate_space)."""
import datetime
import os
import re
import time
import unicodedata

ID = "C48"
LEAN_PROPS = "Tahoe.Props.C48"
DRIVER = "C48"
GENERATED = ["config"]
SOURCES = ["src/allmydata/util/time_format.py", "src/allmydata/util/abbreviate.py", "src/allmydata/client.py", "src/allmydata/storage/expirer.py"]
DESIGN_REF = "DESIGN.md §2 C48"
TECHNIQUE = ("Lean 4 theorems (39, Tahoe/Props/C48.lean) over (i) character-level recognisers transcribing the three regexes of "
             "parse_duration / parse_abbreviated_size / parse_date (abstract alphabet: digit value, whitespace, newline, ASCII code "
             "point, U+017F, U+0131, other), (ii) an exact integer model of the float arithmetic of abbreviate_space, (iii) a model "
             "of the client.py glue (_Config.get_config, configparser.getboolean words, the expire.mode literals, "
             "_Client.get_anonymous_storage_server, LeaseCheckingCrawler.__init__ mode check); unit tables and pattern strings are "
             "extracted from the source and pinned by named theorems; differential correspondence of every parser call, of "
             "print-then-parse and of generated tahoe.cfg [storage] sections (real read_config + get_anonymous_storage_server) "
             "against the Lean driver, dates under 10 process time zones, a scan of every Unicode code point validating the alphabet "
             "abstraction (thorough tier), and a seed-independent fixed corpus run first (VERIF_CORPUS_ONLY=1 runs only it)")
LEVEL_TEXT = ("Proved in Lean for all inputs: each parser accepts exactly the documented grammar with the documented value "
              "(duration_accepts_iff, size_accepts_iff, date_accepts_iff; documented_spellings_*, accepted_implies_grammar_*, "
              "malformed_rejected, size_rejection_is_valueError); unit values and regex strings pinned (month_is_31_days, "
              "*_regex_pinned, …); dates are midnight UTC of an existing day (date_midnight_utc, ordinal_epoch, ordinal_next_day); "
              "each [storage] setting reaches its parser and configures the documented value (glue_reserved_space, "
              "glue_override_lease_duration, glue_cutoff_date, glue_booleans), a malformed, blank or unreadable setting stops node "
              "start (glue_malformed_value_stops_start, glue_bad_boolean_or_mode_stops_start, glue_blank_value_stops_start, "
              "get_config_present_reaches_parser), a documented configuration starts it (glue_documented_config_starts); boolean "
              "words and mode literals (getboolean_spellings, classifyBool_iff, mode_literals).  Print-then-parse is proved only for "
              "sizes < 1024 (print_then_parse_partial); for sizes >= 1024 it is false of the code (print_then_parse_counterexample, "
              "printed_large_rejected; open known finding print-parse-decimal-rejected).  Correspondence only: time-zone independence "
              "of parse_date, regex ≙ recogniser and the character abstraction, configparser's file syntax.")
LEVEL_NOTE = ("Lean kernel + standard axioms; the models are hand-written and tied by correspondence (0 disagreements); characters are "
              "abstracted to classes by harness sym_of (str.isdecimal/isspace = re's \\d/\\s) and, for literal-compared values, lit_sym; "
              "sym_of is validated on all 0x110000 code points in the thorough tier.  The two C48 defects found (documented size "
              "spellings with a space rejected; lenient dates) are repaired in /repo (8480b59, 396b8df) and modelled as repaired.")
RULE = ("one case = one generated tahoe.cfg [storage] section through read_config + _Client.get_anonymous_storage_server, or one call "
        "of parse_duration / parse_date / parse_abbreviated_size on a generated string, or one abbreviate_space→"
        "parse_abbreviated_size round trip; distinct = distinct (function, argument) resp. distinct cfg text; non-trivial = the "
        "argument contains at least one digit (so the number part of the grammar is entered); the date cases are additionally run "
        "under each process time zone of ZONES (TZ + time.tzset), one case per (date, zone); the fixed corpus (doc examples, every "
        "seeded change C48-a..e, both repaired defects, boundary and blank values) runs first and does not depend on VERIF_SEED")
TRUSTED = ["lean/Tahoe/Config/Parse.lean is a hand transcription of the four util functions (regexes as greedy recognisers, justified in its header)",
           "lean/Tahoe/Config/Glue.lean is a hand transcription of _Config.get_config (strip; present-blank is not absent), "
           "configparser.getboolean, the expire.mode comparison, _Client.get_anonymous_storage_server and LeaseCheckingCrawler.__init__",
           "harness/props/c48.py sym_of / lit_sym: the abstraction of a Python character to the model's alphabet",
           "harness/extract_parts/config.py: unit tables and pattern strings recovered from the functions' ASTs",
           "the harness drives the real read_config + get_anonymous_storage_server on a _Client built without Node.__init__ "
           "(no tubs, no introducer; get_config bound as Node.__init__ does)"]
ASSUMPTIONS = ["glue: each value is written on one physical line of tahoe.cfg without '%' (no continuation lines, no interpolation); "
               "option names are written in lower case; storage_dir, plugins and pre-1.3 config files are outside the model",
               "arguments are str (tahoe.cfg values); parse_abbreviated_size(None) behaves like ''",
               "abbreviate_space is given an int 0 <= s < 2**1000 (no float overflow); None -> 'unknown' and abbreviate_space_both not modelled",
               "correspondence only (no theorem): parse_date does not depend on the process time zone; Python's backtracking regex "
               "matcher agrees with the greedy recognisers; the character classes of sym_of",
               "'accepted and read as something else' is judged against the most permissive reading of the documentation: any Unicode "
               "decimal digit counts as its digit, any Unicode whitespace as a space, letters compare by str.upper(); surrounding "
               "whitespace is neither required to be accepted nor to be rejected",
               "printed sizes >= 1024 are rounded to 2 decimals, so 'the same value' can only mean: the value the printed string "
               "denotes, which is within half a unit of the last printed place (0.005 * base**i, +1 for truncation) of the size "
               "(monitor tolerance; not reached, since the parser rejects the decimal point — open known finding)"]

# ------------------------------------------------------------------ documented tables (monitor's own; written from the docs)
DAY = 86400
DOC_DURATION = {"s": 1, "second": 1, "seconds": 1,           # docstring of parse_duration / test_time_format
                "day": DAY, "days": DAY,                      # docs/garbage-collection.rst
                "mo": 31 * DAY, "month": 31 * DAY, "months": 31 * DAY,
                "year": 365 * DAY, "years": 365 * DAY}
SCALES = ["", "K", "M", "G", "T", "P", "E"]
PRINT_PREFIX = ["", "k", "M", "G", "T", "P", "E"]


def doc_size_value(n, scale, binary):
    return n * (1024 if binary else 1000) ** SCALES.index(scale.upper())


# ------------------------------------------------------------------ abstraction of characters (tie to the Lean alphabet)
def sym_of(ch):
    if ch == "\n":
        return "n"
    if ch == "ſ":
        return "S"
    if ch == "ı":
        return "I"
    if ch.isdecimal():
        return "d%d" % unicodedata.decimal(ch)
    if ch.isspace():
        return "w"
    if ord(ch) < 128:
        return "a%d" % ord(ch)
    return "o"


def line_of(fn, s):
    return fn + " " + (" ".join(sym_of(c) for c in s) if s else "-")


# ------------------------------------------------------------------ the real code
_IMPL = {}


def impl_call(fn, s):
    if not _IMPL:
        from allmydata.util import time_format, abbreviate
        _IMPL.update({"dur": time_format.parse_duration, "date": time_format.parse_date, "size": abbreviate.parse_abbreviated_size})
    f = _IMPL[fn]
    try:
        v = f(s)
    except (ValueError, KeyError) as e:
        return type(e).__name__
    except Exception as e:          # anything else is reported as such (never expected)
        return "EXC:" + type(e).__name__
    if v is None:
        return "none"
    if type(v) is not int:
        return "nonint:%r" % (v,)
    return "ok:%d" % v


# ------------------------------------------------------------------ reference readings (most permissive reading of the docs)
def canon(s):
    out = []
    for ch in s:
        if ch.isdecimal():
            out.append(str(unicodedata.decimal(ch)))
        elif ch.isspace():
            out.append(" ")
        else:
            out.append(ch.upper())
    return "".join(out)


_REF_DUR = re.compile(r" *([0-9]+) *(%s) *" % "|".join(sorted((u.upper() for u in DOC_DURATION), key=len, reverse=True)))
_REF_SIZE = re.compile(r" *([0-9]+) *([KMGTPE]?)(I?)B? *")
_REF_DATE = re.compile(r" *([0-9]{4})-([0-9]{2})-([0-9]{2}) *")


def ref_value(fn, s):
    """Value the documentation gives the string under its most permissive reading, or None if there is none."""
    c = canon(s)
    if fn == "dur":
        m = _REF_DUR.fullmatch(c)
        return int(m.group(1)) * DOC_DURATION[m.group(2).lower()] if m else None
    if fn == "size":
        m = _REF_SIZE.fullmatch(c)
        return doc_size_value(int(m.group(1)), m.group(2), bool(m.group(3))) if m else None
    m = _REF_DATE.fullmatch(c)
    if not m:
        return None
    try:
        d = datetime.date(int(m.group(1)), int(m.group(2)), int(m.group(3)))
    except ValueError:
        return None
    return (d - datetime.date(1970, 1, 1)).days * 86400


def malformed_signature(fn, s):
    """Input class of a string that has no documented reading but was accepted."""
    c = canon(s)
    if fn == "date":
        if re.fullmatch(r"[0-9]{4}-[0-9]{2}-[0-9]{2}", c):
            return "date-nonexistent-day-accepted"
        if re.match(r"[0-9]{4}-[0-9]{2}-[0-9]{2}", c):
            return "date-trailing-text-accepted"
        return "date-malformed-accepted"
    return {"dur": "duration", "size": "size"}[fn] + "-malformed-accepted"


def monitor_parse(ctx, fn, s, out, documented=None):
    """The property statement on one call.  `documented` = value promised by the docs when the string was
    generated as a documented spelling (then acceptance with that value is demanded), else None."""
    case = {"fn": fn, "s": s}
    if documented is not None:
        case["documented"] = list(documented)     # so that a replay demands the same
    if out.startswith(("EXC:", "nonint:")):
        ctx.violation("%s(%r): neither an int nor a ValueError/KeyError: %s" % (fn, s, out), case, fn + "-unexpected-outcome", out)
        return
    accepted = out.startswith("ok:")
    if documented is not None:
        tag = documented[0]
        if not accepted:
            ctx.violation("documented spelling %r rejected by %s (%s); documented value %d" % (s, fn, out, documented[1]),
                          case, tag + "-rejected", out)
            return
        if int(out[3:]) != documented[1]:
            ctx.violation("documented spelling %r read as %s, documented value %d" % (s, out, documented[1]), case, tag + "-misvalued", out)
            return
    if accepted:
        want = ref_value(fn, s)
        if want is None:
            ctx.violation("%s accepts %r as %s although no reading of the documentation gives it a value" % (fn, s, out[3:]),
                          case, malformed_signature(fn, s), out)
        elif want != int(out[3:]):
            ctx.violation("%s reads %r as %s, the documented value is %d" % (fn, s, out[3:], want), case,
                          {"dur": "duration", "size": "size", "date": "date"}[fn] + "-misread", out)


def print_tolerance(si, s):
    U = 1000 if si else 1024
    i = 1
    while i < 6 and s >= U ** (i + 1):
        i += 1
    return (U ** i + 199) // 200 + 1


def monitor_roundtrip(ctx, si, n):
    """Printed sizes parse back to the same value (as far as rounding lets 'same' mean anything)."""
    from allmydata.util import abbreviate
    printed = abbreviate.abbreviate_space(n, SI=si)
    back = impl_call("size", printed)
    case = {"fn": "rt", "si": si, "n": n}
    if not back.startswith("ok:"):
        sig = "print-parse-bytes-rejected" if n < 1024 else ("print-parse-decimal-rejected" if "." in printed else "print-parse-rejected")
        ctx.violation("abbreviate_space(%d, SI=%s) prints %r, which parse_abbreviated_size rejects (%s)" % (n, si, printed, back),
                      case, sig, back)
    else:
        v = int(back[3:])
        if (n < 1024 and v != n) or abs(v - n) > print_tolerance(si, n):
            ctx.violation("abbreviate_space(%d, SI=%s) prints %r, which parses back as %d" % (n, si, printed, v), case,
                          "print-parse-misvalued", back)
    return printed.replace(" ", "_"), back


# ------------------------------------------------------------------ generators
ASCII_WS = [" ", " ", " ", "\t"]
UNI_WS = [" ", " ", "　", "\x1f", "\x0b", "\x0c", "\r", " ", "\x85"]
UNI_ZERO = [0x0660, 0x06F0, 0x0966, 0xFF10, 0x1D7CE, 0x0E50]      # Arabic-Indic, ext. Arabic, Devanagari, fullwidth, math bold, Thai
SPECIAL = ["ſ", "ı", "K", "İ", "ß", "ﬁ", "ẗ", "µ", "²", "①", "ŉ"]
POOL = (list("0123456789") * 2 + list("secondaymthrSECONDAYMTHR") + list("kmgtpeibKMGTPEIB") + [" ", " ", "\t", "\n", ".", "-", "-", ":", "T", "_", "+", ",", "x"]
        + UNI_WS[:4] + SPECIAL + [chr(z + 3) for z in UNI_ZERO])


def rand_case(rng, w):
    mode = rng.random()
    if mode < 0.3:
        return w
    if mode < 0.5:
        return w.upper()
    if mode < 0.6:
        return w.capitalize()
    return "".join(c.upper() if rng.random() < 0.5 else c.lower() for c in w)


def rand_number(rng, unicode_digits=False):
    r = rng.random()
    if r < 0.1:
        n = rng.choice([0, 0, 1])          # boundary numbers: a parsed 0 is falsy in Python (seed C48-d)
    elif r < 0.5:
        n = rng.randrange(0, 400)
    elif r < 0.8:
        n = rng.randrange(0, 10 ** 7)
    else:
        n = rng.randrange(0, 10 ** rng.randrange(1, 30))
    txt = str(n)
    if rng.random() < 0.1:
        txt = "0" * rng.randrange(1, 4) + txt
    if unicode_digits:
        z = rng.choice(UNI_ZERO)
        txt = "".join(chr(z + int(c)) if rng.random() < 0.8 else c for c in txt)
    return n, txt


def rand_ws(rng, pool, maxn=3):
    return "".join(rng.choice(pool) for _ in range(rng.choice([0, 0, 1, 1, 1, 2, maxn])))


def gen_documented(rng, fn):
    """(string, (signature-tag, documented value)) — a spelling the documentation promises."""
    if fn == "dur":
        unit = rng.choice(list(DOC_DURATION))
        n, txt = rand_number(rng)
        return txt + rand_ws(rng, ASCII_WS) + rand_case(rng, unit), ("duration-documented", n * DOC_DURATION[unit])
    if fn == "size":
        scale = rng.choice(SCALES)
        binary = rng.random() < 0.5 and (scale != "" or rng.random() < 0.3)
        tail = rng.choice(["", "B"]) if not binary else rng.choice(["i", "iB"])
        n, txt = rand_number(rng)
        ws = rand_ws(rng, ASCII_WS)
        tag = "size-documented-space" if ws else "size-documented"
        return txt + ws + rand_case(rng, scale + tail), (tag, doc_size_value(n, scale, binary))
    d = datetime.date.fromordinal(rng.randrange(1, datetime.date.max.toordinal() + 1)) if rng.random() < 0.4 else \
        datetime.date(1970, 1, 1) + datetime.timedelta(days=rng.randrange(-20000, 40000))
    return "%04d-%02d-%02d" % (d.year, d.month, d.day), ("date-documented", (d - datetime.date(1970, 1, 1)).days * 86400)


def gen_variant(rng, fn):
    """Spellings around the documented ones the docs are silent about: surrounding / Unicode whitespace, Unicode digits."""
    s, _ = gen_documented(rng, fn)
    r = rng.random()
    if fn != "date" and r < 0.5:
        m = re.match(r"(\d+)(\s*)(.*)$", s, re.S)
        _, txt = rand_number(rng, unicode_digits=rng.random() < 0.6)
        s = txt + rand_ws(rng, ASCII_WS + UNI_WS + ["\n"]) + m.group(3)
    elif fn == "date" and r < 0.5:
        z = rng.choice(UNI_ZERO)
        s = "".join(chr(z + int(c)) if c.isdigit() and rng.random() < 0.7 else c for c in s)
    if rng.random() < 0.6:
        s = rand_ws(rng, ASCII_WS + UNI_WS + ["\n"], 2) + s + rand_ws(rng, ASCII_WS + UNI_WS + ["\n", "\n"], 2)
    return s


def gen_bad_date(rng):
    r = rng.random()
    y, m, d = rng.randrange(0, 10000), rng.randrange(0, 15), rng.randrange(0, 40)
    if r < 0.35:
        m = rng.randrange(1, 13)
        d = rng.choice([0, 29, 30, 31, 32, 99])
        if rng.random() < 0.5:
            m = 2
            y = rng.choice([1900, 2000, 2009, 2008, 2100, 2400, y])
        return "%04d-%02d-%02d" % (y, m, d)
    if r < 0.5:
        return "%04d-%02d-%02d" % (y, m, d)
    base = "%04d-%02d-%02d" % (rng.randrange(1, 10000), rng.randrange(1, 13), rng.randrange(1, 29))
    if r < 0.8:
        return base + rng.choice(["T", "_", " ", "t", ""]) + "%02d:%02d:%02d" % (rng.randrange(100), rng.randrange(100), rng.randrange(100)) + \
            rng.choice(["", "", ".5", ".25xyz", "junk", "Z", "\n"])
    return base + rng.choice(["\n", " ", "T", "T00:00:00", "-", " 1", "x"])


def mutate(rng, s):
    s = list(s)
    for _ in range(rng.choice([1, 1, 1, 2, 3])):
        r = rng.random()
        pos = rng.randrange(len(s) + 1)
        if r < 0.4:
            s.insert(pos, rng.choice(POOL))
        elif r < 0.7 and s:
            s[min(pos, len(s) - 1)] = rng.choice(POOL)
        elif s:
            del s[min(pos, len(s) - 1)]
    return "".join(s)


def gen_malformed(rng, fn):
    r = rng.random()
    if fn == "date" and r < 0.5:
        return gen_bad_date(rng)
    if r < 0.7:
        return mutate(rng, gen_documented(rng, fn)[0] if rng.random() < 0.7 else gen_variant(rng, fn))
    if r < 0.8:   # a value meant for another setting
        return gen_documented(rng, rng.choice([f for f in ("dur", "size", "date") if f != fn]))[0]
    return "".join(rng.choice(POOL) for _ in range(rng.randrange(0, 9)))


def gen_size(rng):
    r = rng.random()
    if r < 0.15:
        return rng.randrange(0, 1024)
    if r < 0.25:
        return rng.choice([999, 1000, 1001, 1023, 1024, 1025, 1152, 1005, 1015, 1995, 999999, 1000000, 1048575, 1048576])
    if r < 0.45:   # around the ladder thresholds
        U = rng.choice([1000, 1024])
        return max(0, U ** rng.randrange(1, 8) + rng.randrange(-6, 7))
    if r < 0.55:   # exact binary ties of the hundredths: odd/8 * 1024**i
        return (2 * rng.randrange(4, 4000) + 1) * 1024 ** rng.randrange(1, 7) // 8
    if r < 0.65:   # decimal ties x.xx5 * 1000**i
        return (10 * rng.randrange(100, 99999) + 5) * 1000 ** rng.randrange(1, 7) // 1000
    if r < 0.95:
        return rng.randrange(0, 2 ** rng.randrange(1, 72))
    return rng.randrange(0, 2 ** rng.randrange(72, 400))


# ------------------------------------------------------------------ fixed corpus (known past failures and doc examples run first)
CORPUS = [
    ("dur", s, ("duration-documented", v)) for s, v in
    [("7days", 7 * DAY), ("31day", 31 * DAY), ("60 days", 60 * DAY), ("2mo", 62 * DAY), ("3 month", 93 * DAY),
     ("12 months", 372 * DAY), ("2years", 730 * DAY), ("60 SECONDS", 60), ("11YEARS", 11 * 365 * DAY)]
] + [
    ("size", s, ("size-documented-space" if " " in s else "size-documented", v)) for s, v in
    [("100MB", 10 ** 8), ("100 M", 10 ** 8), ("100000000B", 10 ** 8), ("100000000", 10 ** 8), ("100000kb", 10 ** 8),
     ("1MiB", 2 ** 20), ("1024KiB", 2 ** 20), ("1024 Ki", 2 ** 20), ("1048576 B", 2 ** 20), ("1G", 10 ** 9), ("10000000000", 10 ** 10)]
] + [
    ("date", s, ("date-documented", v)) for s, v in
    [("2009-01-16", 1232064000), ("2008-02-02", 1201910400), ("2007-12-25", 1198540800), ("2010-02-21", 1266710400),
     ("2009-03-18", 1237334400), ("1970-01-01", 0), ("2000-02-29", 951782400)]
] + [(fn, s, None) for fn, s in
     [("date", "2009-02-31"), ("date", "2009-01-16T05:00:00"), ("date", "2009-01-16 12:34:56.7xyz"), ("date", "2009-01-00"),
      ("date", "2009-13-01"), ("date", "0000-01-01"), ("date", "1900-02-29"), ("date", "2009-01-16\n"), ("date", ""),
      ("date", "٢٠٠٩-01-16"), ("date", "2009-1-16"), ("date", "2009-01-16T"),
      ("dur", "1ſ"), ("dur", "1 ſeconds"), ("dur", "5dayſ"), ("dur", "٣days"), ("dur", "123"), ("dur", "2kumquats"),
      ("dur", " 333 second "), ("dur", "1 day\n"), ("dur", "1 day"), ("dur", "1d ay"), ("dur", ""), ("dur", "1.5 days"),
      ("dur", "-1 day"), ("dur", "1 dayss"), ("dur", "1 mos"),
      # seed C48-c (end anchor of the duration pattern lost: prefix acceptance)
      ("dur", "1 month 15 days"), ("dur", "1 day 12 hours"), ("dur", "45 days # was 31"), ("dur", "1 year;"), ("dur", "3 mon"),
      ("dur", "10 sec"), ("dur", "1 solar year"), ("dur", "2 moons"), ("dur", "7days\n7days"), ("dur", "5K"), ("dur", "1 ı"),
      ("size", ""), ("size", "5Kı"), ("size", "5kıb"), ("size", "10K\n"), ("size", "10K\n\n"), ("size", "10 \nK"), ("size", "10\n"),
      ("size", " 10K"), ("size", "10K "), ("size", "5 B"), ("size", "1.50 kB"), ("size", "12 cubits"), ("size", "1 BB"), ("size", "fhtagn"),
      ("size", "5ſ"), ("size", "5ß"), ("size", "5ﬁ"), ("size", "5ẗ"), ("size", "5K"), ("size", "10I"), ("size", "10iB"),
      ("size", "10BI"), ("size", "10KK"), ("size", "٥G"), ("size", "5 days"), ("size", "1e3"), ("size", "-5"), ("size", "0x10")]]


# ------------------------------------------------------------------ running
def eval_parse_cases(ctx, cases, what):
    """cases: list of (fn, s, documented-or-None).  Real code, monitor, model (driver lines de-duplicated)."""
    impl = []
    for fn, s, doc in cases:
        out = impl_call(fn, s)
        impl.append(out)
        monitor_parse(ctx, fn, s, out, doc)
        ctx.case((fn, s) if any(c.isdecimal() for c in s) else None)
        ctx.count("%s:%s" % (fn, out.split(":")[0]))
    lines = [line_of(fn, s) for fn, s, _ in cases]
    uniq = sorted(set(lines))
    res = ctx.model(uniq)
    if res is None:
        return impl
    table = dict(zip(uniq, res))
    ctx.compare(what, [{"fn": fn, "s": s} for fn, s, _ in cases], impl, [table[l] for l in lines])
    return impl


def eval_roundtrips(ctx, sizes):
    impl, lines, cases = [], [], []
    from allmydata.util import abbreviate
    for si, n in sizes:
        printed, back = monitor_roundtrip(ctx, si, n)
        impl.append(printed)
        impl.append(back)
        m = "si" if si else "bin"
        lines += ["abbr %s %d" % (m, n), "rt %s %d" % (m, n)]
        cases += [{"fn": "abbr", "si": si, "n": n}, {"fn": "rt", "si": si, "n": n}]
        ctx.case(("rt", si, n))
        ctx.count("rt:%s:%s" % ("<1024" if n < 1024 else ">=1024", back.split(":")[0]))
    ctx.compare("abbreviate_space output / parse_abbreviated_size of it", cases, impl, ctx.model(lines))
    if sizes:
        ctx.sample({"size": sizes[0][1], "SI": sizes[0][0], "printed": impl[0], "parsed_back": impl[1]})


SCAN_TEMPLATES = [("dur", "5%s"), ("dur", "5 day%s"), ("dur", "5%ss"), ("dur", "%s5s"), ("dur", "5 %seconds"), ("dur", "5 year%s "),
                  ("size", "5%s"), ("size", "5K%s"), ("size", "5%sB"), ("size", "%s"), ("size", "5%s5"), ("size", "5%sib"),
                  ("date", "2009-0%s-16"), ("date", "2009%s01-16"), ("date", "2009-01-16%s")]


def scan_code_points(ctx, cps):
    """Validates the alphabet abstraction: every code point, in every syntactic position, behaves as its Sym does in the model."""
    lines = set()
    for fn, t in SCAN_TEMPLATES:
        for tok in ["n", "S", "I", "w", "o"] + ["d%d" % i for i in range(10)] + ["a%d" % i for i in range(128)]:
            lines.add(" ".join([fn] + [tok if c is None else sym_of(c) for c in _split(t)]))
    uniq = sorted(lines)
    res = ctx.model(uniq)
    table = dict(zip(uniq, res)) if res is not None else None
    n = 0
    tmpl = []
    for fn, t in SCAN_TEMPLATES:
        toks = [None if c is None else sym_of(c) for c in _split(t)]
        k = toks.index(None)
        tmpl.append((fn, t, " ".join([fn] + toks[:k]) + " ", "".join(" " + x for x in toks[k + 1:])))
    for cp in cps:
        ch = chr(cp)
        tok = sym_of(ch)
        for fn, t, pre, post in tmpl:
            s = t % ch
            out = impl_call(fn, s)
            if out[0] not in "VK":      # anything but a plain ValueError / KeyError goes to the monitor
                monitor_parse(ctx, fn, s, out, None)
            if table is not None and table[pre + tok + post] != out:
                ctx.disagree("code-point scan: chr(0x%x) in %r" % (cp, t), {"fn": fn, "s": s}, out, table[pre + tok + post])
            n += 1
    ctx.case(None, n)
    ctx.count("code-point-scan-calls", n)


def _split(t):
    i = t.index("%s")
    return list(t[:i]) + [None] + list(t[i + 2:])


def interesting_code_points():
    res = set(range(0x0, 0x3100)) | {0x212a, 0xfb01, 0xfb05, 0x1e97, 0x1d7ce, 0xff10, 0xff19, 0x10ffff, 0xd800, 0xe000}
    return sorted(res)


# ------------------------------------------------------------------ process time zones
# docs/garbage-collection.rst: "midnight UTC at the beginning of the given day" — whatever the node's local zone.
# None = TZ unset.  Named zones need /usr/share/zoneinfo; the POSIX-style strings work without it.
ZONES = [None, "UTC", "America/Los_Angeles", "Asia/Kolkata", "Pacific/Kiritimati", "Europe/London", "EST5EDT",
         "PST8PDT,M3.2.0,M11.1.0", "XYZ-5:30", "ABC+11"]


def zone_usable(z):
    return z is None or not (z[0].isupper() and "/" in z) or os.path.exists(os.path.join("/usr/share/zoneinfo", z))


def set_tz(z):
    if z is None:
        os.environ.pop("TZ", None)
    else:
        os.environ["TZ"] = z
    time.tzset()


def iso_call(s):
    """iso_utc_time_to_seconds(s + 'T00:00:00') and iso_utc_date of that moment, canonicalised."""
    from allmydata.util import time_format
    try:
        v = time_format.iso_utc_time_to_seconds(s + "T00:00:00")
        return "ok:%r:%s" % (v, time_format.iso_utc_date(v))
    except Exception as e:
        return type(e).__name__


def eval_timezones(ctx, cases, zones):
    """The date cases under several process time zones: parse_date must give the model's (zone-free) answer in every
    zone; the UTC helpers iso_utc_time_to_seconds / iso_utc_date must not depend on the zone either."""
    saved = os.environ.get("TZ")
    lines = [line_of("date", s) for s, _ in cases]
    uniq = sorted(set(lines))
    res = ctx.model(uniq)
    table = dict(zip(uniq, res)) if res is not None else None
    base, base_iso = None, None
    try:
        for z in zones:
            if not zone_usable(z):
                ctx.count("tz-skipped:%s" % z)
                continue
            set_tz(z)
            ctx.count("tz:%s" % (z or "unset"), len(cases))
            outs, isos = [], []
            for s, doc in cases:
                out = impl_call("date", s)
                outs.append(out)
                isos.append(iso_call(s) if doc is not None else None)
            if base is None:
                base, base_iso = outs, isos
            for k, (s, doc) in enumerate(cases):
                case = {"fn": "date", "s": s, "tz": z}
                if doc is not None:
                    case["documented"] = list(doc)
                if outs[k] != base[k]:
                    ctx.violation("parse_date(%r) gives %s with TZ=%s but %s with TZ unset: the cutoff must be midnight UTC in every zone"
                                  % (s, outs[k], z, base[k]), case, "parse_date-timezone-dependent", outs[k])
                else:
                    monitor_parse(ctx, "date", s, outs[k], doc)
                if isos[k] != base_iso[k]:
                    ctx.violation("iso_utc_time_to_seconds/iso_utc_date(%r) give %s with TZ=%s but %s with TZ unset"
                                  % (s + "T00:00:00", isos[k], z, base_iso[k]), dict(case, fn="iso"),
                                  "iso_utc-timezone-dependent", isos[k])
                ctx.case(("date", s, z or "unset"))
            if table is not None:
                ctx.compare("parse_date under TZ=%s" % (z or "unset"),
                            [{"fn": "date", "s": s, "tz": z} for s, _ in cases], outs, [table[l] for l in lines])
    finally:
        if saved is None:
            os.environ.pop("TZ", None)
        else:
            os.environ["TZ"] = saved
        time.tzset()


def timezone_cases(rng, n):
    cases = [(s, doc) for fn, s, doc in CORPUS if fn == "date"]
    # summer and winter days, the 1968-71 British Standard Time years, far past and future
    for s in ("2009-07-01", "2009-12-31", "1969-06-15", "1970-01-02", "1968-10-27", "1971-10-31", "2038-01-19", "2038-01-20",
              "1901-12-13", "0001-01-01", "9999-12-31", "2024-03-10", "2024-03-31", "2024-11-03", "1995-01-01"):
        y, m, d = (int(x) for x in s.split("-"))
        cases.append((s, ("date-documented", (datetime.date(y, m, d) - datetime.date(1970, 1, 1)).days * 86400)))
    for _ in range(n):
        cases.append(gen_documented(rng, "date"))
    for _ in range(n // 4):
        cases.append((gen_bad_date(rng), None))
    return cases


# ------------------------------------------------------------------ client.py glue: tahoe.cfg [storage] keys → parsers → StorageServer
TRUE_WORDS = ["1", "yes", "true", "on", "True", "YES", "On"]
FALSE_WORDS = ["0", "no", "false", "off", "False", "NO", "Off"]
BAD_BOOL = ["maybe", "2", "", "t", "enabled", "yes please", "yeſ", "١", "tru e", "00", "y", "of"]
PAD_BOOL = [" yes ", "\tTRUE", "oN\u00a0", " 0", "fAlSe ", "OFF\t"]
GLUE_KEYS = [("ro", "readonly", "B"), ("rs", "reserved_space", "V"), ("dd", "debug_discard", "B"), ("en", "expire.enabled", "B"),
             ("mode", "expire.mode", "M"), ("old", "expire.override_lease_duration", "V"), ("cut", "expire.cutoff_date", "V"),
             ("imm", "expire.immutable", "B"), ("mut", "expire.mutable", "B")]
_VALUE_FN = {"rs": "size", "old": "dur", "cut": "date"}


def bool_class(v):
    v = v.strip().lower()       # configparser: value.strip(), then BOOLEAN_STATES[value.lower()]
    return "t" if v in ("1", "yes", "true", "on") else "f" if v in ("0", "no", "false", "off") else "bad"


def mode_class(v):
    v = v.strip()
    return "age" if v == "age" else "cutoff" if v == "cutoff-date" else "other"


def lit_sym(ch):
    """abstraction for values compared with ASCII literals (booleans, expire.mode): only ASCII characters and whitespace keep
    their identity; every other character can equal no literal character and becomes `other`"""
    if ch.isspace():
        return "w"
    if ord(ch) < 128:
        return "d%d" % int(ch) if ch.isdigit() else "a%d" % ord(ch)
    return "o"


def glue_value_ok(v):
    """values the glue model covers: one physical line, no interpolation syntax"""
    return not any(c in v for c in "\n\r%") and not any(c in "\x0b\x0c\x1c\x1d\x1e\x85\u2028\u2029" for c in v)


def gen_glue_cfg(rng):
    cfg = {}
    for short, key, kind in GLUE_KEYS:
        r = rng.random()
        if kind == "B":
            if r < 0.55:
                continue
            cfg[short] = rng.choice(TRUE_WORDS + FALSE_WORDS + PAD_BOOL) if r < 0.9 else rng.choice(BAD_BOOL)
            if rng.random() < 0.15:
                cfg[short] = rand_case(rng, cfg[short])
        elif kind == "M":
            if r < 0.3:
                continue
            cfg[short] = "age" if r < 0.6 else "cutoff-date" if r < 0.92 else rng.choice(["Age", "cutoff", "bogus", "", "cutoff_date", "age "])
        else:
            if r < (0.25 if short != "cut" else 0.15):
                continue
            fn = _VALUE_FN[short]
            if rng.random() < 0.12:        # boundary values
                cfg[short] = rng.choice({"size": ["0", "0 B", "0MB", "1", "1K", "0 Ei"],
                                         "dur": ["0 s", "0days", "0 mo", "0 YEARS", "1 s", "1 year", "00 day"],
                                         "date": ["1970-01-01", "1969-12-31", "0001-01-01", "9999-12-31", "1970-01-02"]}[fn])
                continue
            for _ in range(20):
                q = rng.random()
                v = gen_documented(rng, fn)[0] if q < 0.6 else gen_variant(rng, fn) if q < 0.7 else gen_malformed(rng, fn)
                if glue_value_ok(v):
                    break
            else:
                v = ""
            cfg[short] = rand_ws(rng, [" ", "\t"], 2) + v + rand_ws(rng, [" ", "\t"], 2)
    return cfg


def glue_cfg_text(cfg):
    lines = ["[storage]", "enabled = true"]
    for short, key, kind in GLUE_KEYS:
        if short in cfg:
            lines.append("%s = %s" % (key, cfg[short]))
    return "\n".join(lines) + "\n"


def glue_line(cfg):
    toks = []
    for short, key, kind in GLUE_KEYS:
        if short not in cfg:
            toks.append(short + "=~")
        elif kind in "BM":     # the model classifies the text itself (classifyBool / classifyMode)
            toks.append(short + "=" + (",".join(lit_sym(c) for c in cfg[short]) or "-"))
        else:
            toks.append(short + "=" + (",".join(sym_of(c) for c in cfg[short]) or "-"))
    return "glue " + " ".join(toks)


_GLUE_DIR = []


def glue_impl(cfg):
    """The real path: tahoe.cfg on disk → client.read_config → _Client.get_anonymous_storage_server."""
    import shutil
    import tempfile
    import common
    from allmydata import client
    from twisted.application import service
    if not _GLUE_DIR:
        common.ensure_dirs()
        _GLUE_DIR.append(tempfile.mkdtemp(prefix="c48glue-%d-" % os.getpid(), dir=common.WORK))
    base = tempfile.mkdtemp(dir=_GLUE_DIR[0])
    try:
        with open(os.path.join(base, "tahoe.cfg"), "w", encoding="utf-8", newline="\n") as f:
            f.write(glue_cfg_text(cfg))
        try:
            config = client.read_config(base, "client.port")
        except Exception as e:
            return "read_config:" + type(e).__name__
        c = client._Client.__new__(client._Client)
        service.MultiService.__init__(c)
        c.config = config
        c.get_config = config.get_config        # as Node.__init__ does
        c.nodeid = b"n" * 20
        c.stats_provider = None
        try:
            ss = c.get_anonymous_storage_server()
        except Exception as e:
            return type(e).__name__
        lc = ss.lease_checker
        return "started:%d:%s:%s:%s:%s:%s:%s:%s" % (
            ss.reserved_space, "T" if lc.expiration_enabled else "F", {"age": "age", "cutoff-date": "cutoff"}.get(lc.mode, "other"),
            lc.override_lease_duration, lc.cutoff_date, "T" if "immutable" in lc.sharetypes_to_expire else "F",
            "T" if "mutable" in lc.sharetypes_to_expire else "F", "T" if ss.readonly_storage else "F")
    finally:
        shutil.rmtree(base, ignore_errors=True)


def monitor_glue(ctx, cfg, out):
    """From the statement: each documented key means its documented value; a malformed value stops node start."""
    case = {"fn": "glue", "cfg": cfg}
    started = out.startswith("started:")
    f = out.split(":") if started else None
    mode = mode_class(cfg["mode"]) if "mode" in cfg else None
    for short, fn, key in (("rs", "size", "reserved_space"), ("old", "dur", "expire.override_lease_duration"),
                           ("cut", "date", "expire.cutoff_date")):
        if short not in cfg:
            continue
        v = cfg[short].strip()
        if short == "cut" and mode != "cutoff":
            continue                      # the docs only give the date a meaning in cutoff-date mode
        want = 0 if (short == "rs" and v == "") else ref_value(fn, v)
        if want is None:
            if started:
                ctx.violation("node starts although [storage]%s = %r has no documented reading (%s)" % (key, cfg[short], out),
                              case, "glue-%s-malformed-node-starts" % key, out)
            continue
        if started:
            got = {"rs": f[1], "old": f[4], "cut": f[5]}[short]
            if short == "old" and mode == "cutoff":
                continue                  # not used in cutoff-date mode
            if short == "old" and want == 0 and got == "None":
                ctx.violation("[storage]%s = %r (documented: 0 seconds, every lease past its limit) reaches the lease checker as None "
                              "(no override)" % (key, cfg[short]), case, "glue-override-zero-became-none", out)
            elif got != str(want):
                ctx.violation("[storage]%s = %r configures %s, documented value %d" % (key, cfg[short], got, want), case,
                              "glue-%s-misvalued" % key, out)
    if started:
        # settings without a number grammar: a malformed one must stop the start as well
        if "mode" in cfg and mode == "other":
            ctx.violation("node starts although [storage]expire.mode = %r is neither 'age' nor 'cutoff-date' (%s)" % (cfg["mode"], out),
                          case, "glue-expire.mode-malformed-node-starts", out)
        for short, key, kind in GLUE_KEYS:
            if kind == "B" and short in cfg and bool_class(cfg[short]) == "bad":
                ctx.violation("node starts although [storage]%s = %r is not a boolean (%s)" % (key, cfg[short], out), case,
                              "glue-%s-malformed-node-starts" % key, out)
    if started and "rs" not in cfg and f[1] != "0":
        ctx.violation("no reserved_space but %s bytes reserved" % f[1], case, "glue-reserved_space-default", out)


def eval_glue(ctx, cfgs):
    impl = []
    try:
        for cfg in cfgs:
            out = glue_impl(cfg)
            impl.append(out)
            monitor_glue(ctx, cfg, out)
            ctx.case(("glue", glue_cfg_text(cfg)))
            ctx.count("glue:" + out.split(":")[0])
    finally:
        if _GLUE_DIR:
            import shutil
            shutil.rmtree(_GLUE_DIR.pop(), ignore_errors=True)
    ctx.compare("tahoe.cfg [storage] through read_config + _Client.get_anonymous_storage_server",
                [{"fn": "glue", "cfg": c} for c in cfgs], impl, ctx.model([glue_line(c) for c in cfgs]))
    if cfgs:
        ctx.sample({"tahoe.cfg": glue_cfg_text(cfgs[-1]), "impl": impl[-1]})


GLUE_CORPUS = [
    {}, {"rs": "1G"}, {"rs": "1 G", "en": "true", "mode": "age", "old": "2 mo", "mut": "no"}, {"rs": "1.5G"}, {"rs": ""},
    {"en": "true"}, {"en": "maybe"}, {"mode": "cutoff-date", "cut": "2009-02-31"}, {"mode": "cutoff-date"},
    {"mode": "cutoff-date", "cut": "2009-02-21", "old": "1ſ"}, {"mode": "cutoff-date", "cut": " 2009-02-21 ", "old": "7days", "en": "on"},
    {"mode": "bogus"}, {"mode": "age", "cut": "junk"}, {"rs": "10K # comment"}, {"old": "1 month 15 days"}, {"old": "45 days # was 31"},
    {"old": "3 mon"}, {"rs": "1024 Ki"}, {"rs": "5Gi", "ro": "yes"}, {"mode": "cutoff-date", "cut": "2009-01-16T05:00:00"},
    {"imm": "off", "mut": "0", "dd": "1"}, {"dd": "x"}, {"en": "false", "mode": "Age"},
] + [
    # boundary values (seed C48-d: a correctly parsed 0 is falsy): override 0 in age mode, default mode and cutoff mode
    dict(base, old=v) for v in ("0 s", "0s", "0 days", "0 mo", "0 years", "0S", " 0 days ", "00 day", "0 SECONDS", "1 s", "1s", "1 day")
    for base in ({"en": "true", "mode": "age"}, {}, {"mode": "cutoff-date", "cut": "1970-01-01"})
] + [
    # present-but-blank values (seed C48-e: _Config.get_config read a blank value as "absent" → the default): every key that
    # get_anonymous_storage_server reads with a default / guards with `is not None`, with '', ' ', '\t'
    dict(base, **{k: v}) for v in ("", " ", "\t")
    for k, bases in (("old", ({}, {"en": "true", "mode": "age"}, {"mode": "cutoff-date", "cut": "2009-01-16"})),
                     ("mode", ({}, {"en": "false"}, {"en": "true"}, {"old": "7days"})),
                     ("cut", ({"mode": "cutoff-date"}, {"mode": "age"})),
                     ("rs", ({}, {"en": "true", "mode": "age"})),
                     ("ro", ({},)), ("dd", ({},)), ("en", ({},)), ("imm", ({},)), ("mut", ({},)))
    for base in bases
] + [
    {"rs": v} for v in ("0", "0 B", "0MB", "0 Ki", "00", "1", "1 B", "1K", "1 Ki")
] + [
    # cutoff date at the epoch boundary and at the ends of the calendar
    {"mode": "cutoff-date", "cut": v, "en": "yes"} for v in ("1970-01-01", "1969-12-31", "1970-01-02", "0001-01-01", "9999-12-31", "0000-01-01")
] + [
    # every boolean spelling on every boolean key
    {k: w, "mode": "age"} for k in ("ro", "dd", "en", "imm", "mut") for w in TRUE_WORDS + FALSE_WORDS + PAD_BOOL + BAD_BOOL
] + [
    {"mode": m, "cut": "2009-01-16"} for m in ("age", " age ", "cutoff-date", "cutoff-date\t", "Age", "AGE", "cutoff_date", "cutoff-Date", "age1", "cutoff-date x")
]


def run(ctx):
    if ctx.replay:
        c = ctx.replay["case"]
        if c["fn"] in ("rt", "abbr"):
            eval_roundtrips(ctx, [(bool(c["si"]), int(c["n"]))])
        elif c["fn"] == "glue":
            eval_glue(ctx, [c["cfg"]])
        elif "tz" in c:
            doc = c.get("documented")
            eval_timezones(ctx, [(c["s"], (doc[0], int(doc[1])) if doc else None)], [None, c["tz"]])
        else:
            doc = c.get("documented")
            eval_parse_cases(ctx, [(c["fn"], c["s"], (doc[0], int(doc[1])) if doc else None)], "replayed call")
        return
    rng = ctx.rng
    # 1. FIXED CORPUS (independent of VERIF_SEED; VERIF_CORPUS_ONLY=1 stops after it).  One minimal input per known
    #    mechanism:  seed C48-a "1024 Ki" (CORPUS + grid);  seed C48-b dates × time zones (corpus dates below);
    #    seed C48-c "1 month 15 days" … (CORPUS + GLUE_CORPUS);  repaired 8480b59 "100 M" / "5 B" round trip;
    #    repaired 396b8df "2009-02-31", "2009-01-16T05:00:00";  known finding: sizes >= 1024 round trip.
    eval_parse_cases(ctx, CORPUS, "corpus call")
    eval_roundtrips(ctx, [(si, n) for n in (0, 1, 5, 999, 1000, 1023, 1024, 1500, 20000, 1000000, 1048576, 1234567, 1234567890123456789,
                                            1152, 1005, 2 ** 53 + 1, 10 ** 30) for si in (True, False)])
    # every (unit spelling × separating whitespace × all-lower/all-upper) once, deterministically
    grid = []
    for u, v in DOC_DURATION.items():
        for ws in ("", " ", "  ", "\t"):
            for w in (u, u.upper(), u.capitalize()):
                grid.append(("dur", "42" + ws + w, ("duration-documented", 42 * v)))
    for sc in SCALES:
        for tail, binary in (("", False), ("B", False), ("i", True), ("iB", True)):
            for ws in ("", " ", "   "):
                for w in (sc + tail, (sc + tail).lower(), (sc + tail).upper()):
                    grid.append(("size", "37" + ws + w, ("size-documented-space" if ws else "size-documented", doc_size_value(37, sc, binary))))
    eval_parse_cases(ctx, grid, "spelling grid")
    eval_timezones(ctx, timezone_cases(rng, 0), ZONES)          # n = 0: the fixed dates only, rng untouched
    eval_glue(ctx, GLUE_CORPUS)
    ctx.count("corpus-cases", ctx.evaluations)
    if os.environ.get("VERIF_CORPUS_ONLY"):
        ctx.note("VERIF_CORPUS_ONLY: fixed corpus only, random families skipped")
        return
    # 2. documented spellings × numbers × whitespace × case; undocumented neighbours; malformed stream
    n = ctx.budget(3000, 120000)
    cases = []
    for fn in ("dur", "size", "date"):
        for _ in range(n):
            s, doc = gen_documented(rng, fn)
            cases.append((fn, s, doc))
        for _ in range(n // 2):
            cases.append((fn, gen_variant(rng, fn), None))
        for _ in range(n):
            cases.append((fn, gen_malformed(rng, fn), None))
    outs = eval_parse_cases(ctx, cases, "generated call")
    for k in (0, n + n // 2, len(cases) - 1):
        ctx.sample({"fn": cases[k][0], "arg": cases[k][1], "impl": outs[k]})
    # 2b. dates under several process time zones (the documented moment is midnight UTC wherever the node runs)
    eval_timezones(ctx, timezone_cases(rng, ctx.budget(120, 3000)), ZONES)
    # 2c. the client.py glue on generated tahoe.cfg files
    eval_glue(ctx, [gen_glue_cfg(rng) for _ in range(ctx.budget(400, 12000))])
    # 3. sizes through print-then-parse
    eval_roundtrips(ctx, [(rng.random() < 0.5, gen_size(rng)) for _ in range(ctx.budget(4000, 150000))])
    if ctx.tier == "thorough":
        eval_roundtrips(ctx, [(si, k) for k in range(0, 3000) for si in (True, False)])
    # 4. alphabet abstraction: code points
    if ctx.tier == "thorough":
        scan_code_points(ctx, range(0x110000))
        ctx.note("code-point scan: all 0x110000 code points × %d templates" % len(SCAN_TEMPLATES))
    else:
        cps = interesting_code_points()
        scan_code_points(ctx, cps)
        ctx.note("code-point scan: %d code points (U+0000..U+30FF and case-mapping corners) × %d templates" % (len(cps), len(SCAN_TEMPLATES)))
