#!/bin/sh
# harness/accept.sh Cxx [seeds…] — run the quick check with several seeds, print verdict lines
cd "$(dirname "$0")/.." || exit 2
ID=$1; shift
SEEDS=${*:-0 1 7}
for s in $SEEDS; do VERIF_SEED=$s ./check "$ID" 2>&1 | grep -E "VIOLATION|KNOWN-FINDING|NOTE|^C[0-9]+ (OK|FAIL|INFRA)"; done
