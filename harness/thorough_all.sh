#!/bin/sh
# harness/thorough_all.sh [parallelism] — thorough tier of every claimed property (for `vp run`); prints verdict lines
./setup.sh > setup.log 2>&1
P=${1:-4}
/venv/bin/python -c "import json;print('\n'.join(c['property_id'] for c in json.load(open('MANIFEST.json'))['checks']))" | \
  xargs -P "$P" -I{} sh -c 'T=$(date +%s); ./check {} --thorough > thorough-{}.log 2>&1; echo "{} rc=$? secs=$(( $(date +%s) - T )) $(grep -E "^VIOLATION|^C[0-9]+ (OK|FAIL|INFRA)" thorough-{}.log | tr "\n" ";" | cut -c1-300)"'
