#!/bin/sh
# harness/commit_fix.sh <fixes/Cxx-slug.diff> "<commit message starting with fix:>"
# apply a reviewed repair to /repo, run the pinned baseline, commit it as one small commit
set -e
D=$(readlink -f "$1"); MSG="$2"
case "$MSG" in fix:*) ;; *) echo "message must start with fix:"; exit 2;; esac
cd /repo
git apply --check "$D"
git apply "$D"
OUT=$(/venv/bin/python -m pytest -q -p no:cacheprovider --timeout=900 --continue-on-collection-errors 2>&1 | tail -1)
echo "$OUT"
case "$OUT" in *"151 passed"*) ;; *) echo "BASELINE CHANGED - reverting"; git checkout -- .; exit 1;; esac
git add -u
git commit -q -m "$MSG"
git log --oneline | head -1
