#!/bin/sh
# harness/selftest_fresh.sh — what `vp check` does, for use under `vp run`: from a fresh checkout (committed
# files only) run MANIFEST.setup_cmd, then every quick command once with its evidence file removed first.
export CARGO_NET_OFFLINE=true GOPROXY=off PIP_NO_INDEX=1 VERIF_SEED=${VERIF_SEED:-1} VERIF_TIER=quick
T0=$(date +%s)
./setup.sh > setup.log 2>&1; echo "setup rc=$? secs=$(( $(date +%s) - T0 ))"; tail -2 setup.log
for id in $(/venv/bin/python -c "import json;print(' '.join(c['property_id'] for c in json.load(open('MANIFEST.json'))['checks']))"); do
  rm -f evidence/$id.json
  T1=$(date +%s)
  ./check $id > check-$id.log 2>&1; rc=$?
  ev=missing; [ -s evidence/$id.json ] && ev=written
  echo "$id rc=$rc secs=$(( $(date +%s) - T1 )) evidence=$ev $(grep -c '^VIOLATION' check-$id.log) violations"
done
echo "total secs=$(( $(date +%s) - T0 ))"
