"""In-process Tahoe grid for the correspondence harness, built from production classes only.

Real `StorageServer`s on disk, real `_Client` (networking methods stubbed out), real Uploader /
NodeMaker / filenodes / dirnodes.  Remote references are replaced by `LocalWrapper`, whose
`callRemote` delivers each call when a *seeded scheduler* decides; every timer (`reactor.callLater`,
foolscap's eventual-send queue) runs on a virtual clock.  Nothing here runs the real reactor, so a
run is a deterministic function of (seed, scenario).

(The repository's own allmydata.test.no_network cannot be imported in this sandbox — it pulls in
`wormhole`; this file follows the same construction.)
"""
import os
import random
import shutil
import sys
import time as _time

from zope.interface import implementer
from twisted.application import service
from twisted.internet import defer, task, reactor
from twisted.python.failure import Failure
from foolscap.api import Referenceable, RemoteException
from foolscap.ipb import IRemoteReference

import allmydata.util.cputhreadpool as _cpu
_cpu._DISABLED = True   # run "CPU" work synchronously: no threads in harness processes

from allmydata.util import fileutil, idlib, hashutil
from allmydata.util.hashutil import permute_server_hash
from allmydata.interfaces import IStorageBroker, IServer
from allmydata.storage.server import StorageServer, FoolscapStorageServer
from allmydata.storage_client import _StorageServer
from allmydata.client import _Client, read_config

BASE_TIME = 1_700_000_000.0
_NOW_MODULES = ("allmydata.immutable.downloader.node", "allmydata.immutable.downloader.segmentation",
                "allmydata.immutable.downloader.share", "allmydata.immutable.downloader.finder",
                "allmydata.immutable.filenode")


class IntentionalError(Exception):
    pass


class Stuck(Exception):
    """The event system went quiescent before the awaited Deferred fired."""


class Runtime:
    """Virtual clock + seeded delivery scheduler + pump loop."""

    def __init__(self, seed=0, policy="random"):
        self.rng = random.Random("grid-%s" % (seed,))
        self.policy = policy
        self.clock = task.Clock()
        self.pending = []       # (label, Deferred) awaiting delivery
        self.steps = 0
        self.trace = []
        self._saved = {}
        self.keep_trace = False

    # -- installation of the virtual time base
    def install(self):
        self._saved = {"callLater": reactor.callLater, "seconds": reactor.seconds, "time": _time.time}
        reactor.callLater = self.clock.callLater
        reactor.seconds = self.clock.seconds
        _time.time = lambda: BASE_TIME + self.clock.seconds()
        # modules that bound the wall clock at import time (`now = time.time`, `from time import time as now`):
        # their round-trip-time sort keys would otherwise be wall-clock noise and runs would not replay
        self._saved["now"] = []
        for modname in _NOW_MODULES:
            try:
                mod = __import__(modname, fromlist=["now"])
            except Exception:
                continue
            if hasattr(mod, "now"):
                self._saved["now"].append((mod, mod.now))
                mod.now = _time.time
        self._reset_eventual_queue()
        return self

    @staticmethod
    def _reset_eventual_queue():
        # foolscap's eventual-send queue remembers the DelayedCall it scheduled; one left over from
        # another clock would never fire and would stop the queue from ever being scheduled again
        import foolscap.eventual as _ev
        q = _ev._theSimpleQueue
        q._timer = None
        q._events = []
        q._flushObservers = []

    def uninstall(self):
        if self._saved:
            reactor.callLater = self._saved["callLater"]
            reactor.seconds = self._saved["seconds"]
            _time.time = self._saved["time"]
            for mod, fn in self._saved.get("now", []):
                mod.now = fn
            self._saved = {}
            self._reset_eventual_queue()

    def __enter__(self):
        return self.install()

    def __exit__(self, *a):
        self.uninstall()

    # -- scheduler
    def fire_eventually(self, label=None):
        d = defer.Deferred()
        self.pending.append((label, d))
        return d

    def _pick(self):
        if self.policy == "fifo":
            return 0
        if self.policy == "lifo":
            return len(self.pending) - 1
        return self.rng.randrange(len(self.pending))

    def step(self):
        """One unit of progress; False when quiescent (nothing due now)."""
        calls = self.clock.getDelayedCalls()
        now = self.clock.seconds()
        if any(c.getTime() <= now for c in calls):
            self.clock.advance(0)
            return True
        if self.pending:
            label, d = self.pending.pop(self._pick())
            if self.keep_trace:
                self.trace.append(label)
            d.callback(None)
            return True
        return False

    def pump(self, until=None, max_steps=2_000_000, advance_time=True, horizon=None):
        """Run until `until` (a Deferred) has fired, or until quiescent.  Timers in the future are
        reached by jumping the virtual clock (only when nothing else can make progress)."""
        while True:
            if until is not None and until.called and not self.pending_now():
                break
            self.steps += 1
            if self.steps > max_steps:
                raise Stuck("step limit")
            if self.step():
                continue
            if until is not None and until.called:
                break
            calls = [c for c in self.clock.getDelayedCalls()]
            if calls and advance_time:
                nxt = min(c.getTime() for c in calls)
                if horizon is not None and nxt > horizon:
                    break       # only far-future timers remain: treat as quiescent
                self.clock.advance(max(0, nxt - self.clock.seconds()))
                continue
            break

    def pending_now(self):
        now = self.clock.seconds()
        return bool(self.pending) or any(c.getTime() <= now for c in self.clock.getDelayedCalls())

    def wait(self, d, max_steps=2_000_000, horizon=7 * 24 * 3600.0):
        """Pump until Deferred d fires; returns its result or raises its failure; Stuck if it never
        fires although the system is quiescent, or within `horizon` seconds of virtual time."""
        box = []
        d.addBoth(box.append)
        self.pump(until=d, max_steps=max_steps, horizon=self.clock.seconds() + horizon)
        if not box:
            raise Stuck("quiescent but the awaited Deferred never fired")
        r = box[0]
        if isinstance(r, Failure):
            r.raiseException()
        return r

    def settle(self):
        """Run everything that is due now (no time jumps)."""
        self.pump(until=None, advance_time=False)


@implementer(IRemoteReference)
class LocalWrapper:
    """Presents the remote-reference interface for a local Referenceable; calls are delivered by the
    Runtime's scheduler.  `fault(methname, args, kwargs)` may return None | "error" | "hang" |
    ("raise", exc)."""

    def __init__(self, original, rt, owner=None, name=""):
        self.original = original
        self.rt = rt
        self.owner = owner or self
        self.name = name
        self.broken = False
        self.hung = False
        self.fault = None
        self.disconnectors = {}
        self.counter_by_methname = {}
        self.log = None

    def callRemoteOnly(self, methname, *args, **kwargs):
        self.callRemote(methname, *args, **kwargs)
        return None

    def callRemote(self, methname, *args, **kwargs):
        owner = self.owner

        def wrap(a):
            if isinstance(a, Referenceable):
                return LocalWrapper(a, self.rt, owner, self.name)
            return a
        args = tuple(wrap(a) for a in args)
        kwargs = {k: wrap(v) for k, v in kwargs.items()}

        def _call(_):
            owner.counter_by_methname[methname] = owner.counter_by_methname.get(methname, 0) + 1
            if owner.log is not None:
                owner.log.append((self.name, methname))
            if owner.broken:
                if owner.broken is not True:
                    owner.broken -= 1
                raise IntentionalError("I was asked to break")
            act = owner.fault(methname, args, kwargs) if owner.fault else None
            if act == "error":
                raise IntentionalError("fault injected in %s" % methname)
            if isinstance(act, tuple) and act[0] == "raise":
                raise act[1]
            if act == "hang" or owner.hung:
                return defer.Deferred()   # never fires
            meth = getattr(self.original, "remote_" + methname)
            return meth(*args, **kwargs)

        d = self.rt.fire_eventually((self.name, methname))
        d.addCallback(_call)
        d.addErrback(lambda f: Failure(RemoteException(f)))

        def _membrane(res):
            if methname == "allocate_buckets":
                (alreadygot, allocated) = res
                for shnum in allocated:
                    allocated[shnum] = LocalWrapper(allocated[shnum], self.rt, owner, self.name)
            if methname == "get_buckets":
                for shnum in res:
                    res[shnum] = LocalWrapper(res[shnum], self.rt, owner, self.name)
            return res
        d.addCallback(_membrane)
        # the answer also travels: give the scheduler a second chance to reorder responses
        d2 = defer.Deferred()

        def _deliver(res):
            dd = self.rt.fire_eventually((self.name, methname + ":reply"))
            dd.addCallback(lambda _: res)
            dd.chainDeferred(d2)
        d.addBoth(_deliver)
        return d2

    def notifyOnDisconnect(self, f, *args, **kwargs):
        m = object()
        self.owner.disconnectors[m] = (f, args, kwargs)
        return m

    def dontNotifyOnDisconnect(self, marker):
        self.owner.disconnectors.pop(marker, None)

    def disconnect(self):
        """Simulate loss of the connection: later calls fail, disconnect observers run."""
        self.owner.broken = True
        ds, self.owner.disconnectors = self.owner.disconnectors, {}
        for (f, a, k) in ds.values():
            f(*a, **k)


@implementer(IServer)
class GridServer:
    def __init__(self, serverid, rref, permitted=True):
        self.serverid = serverid
        self.rref = rref
        self.permitted = permitted

    def __repr__(self):
        return "<GridServer %s>" % self.get_name()

    def __copy__(self):
        return self

    def __deepcopy__(self, memo):
        return self

    def upload_permitted(self):
        return self.permitted

    def get_serverid(self):
        return self.serverid

    def get_permutation_seed(self):
        return self.serverid

    def get_lease_seed(self):
        return self.serverid

    def get_foolscap_write_enabler_seed(self):
        return self.serverid

    def get_name(self):
        return idlib.shortnodeid_b2a(self.serverid).encode("utf-8")

    def get_longname(self):
        return idlib.nodeid_b2a(self.serverid)

    def get_nickname(self):
        return "nickname"

    def get_rref(self):
        return self.rref

    def get_storage_server(self):
        if self.rref is None:
            return None
        return _StorageServer(lambda: self.rref)

    def get_version(self):
        return self.rref.version

    def is_connected(self):
        return self.rref is not None and not self.rref.broken

    def start_connecting(self, trigger_cb):
        raise NotImplementedError


@implementer(IStorageBroker)
class GridBroker:
    def __init__(self):
        self.servers = []

    def get_servers_for_psi(self, peer_selection_index, for_upload=True):
        def _permuted(server):
            return permute_server_hash(peer_selection_index, server.get_permutation_seed())
        cands = [s for s in self.servers if (s.upload_permitted() or not for_upload)]
        return sorted(cands, key=_permuted)

    def get_connected_servers(self):
        return list(self.servers)

    def get_nickname_for_serverid(self, serverid):
        return None

    def when_connected_enough(self, threshold):
        return defer.Deferred()

    def get_all_serverids(self):
        return [s.get_serverid() for s in self.servers]

    def get_known_servers(self):
        return list(self.servers)


class _GridClient(_Client):
    """Production client with every networking hook stubbed."""

    def init_connections(self):
        pass

    def create_main_tub(self):
        pass

    def init_introducer_client(self):
        pass

    def create_log_tub(self):
        pass

    def setup_logging(self):
        pass

    def startService(self):
        service.MultiService.startService(self)

    def stopService(self):
        return service.MultiService.stopService(self)

    def init_helper(self):
        pass

    def init_key_gen(self):
        pass

    def init_storage(self):
        pass

    def init_client_storage_broker(self):
        pass

    def init_stub_client(self):
        pass

    def init_web(self, *a, **k):
        pass


class SimpleStats:
    def __init__(self):
        self.counters = {}
        self.stats_producers = []

    def count(self, name, delta=1):
        self.counters[name] = self.counters.get(name, 0) + delta

    def register_producer(self, p):
        self.stats_producers.append(p)

    def get_stats(self):
        return {"counters": self.counters, "stats": {}}


class Grid:
    """num_servers real storage servers + clients, under `basedir` (created fresh)."""

    def __init__(self, basedir, rt, num_servers=10, num_clients=1, k=3, happy=1, n=10,
                 max_segment_size=None, readonly=(), convergence=b"\x00" * 16, reserved_space=0):
        self.basedir = basedir
        self.rt = rt
        if os.path.exists(basedir):
            shutil.rmtree(basedir)
        fileutil.make_dirs(basedir)
        self.parent = service.MultiService()
        self.parent.startService()
        self.storage = {}     # number -> StorageServer
        self.wrappers = {}    # number -> LocalWrapper
        self.servers = {}     # number -> GridServer
        self.broker = GridBroker()
        for i in range(num_servers):
            self.add_server(i, readonly=(i in readonly), reserved_space=reserved_space)
        self.clients = []
        for i in range(num_clients):
            self.clients.append(self.make_client(i, k, happy, n, max_segment_size, convergence))

    def serverid(self, i):
        return hashutil.tagged_hash(b"serverid", b"%d" % i)[:20]

    def add_server(self, i, readonly=False, reserved_space=0):
        serverid = self.serverid(i)
        serverdir = os.path.join(self.basedir, "servers", "%02d" % i, "storage")
        fileutil.make_dirs(serverdir)
        ss = StorageServer(serverdir, serverid, stats_provider=SimpleStats(), readonly_storage=readonly,
                           reserved_space=reserved_space, clock=self.rt.clock)
        # the share crawlers (bucket counter, lease checker) re-arm timers forever; they are the
        # subject of C26/C27 (which build their own servers) and would keep a hung system "busy"
        for child in list(ss):
            child.disownServiceParent()
        mid = service.MultiService()
        mid.setServiceParent(self.parent)
        ss.setServiceParent(mid)
        fss = FoolscapStorageServer(ss)
        w = LocalWrapper(fss, self.rt, name="s%d" % i)
        w.version = fss.remote_get_version()
        self.storage[i] = ss
        self.wrappers[i] = w
        gs = GridServer(serverid, w)
        self.servers[i] = gs
        self.broker.servers.append(gs)
        return gs

    def remove_server(self, i):
        gs = self.servers.pop(i)
        self.broker.servers.remove(gs)
        self.wrappers.pop(i)
        return self.storage.pop(i)

    def make_client(self, i, k, happy, n, max_segment_size, convergence):
        clientid = hashutil.tagged_hash(b"clientid", b"%d" % i)[:20]
        clientdir = os.path.join(self.basedir, "clients", "%02d" % i)
        fileutil.make_dirs(os.path.join(clientdir, "private"), 0o700)
        with open(os.path.join(clientdir, "tahoe.cfg"), "w") as f:
            f.write("[node]\nnickname = client-%d\n[client]\nshares.needed = %d\nshares.happy = %d\nshares.total = %d\n"
                    "[storage]\nenabled = false\n" % (i, k, happy, n))
        with open(os.path.join(clientdir, "private", "convergence"), "wb") as f:
            from allmydata.util import base32
            f.write(base32.b2a(convergence) + b"\n")
        config = read_config(clientdir, "client.port")
        c = _GridClient(config, main_tub=None, i2p_provider=None, tor_provider=None,
                        introducer_clients=[], storage_farm_broker=self.broker)
        c.nodeid = clientid
        c.short_nodeid = idlib.shortnodeid_b2a(clientid)
        if max_segment_size is not None:
            c.encoding_params["max_segment_size"] = max_segment_size
        c.setServiceParent(self.parent)
        return c

    # -- share inspection
    def share_files(self, storage_index):
        """[(server number, shnum, path)] for every share of the storage index on disk."""
        from allmydata.storage.server import storage_index_to_dir
        res = []
        for i, ss in sorted(self.storage.items()):
            d = os.path.join(ss.sharedir, storage_index_to_dir(storage_index))
            if os.path.isdir(d):
                for f in sorted(os.listdir(d)):
                    if f.isdigit():
                        res.append((i, int(f), os.path.join(d, f)))
        return res

    def incoming_files(self):
        res = []
        for i, ss in sorted(self.storage.items()):
            for root, dirs, files in os.walk(ss.incomingdir):
                for f in files:
                    res.append((i, os.path.join(root, f)))
        return res

    def close(self):
        shutil.rmtree(self.basedir, ignore_errors=True)


def fresh_dir(tag):
    import common
    d = os.path.join(common.WORK, "grid-%s-%d" % (tag, os.getpid()))
    if os.path.exists(d):
        shutil.rmtree(d)
    return d
