"""Regenerate /verif/MANIFEST.json from harness/props/c*.py metadata (and not_applicable.json)."""
import json
import os
import sys
sys.path.insert(0, os.path.dirname(os.path.abspath(__file__)))
import common


def main():
    props = [json.loads(l) for l in open(os.path.join(common.VERIF, "properties.jsonl"))]
    ids = [p["id"] for p in props]
    checks = []
    claimed = set()
    accepted = set(json.load(open(os.path.join(common.VERIF, "harness", "claimed.json"))))
    for pid in ids:
        path = os.path.join(common.VERIF, "harness", "props", pid.lower() + ".py")
        if not os.path.exists(path) or pid not in accepted:
            continue
        m = common.load_prop(pid)
        if getattr(m, "DISABLED", False):
            continue
        claimed.add(pid)
        checks.append({
            "property_id": pid,
            "quick_cmd": "./check %s" % pid,
            "thorough_cmd": "./check %s --thorough" % pid,
            "evidence_file": "evidence/%s.json" % pid,
            "replay_cmd_template": "./check %s --replay {path}" % pid,
            "engine": "lean+harness",
            "level_claimed": {"category": "proof", "text": m.LEVEL_TEXT, "design_ref": getattr(m, "DESIGN_REF", "DESIGN.md §2 " + pid)},
            "level_note": m.LEVEL_NOTE,
            "technique": m.TECHNIQUE,
        })
    na_path = os.path.join(common.VERIF, "not_applicable.json")
    na_reasons = json.load(open(na_path)) if os.path.exists(na_path) else {}
    na = []
    for pid in ids:
        if pid not in claimed:
            na.append({"property_id": pid, "reason": na_reasons.get(
                pid, "not yet claimed: Lean model, theorems and correspondence check for this property are not built yet (planned in DESIGN.md section 2); no other technique is substituted")})
    man = {
        "version": 1,
        "setup_cmd": "./setup.sh",
        "hooks": {
            "guard": "TAHOE_LAFS_VERIF",
            "enable": "no source hooks: checks import /repo/src in-process with TAHOE_LAFS_VERIF=1 set; clocks, schedulers and fault injection are monkey-patched inside harness processes only",
            "baseline_off_cmd": "cd /repo && /venv/bin/python -m pytest -ra -q -p no:cacheprovider --timeout=900 --continue-on-collection-errors",
            "source_commits": [],
            "add_only": True,
        },
        "engines": [
            {"name": "lean", "path": "lean", "serves_properties": sorted(claimed),
             "kind_free_text": "Lean 4 project: executable models (Tahoe/**), property theorems (Tahoe/Props/Cxx.lean), per-property line-protocol drivers (Drv/Cxx.lean)"},
            {"name": "harness", "path": "harness", "serves_properties": sorted(claimed),
             "kind_free_text": "Python: constant extractor (source -> Tahoe/Generated), differential correspondence of model vs real code, implementation-side property monitors (failing-input search), verdict + evidence"},
        ],
        "checks": checks,
        "notes": "Every check: regenerate constants from /repo, lake build the property's theorems and driver, audit axioms, run model and implementation on the same seeded cases, evaluate the property on the implementation. See DESIGN.md.",
        "not_applicable": na,
    }
    with open(os.path.join(common.VERIF, "MANIFEST.json"), "w") as f:
        json.dump(man, f, indent=1)
        f.write("\n")
    print("claimed", len(claimed), "not_applicable", len(na))


if __name__ == "__main__":
    main()
