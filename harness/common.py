"""Shared machinery of the /verif checks.

Pipeline of one check run (DESIGN.md section 1.1):
  1. regenerate lean/Tahoe/Generated.lean from /repo's working tree (extract.py)
  2. lake build Tahoe.Props.<id> and the property's driver executable (flock-serialised)
  3. audit: forbidden tokens, `#print axioms` of every property theorem
  4. correspondence: the property module runs the real code and the Lean driver on the same
     generated cases and reports disagreements; an implementation-side monitor evaluates the
     property statement itself on the real code (the failing-input search engine)
  5. verdict, evidence/<id>.json, exit code (0 ok, 1 violation, 2 infrastructure problem/timeouts)
"""
import fcntl
import hashlib
import importlib
import json
import os
import random
import re
import subprocess
import sys
import time
import traceback

VERIF = os.path.dirname(os.path.dirname(os.path.abspath(__file__)))
REPO = os.environ.get("VERIF_REPO", "/repo")
LEAN = os.path.join(VERIF, "lean")
WORK = os.path.join(VERIF, ".work")
EVID = os.path.join(VERIF, "evidence")
REPLAYS = os.path.join(EVID, "replays")
KNOWN = os.path.join(VERIF, "known_findings.json")
ALLOWED_AXIOMS = {"propext", "Classical.choice", "Quot.sound"}
FORBIDDEN = re.compile(
    r"\bsorry\b|\badmit\b|^\s*axiom\s|native_decide|bv_decide|implemented_by|\bunsafe\s|maxHeartbeats\s+0\b|^\s*extern\b")

GLOBAL_TRUSTED = [
    "Lean 4.33.0 kernel (thorough tier: leanchecker re-check of the compiled .olean files)",
    "axioms propext, Classical.choice, Quot.sound only (audited by #print axioms on every property theorem each run)",
    "harness/extract.py (constants regenerated from /repo into Tahoe/Generated.lean each run)",
    "the Python correspondence harness (harness/common.py, harness/props/*.py) and the Lean driver parsers (lean/Drv/*.lean)",
    "CPython 3.12 and the third-party libraries the real code calls (Twisted, zfec, cryptography, hashlib, struct, re) — exercised, not verified",
]


def ensure_dirs():
    for d in (WORK, EVID, REPLAYS):
        os.makedirs(d, exist_ok=True)


class Lock:
    def __init__(self, name):
        ensure_dirs()
        self.path = os.path.join(WORK, name)

    def __enter__(self):
        self.f = open(self.path, "w")
        fcntl.flock(self.f, fcntl.LOCK_EX)
        return self

    def __exit__(self, *a):
        fcntl.flock(self.f, fcntl.LOCK_UN)
        self.f.close()


def sh(cmd, cwd=None, timeout=None, env=None, input=None):
    p = subprocess.run(cmd, cwd=cwd, timeout=timeout, env=env, input=input,
                       stdout=subprocess.PIPE, stderr=subprocess.STDOUT, text=True)
    return p.returncode, p.stdout


# ----------------------------------------------------------------------------- Lean side

def strip_comments(src):
    """Remove Lean block comments (nested) and line comments; keep line structure."""
    out = []
    i, n, depth = 0, len(src), 0
    while i < n:
        if src.startswith("/-", i):
            depth += 1
            i += 2
            continue
        if depth and src.startswith("-/", i):
            depth -= 1
            i += 2
            continue
        if depth:
            if src[i] == "\n":
                out.append("\n")
            i += 1
            continue
        if src.startswith("--", i):
            while i < n and src[i] != "\n":
                i += 1
            continue
        out.append(src[i])
        i += 1
    return "".join(out)


def lean_sources():
    res = []
    for root, dirs, files in os.walk(LEAN):
        if ".lake" in root:
            continue
        for f in files:
            if f.endswith(".lean"):
                res.append(os.path.join(root, f))
    return sorted(res)


def import_closure(modules):
    """Lean source files of the given modules and of everything they import inside this project."""
    seen, todo = {}, list(modules)
    while todo:
        m = todo.pop()
        if m in seen:
            continue
        path = os.path.join(LEAN, m.replace(".", "/") + ".lean")
        if not os.path.exists(path):
            continue
        seen[m] = path
        for line in strip_comments(open(path, encoding="utf-8").read()).split("\n"):
            mm = re.match(r"\s*(?:public\s+)?import\s+(Tahoe\.\S+|Drv\.\S+)", line)
            if mm:
                todo.append(mm.group(1))
    return sorted(seen.values())


def grep_audit(paths=None):
    """Forbidden tokens in the given Lean files (default: every file of the project)."""
    hits = []
    for path in (paths if paths is not None else lean_sources()):
        body = strip_comments(open(path, encoding="utf-8").read())
        # string literals may legitimately contain words; drop them
        body = re.sub(r'"(\\.|[^"\\])*"', '""', body)
        for ln, line in enumerate(body.split("\n"), 1):
            if FORBIDDEN.search(line):
                hits.append("%s:%d: %s" % (os.path.relpath(path, VERIF), ln, line.strip()[:120]))
    return hits


def theorems_of(props_module):
    """Names (namespace-qualified) of the theorems stated in a Props file, with line numbers."""
    path = os.path.join(LEAN, props_module.replace(".", "/") + ".lean")
    src = strip_comments(open(path, encoding="utf-8").read())
    ns = []
    res = []
    for ln, line in enumerate(src.split("\n"), 1):
        m = re.match(r"\s*namespace\s+(\S+)", line)
        if m:
            ns.append(m.group(1))
            continue
        m = re.match(r"\s*end\s+(\S+)\s*$", line)
        if m and ns and ns[-1] == m.group(1):
            ns.pop()
            continue
        m = re.match(r"\s*(?:@\[[^\]]*\]\s*)?(?:protected\s+|private\s+)?theorem\s+([^\s:({\[]+)", line)
        if m:
            name = m.group(1)
            full = ".".join(ns + [name]) if not name.startswith("_root_.") else name[7:]
            res.append((full, ln))
    return path, res


def lake_build(targets, timeout=3000):
    with Lock("lake.lock"):
        t0 = time.time()
        rc, out = sh(["lake", "build"] + targets, cwd=LEAN, timeout=timeout)
        return rc, out, time.time() - t0


def failing_theorems(out, props_path, thms):
    """Map `error: file:line:col` lines of a lake build to the nearest preceding theorem."""
    bad = []
    for m in re.finditer(r"error: ([^\s:]+\.lean):(\d+):(\d+): (.*)", out):
        f, ln, msg = m.group(1), int(m.group(2)), m.group(4)
        if os.path.abspath(os.path.join(LEAN, f)) == os.path.abspath(props_path) or os.path.abspath(f) == os.path.abspath(props_path):
            cand = [n for (n, l) in thms if l <= ln]
            bad.append((cand[-1] if cand else os.path.basename(f), msg[:200]))
        else:
            bad.append((os.path.relpath(f, LEAN) if os.path.isabs(f) else f, msg[:200]))
    return bad


def print_axioms(props_module, names):
    """Run `#print axioms` for each theorem; returns {name: [axioms]} (None = not found)."""
    ensure_dirs()
    tag = props_module.split(".")[-1]
    path = os.path.join(WORK, "audit_%s_%d.lean" % (tag, os.getpid()))
    with open(path, "w") as f:
        f.write("import %s\n" % props_module)
        for n in names:
            f.write("#print axioms %s\n" % n)
    rc, out = sh(["lake", "env", "lean", path], cwd=LEAN, timeout=1200)
    os.unlink(path)
    res = {}
    flat = re.sub(r"\s+", " ", out)
    for n in names:
        m = re.search(r"'%s' depends on axioms: \[([^\]]*)\]" % re.escape(n), flat)
        if m:
            res[n] = [a.strip() for a in m.group(1).split(",") if a.strip()]
        elif re.search(r"'%s' does not depend on any axioms" % re.escape(n), flat):
            res[n] = []
        else:
            res[n] = None
    return rc, out, res


def driver_path(name):
    return os.path.join(LEAN, ".lake", "build", "bin", "drv_" + name.lower())


class Driver:
    """Runs lean/Drv/<Name>.lean (compiled) on a batch of lines: one line in, one line out."""

    def __init__(self, name):
        self.name = name
        self.lines_sent = 0

    def __call__(self, lines, timeout=1800):
        if not lines:
            return []
        for l in lines:
            if "\n" in l:
                raise ValueError("newline in driver line")
        p = subprocess.run([driver_path(self.name)], input="\n".join(lines) + "\n",
                           stdout=subprocess.PIPE, stderr=subprocess.PIPE, text=True, timeout=timeout)
        out = p.stdout.split("\n")
        if out and out[-1] == "":
            out.pop()
        if p.returncode != 0 or len(out) != len(lines):
            raise InfraError("driver %s: rc=%s, %d lines in, %d lines out; stderr=%s" % (
                self.name, p.returncode, len(lines), len(out), p.stderr[-500:]))
        self.lines_sent += len(lines)
        for i, o in enumerate(out):
            if o.startswith("bad-op"):
                raise InfraError("driver %s rejected line %r -> %r" % (self.name, lines[i][:300], o))
        return out


class InfraError(Exception):
    pass


class NullDriver:
    """Stands in when the driver executable cannot be built: model outputs are unavailable."""
    lines_sent = 0

    def __call__(self, lines, timeout=None):
        return None


# ----------------------------------------------------------------------------- hex helpers

def hx(b):
    """bytes -> lowercase hex, '-' for empty (so that fields never vanish when split on spaces)."""
    b = bytes(b)
    return b.hex() if b else "-"


def unhx(s):
    return b"" if s == "-" else bytes.fromhex(s)


# ----------------------------------------------------------------------------- known findings

def load_known():
    """known_findings.json (+ per-property files under known_findings.d/): committed, never written at run time."""
    res = []
    if os.path.exists(KNOWN):
        res += json.load(open(KNOWN)).get("findings", [])
    d = os.path.join(VERIF, "known_findings.d")
    if os.path.isdir(d):
        for f in sorted(os.listdir(d)):
            if f.endswith(".json"):
                res += json.load(open(os.path.join(d, f))).get("findings", [])
    return res


# ----------------------------------------------------------------------------- context

class Ctx:
    def __init__(self, pid, tier, seed, mod, replay=None):
        self.pid = pid
        self.tier = tier
        self.seed = seed
        self.mod = mod
        self.rng = random.Random("%s-%d" % (pid, seed))
        self.replay = replay
        self.model = Driver(getattr(mod, "DRIVER", pid))
        self.evaluations = 0
        self.nontrivial = set()
        self.dist = {}
        self.samples = []
        self.disagreements = []   # correspondence: model vs implementation
        self.violations = []      # property monitor on the implementation
        self.known_hits = []
        self.notes = []
        self.escalated = False
        self.t0 = time.time()
        self.known = [k for k in load_known() if k.get("property") == pid and k.get("status", "open") == "open"]

    # --- budgets
    def budget(self, quick, thorough):
        n = thorough if self.tier == "thorough" else quick
        if self.escalated and self.tier != "thorough":
            n = min(thorough, quick * 5)
        return n

    def subrng(self, label):
        return random.Random("%s-%d-%s" % (self.pid, self.seed, label))

    # --- coverage accounting
    def case(self, key=None, n=1):
        """Count an evaluated case; `key` (hashable/str) identifies a distinct non-trivial case."""
        self.evaluations += n
        if key is not None:
            if len(self.nontrivial) < 2_000_000:
                self.nontrivial.add(key if isinstance(key, (str, int, tuple)) else repr(key))

    def count(self, label, n=1):
        self.dist[label] = self.dist.get(label, 0) + n

    def sample(self, obj, limit=6):
        if len(self.samples) < limit:
            self.samples.append(obj)

    def note(self, s):
        self.notes.append(s)

    # --- findings
    def disagree(self, what, case, impl, model, internal_only=False):
        if len(self.disagreements) < 50:
            self.disagreements.append({"what": what, "case": case, "impl": impl, "model": model,
                                       "internal_only": internal_only})
        self.count("disagreements")

    def violation(self, what, case, signature=None, detail=None):
        """The implementation breaks the property statement on `case`.
        `signature` is the classifier string compared with known_findings.json."""
        for k in self.known:
            if signature is not None and k.get("signature") == signature:
                if signature not in [h["signature"] for h in self.known_hits]:
                    self.known_hits.append({"signature": signature, "what": k.get("what", what), "case": case})
                self.count("known-finding:" + signature)
                return
        if len(self.violations) < 50:
            self.violations.append({"what": what, "case": case, "signature": signature, "detail": detail})
        self.count("violations")

    def compare(self, what, cases, impl_outs, model_outs):
        """Diff two equally long output lists; records disagreements; returns number of diffs."""
        n = 0
        if model_outs is None:
            return 0
        for c, a, b in zip(cases, impl_outs, model_outs):
            if a != b:
                n += 1
                self.disagree(what, c, a, b)
        return n


def write_replay(pid, obj):
    ensure_dirs()
    blob = json.dumps(obj, sort_keys=True, default=repr, indent=1)
    h = hashlib.sha256(blob.encode()).hexdigest()[:12]
    path = os.path.join(REPLAYS, "%s-%s.json" % (pid, h))
    with open(path, "w") as f:
        f.write(blob + "\n")
    return os.path.relpath(path, VERIF)


def load_prop(pid):
    sys.path.insert(0, os.path.join(VERIF, "harness"))
    return importlib.import_module("props." + pid.lower())


def setup_impl_path():
    """Make /repo's working tree importable (allmydata is not pip-installed) plus the shims."""
    for p in (os.path.join(VERIF, "harness", "shims"), os.path.join(REPO, "src")):
        if p not in sys.path:
            sys.path.insert(0, p)
    os.environ.setdefault("TAHOE_LAFS_VERIF", "1")
