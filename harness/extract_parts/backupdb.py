"""Constants of scripts/backupdb.py used by the C42 model (lean/Tahoe/BackupDb.lean)."""
NAME = "Backupdb"


def collect(h):
    from allmydata.scripts import backupdb
    h.nat("DAY", backupdb.DAY, "scripts/backupdb.py DAY")
    h.nat("MONTH", backupdb.MONTH, "scripts/backupdb.py MONTH")
    h.nat("NO_CHECK_BEFORE", backupdb.BackupDB_v2.NO_CHECK_BEFORE, "scripts/backupdb.py BackupDB_v2.NO_CHECK_BEFORE")
    h.nat("ALWAYS_CHECK_AFTER", backupdb.BackupDB_v2.ALWAYS_CHECK_AFTER, "scripts/backupdb.py BackupDB_v2.ALWAYS_CHECK_AFTER")
    h.nat("VERSION", backupdb.BackupDB_v2.VERSION, "scripts/backupdb.py BackupDB_v2.VERSION")
    from allmydata.util.netstring import netstring
    h.bytes("NETSTRING_SAMPLE", netstring(b"hello, world"), "util/netstring.py netstring(b'hello, world')")
