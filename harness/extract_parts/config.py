"""Unit tables and regexes of util/time_format.py (parse_duration, parse_date) and util/abbreviate.py
(parse_abbreviated_size, abbreviate_space), pulled from the live source.

The tables are locals of the functions, so they are recovered from the function's AST: the simple
`NAME = <expr>` assignments of the body are executed in the module's namespace (they are constant
expressions / dict literals / an f-string), nothing else is run.
Words are emitted as lists of code points (kernel-friendly), with the text in the doc comment.
"""
import ast
import inspect
import textwrap

NAME = "Config"


def _func_ast(fn):
    return ast.parse(textwrap.dedent(inspect.getsource(fn))).body[0]


def _exec_assigns(fn, module, wanted):
    """Execute the top-level single-name assignments of fn's body; return the wanted locals."""
    ns = dict(vars(module))
    for st in _func_ast(fn).body:
        if isinstance(st, ast.Assign) and len(st.targets) == 1 and isinstance(st.targets[0], ast.Name):
            try:
                exec(compile(ast.Module([st], []), "<extract>", "exec"), ns)
            except Exception:
                pass   # depends on the argument (e.g. `match = re.match(pattern, s, ...)`)
    return [ns[w] for w in wanted]


def _regex_calls(fn):
    """(function name, pattern literal) of every re.<f>(<literal>, ...) call in fn, in source order."""
    res = []
    for node in ast.walk(_func_ast(fn)):
        if (isinstance(node, ast.Call) and isinstance(node.func, ast.Attribute)
                and isinstance(node.func.value, ast.Name) and node.func.value.id == "re"
                and node.args and isinstance(node.args[0], ast.Constant) and isinstance(node.args[0].value, str)):
            res.append((node.func.attr, node.args[0].value))
    return res


def _dict_literals(fn):
    res = []
    for node in ast.walk(_func_ast(fn)):
        if isinstance(node, ast.Dict):
            res.append(eval(compile(ast.Expression(node), "<extract>", "eval"), {}))
    return res


def _cps(s):
    return "[" + ", ".join(str(ord(c)) for c in s) + "]"


def _table(pairs):
    return "[" + ", ".join("(%s, %d)" % (_cps(str(k)), int(v)) for k, v in pairs) + "]"


def collect(h):
    from allmydata.util import time_format, abbreviate
    # --- durations
    time_map, pattern = _exec_assigns(time_format.parse_duration, time_format, ["time_map", "pattern"])
    order = time_format.ParseDurationUnitFormat.list_values()       # alternation order of the regex
    pairs = [(str(u), time_map[u]) for u in order]
    assert len(pairs) == len(time_map)
    h.raw("duration_units", "List (List Nat × Nat)", _table(pairs),
          "time_format.parse_duration time_map, in regex alternation order: " +
          ", ".join("%s=%d" % p for p in pairs))
    h.str("duration_regex", pattern, "time_format.parse_duration pattern (matched with re.match, re.IGNORECASE)")
    # --- dates
    calls = _regex_calls(time_format.parse_date)
    h.str("date_regex_fn", calls[0][0] if calls else "", "re function applied by time_format.parse_date itself ('' = none)")
    h.str("date_regex", calls[0][1] if calls else "", "pattern literal of that call")
    # --- sizes
    calls = _regex_calls(abbreviate.parse_abbreviated_size)
    h.str("size_regex_fn", calls[0][0] if calls else "", "re function applied by abbreviate.parse_abbreviated_size (to s.upper())")
    h.str("size_regex", calls[0][1] if calls else "", "pattern literal of that call")
    (mult,) = [d for d in _dict_literals(abbreviate.parse_abbreviated_size) if "KI" in d]
    pairs = list(mult.items())
    h.raw("size_multipliers", "List (List Nat × Nat)", _table(pairs),
          "abbreviate.parse_abbreviated_size multiplier dict (keys after stripping a final B): " +
          ", ".join("%s=%d" % (k or "''", v) for k, v in pairs))
    # --- abbreviate_space: the byte threshold and the two bases are literals of the function
    consts = sorted({n.value for n in ast.walk(_func_ast(abbreviate.abbreviate_space))
                     if isinstance(n, ast.Constant) and isinstance(n.value, (int, float)) and not isinstance(n.value, bool)})
    h.natlist("abbreviate_space_numbers", [int(c) for c in consts if float(c) == int(c)],
              "numeric literals of abbreviate.abbreviate_space (bases 1000.0/1024.0, bytes threshold 1024)")
