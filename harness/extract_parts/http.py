"""HTTP storage protocol tables (storage/http_server.py, http_common.py, http_client.py) for C30/C31.

Taken from the LIVE klein app `HTTPServer._app` (not from the source text):

  routes               one entry per werkzeug rule: (endpoint, methods, path pattern, required secrets).  The
                       pattern is the rule split on "/" with `<storage_index:…>` -> "<si>" and
                       `<int(signed=False):…>` -> "<int>"; any other converter makes the extractor fail.
                       The required secrets are read out of the closure of the function klein will call.
  allRoutesAuthorized  every endpoint function registered in the app is klein's `_f` wrapper around the
                       `route` closure created by `_authorization_decorator` in http_server.py (so the
                       swissnum check and `_extract_secrets` run before any handler code).
  secretNames          values of the `Secrets` enum, in definition order.
  authPrefix           `swissnum_auth_header(b"")` (the scheme word and the space).
  siAlphabet, siLength, siLastChars
                       StorageIndexConverter: its regex is checked to be `[alphabet]{26}`; siLastChars are the
                       characters c for which `si_a2b(25*"a" + c)` is accepted (canonical last quintet).
  pyWhitespace         code points removed by `str.strip()` (used on X-Tahoe-Authorization values).
  rtw*Keys             the dictionary keys the client puts on the wire for read-test-write
                       (`TestWriteVectors.asdict()`, `attrs.asdict` of the vector classes) and the string
                       constants the server handler looks up (co_consts of the handler coroutine).
"""
import re
NAME = "Http"

AUTH_QUALNAME = "_authorization_decorator.<locals>.decorator.<locals>.route"


def _cells(f):
    return dict(zip(f.__code__.co_freevars, [c.cell_contents for c in (f.__closure__ or ())]))


def lean_str(s):
    return '"' + "".join(c if (32 <= ord(c) < 127 and c not in '"\\') else "\\x%02x" % ord(c) for c in s) + '"'


def strlist(xs):
    return "[" + ", ".join(lean_str(x) for x in xs) + "]"


def route_table():
    """[(endpoint, methods, segments, required)], all_authorized"""
    from allmydata.storage import http_server as hs
    app = hs.HTTPServer._app
    res = []
    ok = True
    for r in app.url_map.iter_rules():
        f = app._endpoints[r.endpoint]
        inner = _cells(f).get("f")
        c = _cells(inner) if inner is not None else {}
        wrapped = (inner is not None and inner.__code__.co_qualname == AUTH_QUALNAME
                   and inner.__code__.co_filename == hs.__file__ and "required_secrets" in c)
        ok = ok and wrapped
        required = sorted(s.value for s in c.get("required_secrets", ()))
        if not r.rule.startswith("/"):
            raise ValueError("relative rule %r" % r.rule)
        segs = []
        for part in r.rule[1:].split("/"):
            if part.startswith("<"):
                if part.startswith("<storage_index:"):
                    segs.append("<si>")
                elif part.startswith("<int(signed=False):"):
                    segs.append("<int>")
                else:
                    raise ValueError("unmodelled converter in rule %r" % r.rule)
            else:
                segs.append(part)
        res.append((r.endpoint, sorted(r.methods), segs, required))
    if app.url_map.converters["storage_index"] is not hs.StorageIndexConverter:
        raise ValueError("storage_index converter replaced")
    return sorted(res), ok


def collect(h):
    from allmydata.storage import http_server as hs, http_client as hc
    from allmydata.storage.http_common import Secrets, swissnum_auth_header
    from allmydata.storage.common import si_a2b
    from allmydata.util.base32 import rfc3548_alphabet
    import attrs

    routes, ok = route_table()
    h.raw("routes", "List (String × List String × List String × List String)",
          "[\n  " + ",\n  ".join("(%s, %s, %s, %s)" % (lean_str(e), strlist(m), strlist(s), strlist(q))
                                for (e, m, s, q) in routes) + "]",
          "werkzeug rules of HTTPServer._app: (endpoint, methods, path pattern, required secrets of the wrapping decorator)")
    h.bool("allRoutesAuthorized", ok,
           "every endpoint of the klein app is klein's wrapper around _authorization_decorator's `route` closure")
    h.strlist("secretNames", [s.value for s in Secrets], "http_common.Secrets values in definition order")
    h.str("authPrefix", swissnum_auth_header(b"").decode("ascii"), "swissnum_auth_header(b'')")

    alphabet = rfc3548_alphabet.decode("ascii")
    m = re.fullmatch(r"\[(.*)\]\{(\d+)\}", hs.StorageIndexConverter.regex)
    if not m or m.group(1) != alphabet:
        raise ValueError("StorageIndexConverter.regex is %r" % hs.StorageIndexConverter.regex)
    n = int(m.group(2))
    h.str("siAlphabet", alphabet, "StorageIndexConverter.regex character class")
    h.nat("siLength", n, "StorageIndexConverter.regex repetition")
    last = ""
    for ch in alphabet:
        try:
            si_a2b(("a" * (n - 1) + ch).encode("ascii"))
            last += ch
        except (AssertionError, ValueError):
            pass
    h.str("siLastChars", last, "last characters accepted by si_a2b for a string of siLength characters")
    h.natlist("pyWhitespace", [c for c in range(0x110000) if chr(c).strip() == ""],
              "code points removed by str.strip()")

    # read-test-write wire keys: client side
    tw = hc.TestWriteVectors(test_vectors=[hc.TestVector(0, 0, b"")], write_vectors=[hc.WriteVector(0, b"")]).asdict()
    h.strlist("rtwClientShareKeys", sorted(tw.keys()), "TestWriteVectors.asdict() keys")
    h.strlist("rtwClientTestKeys", sorted(tw["test"][0].keys()), "keys of one test vector on the wire")
    h.strlist("rtwClientWriteKeys", sorted(tw["write"][0].keys()), "keys of one write vector on the wire")
    h.strlist("rtwClientReadKeys", sorted(attrs.asdict(hc.ReadVector(0, 0)).keys()), "keys of one read vector on the wire")
    # server side: string constants of the handler coroutine and its nested comprehensions
    fn = hs.HTTPServer.mutable_read_test_write
    while hasattr(fn, "__wrapped__"):
        fn = fn.__wrapped__
    consts = set()

    def walk(code):
        for c in code.co_consts:
            if isinstance(c, str):
                consts.add(c)
            elif hasattr(c, "co_consts"):
                walk(c)
    walk(fn.__code__)
    doc = fn.__doc__
    h.strlist("rtwServerKeys", sorted(c for c in consts if c != doc and c != "mutable_read_test_write"),
              "string constants looked up by HTTPServer.mutable_read_test_write")


def zero_length_read_mode():
    """What `http_client.read_share_chunk(..., length=0)` does, observed on the live function with a stub client whose
    server answers 404 to everything:
      "raise"  ValueError before anything is sent (werkzeug cannot build an empty Range),
      "empty"  returns b"" without sending a request (so a missing share is not noticed),
      "probe"  sends a one-byte range request (so a missing share still surfaces as ClientException(404)).
    Anything else makes the extractor fail."""
    from allmydata.storage import http_client as hc
    from hyperlink import DecodedURL
    sent = []

    from twisted.web.http_headers import Headers

    class Resp:
        code = 404
        phrase = b"NOT FOUND"
        headers = Headers({"content-type": ["application/octet-stream"]})

    class StubClient:
        _clock = None

        def relative_url(self, path):
            return DecodedURL.from_text("http://127.0.0.1").click(path)

        async def request(self, method, url, headers=None, **kw):
            sent.append(headers.getRawHeaders("range") if headers is not None else None)
            return Resp()

    res, err = [], []
    d = hc.read_share_chunk(StubClient(), "immutable", b"\x00" * 16, 0, 5, 0)
    d.addCallbacks(res.append, err.append)
    if res and res[0] == b"" and not sent:
        return "empty"
    if err and err[0].check(ValueError, AssertionError) and not sent:
        return "raise"
    if err and err[0].check(hc.ClientException) and err[0].value.code == 404 and sent == [["bytes=5-5"]]:
        return "probe"
    raise ValueError("unmodelled zero-length read behaviour: result=%r error=%r sent=%r" % (res, err, sent))


_collect_base = collect


def collect(h):
    _collect_base(h)
    h.str("zeroLengthRead", zero_length_read_mode(),
          "what http_client.read_share_chunk(length=0) does: raise | empty | probe (see extract_parts/http.py)")
