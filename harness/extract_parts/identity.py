"""Cap-string prefixes of every concrete `_BaseURI` subclass and the owners of the comparison
dunders of the classes modelled by C43 (lean/Tahoe/Identity/Model.lean).

  PREFIX_<Class>   : List UInt8   the prefix `to_string()` of a *sample instance* actually starts with
                                  (text up to and including the second ':'); the extractor fails when
                                  it differs from the class attribute BASE_STRING
  URI_CLASSES      : List String  the concrete `_BaseURI` subclasses (sorted); a new cap class changes
                                  this list and breaks `C43.uri_classes_pinned`
  EQ_OWNER_<Class> / NE_OWNER_<Class> / HASH_OWNER_<Class> : String
                                  name of the class in the MRO whose __dict__ provides the dunder
                                  ("object" = inherited default, "None" = `__hash__ = None`, unhashable)
"""
NAME = "Identity"


def _samples():
    from allmydata import uri
    chk = uri.CHKFileURI(key=b"\x01" * 16, uri_extension_hash=b"\x02" * 32, needed_shares=3, total_shares=10, size=1000)
    lit = uri.LiteralFileURI(b"data")
    ssk = uri.WriteableSSKFileURI(b"\x03" * 16, b"\x04" * 32)
    mdmf = uri.WriteableMDMFFileURI(b"\x05" * 16, b"\x06" * 32)
    s = {
        "CHKFileURI": chk, "CHKFileVerifierURI": chk.get_verify_cap(), "LiteralFileURI": lit,
        "WriteableSSKFileURI": ssk, "ReadonlySSKFileURI": ssk.get_readonly(), "SSKVerifierURI": ssk.get_verify_cap(),
        "WriteableMDMFFileURI": mdmf, "ReadonlyMDMFFileURI": mdmf.get_readonly(), "MDMFVerifierURI": mdmf.get_verify_cap(),
        "DirectoryURI": uri.DirectoryURI(ssk), "ReadonlyDirectoryURI": uri.ReadonlyDirectoryURI(ssk.get_readonly()),
        "ImmutableDirectoryURI": uri.ImmutableDirectoryURI(chk), "LiteralDirectoryURI": uri.LiteralDirectoryURI(lit),
        "MDMFDirectoryURI": uri.MDMFDirectoryURI(mdmf), "ReadonlyMDMFDirectoryURI": uri.ReadonlyMDMFDirectoryURI(mdmf.get_readonly()),
        "MDMFDirectoryURIVerifier": uri.MDMFDirectoryURIVerifier(mdmf.get_verify_cap()),
        "DirectoryURIVerifier": uri.DirectoryURIVerifier(ssk.get_verify_cap()),
        "ImmutableDirectoryURIVerifier": uri.ImmutableDirectoryURIVerifier(chk.get_verify_cap()),
    }
    return s


def _owner(cls, dunder):
    for k in cls.__mro__:
        if dunder in k.__dict__:
            if k.__dict__[dunder] is None:
                return "None"
            return k.__name__
    return "?"


def collect(h):
    import inspect
    from allmydata import uri
    from allmydata.immutable.filenode import ImmutableFileNode
    from allmydata.immutable.literal import LiteralFileNode
    from allmydata.mutable.filenode import MutableFileNode
    from allmydata.dirnode import DirectoryNode
    from allmydata.unknown import UnknownNode
    concrete = sorted(n for n, c in inspect.getmembers(uri, inspect.isclass)
                      if issubclass(c, uri._BaseURI) and not n.startswith("_") and c.__module__ == uri.__name__)
    h.strlist("URI_CLASSES", concrete, "uri.py: concrete subclasses of _BaseURI")
    samples = _samples()
    for n in concrete:
        if n not in samples:
            raise ValueError("uri.py has a cap class the C43 model does not know: %s" % n)
        c = getattr(uri, n)
        s = samples[n].to_string()
        assert type(samples[n]) is c, (n, type(samples[n]))
        pre = b":".join(s.split(b":")[:2]) + b":"
        if pre != c.BASE_STRING:
            raise ValueError("%s.to_string() starts with %r but BASE_STRING is %r" % (n, pre, c.BASE_STRING))
        h.bytes("PREFIX_" + n, pre, "uri.py %s: prefix of to_string() of a sample instance (= BASE_STRING)" % n)
    for c in (uri._BaseURI, uri.UnknownURI, ImmutableFileNode, LiteralFileNode, MutableFileNode, DirectoryNode, UnknownNode):
        nm = c.__name__.lstrip("_")
        for d, tag in (("__eq__", "EQ"), ("__ne__", "NE"), ("__hash__", "HASH")):
            h.str("%s_OWNER_%s" % (tag, nm), _owner(c, d), "%s.%s is provided by this class of its MRO" % (c.__name__, d))
    # every concrete cap class takes the three dunders from _BaseURI
    own = sorted(set((_owner(getattr(uri, n), "__eq__"), _owner(getattr(uri, n), "__ne__"), _owner(getattr(uri, n), "__hash__"))
                     for n in concrete))
    h.strlist("URI_SUBCLASS_DUNDER_OWNERS", ["/".join(t) for t in own],
              "distinct (eq,ne,hash) owner triples over all concrete cap classes")
