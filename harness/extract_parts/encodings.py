"""Alphabets, struct formats and sizes of the on-disk / wire encodings (property C38)."""
import ast
import inspect
import struct
import textwrap
NAME = "Encodings"


def _chars(s):
    return "[" + ", ".join("'%s'" % c for c in s) + "]"


def _pack_format(func):
    """The literal format string of the (single) struct.pack call in `func`'s source."""
    tree = ast.parse(textwrap.dedent(inspect.getsource(func)))
    found = []
    for node in ast.walk(tree):
        if (isinstance(node, ast.Call) and isinstance(node.func, ast.Attribute) and node.func.attr == "pack"
                and node.args and isinstance(node.args[0], ast.Constant) and isinstance(node.args[0].value, str)):
            found.append(node.args[0].value)
    if len(found) < 1:
        raise ValueError("no struct.pack literal in %s" % func.__name__)
    return found[0]


def collect(h):
    from allmydata.util import base32, base62
    from allmydata.storage import lease, immutable_schema, mutable_schema, immutable as simm, mutable as smut
    h.bytes("base32_chars", base32.chars, "util/base32.py chars (rfc3548_alphabet)")
    h.natlist("base32_NUM_OS_TO_NUM_QS", base32.NUM_OS_TO_NUM_QS, "util/base32.py")
    h.natlist("base32_NUM_QS_TO_NUM_OS", base32.NUM_QS_TO_NUM_OS, "util/base32.py")
    h.natlist("base32_NUM_QS_LEGIT", base32.NUM_QS_LEGIT, "util/base32.py")
    h.bytes("base62_chars", base62.chars, "util/base62.py chars")
    for name, fmt, prov in [
        ("lease_IMMUTABLE_FORMAT", lease.IMMUTABLE_FORMAT, "storage/lease.py IMMUTABLE_FORMAT"),
        ("lease_MUTABLE_FORMAT", lease.MUTABLE_FORMAT, "storage/lease.py MUTABLE_FORMAT"),
        ("imm_HEADER_FORMAT", _pack_format(immutable_schema._Schema.header),
         "storage/immutable_schema.py _Schema.header: the struct.pack literal"),
        ("mut_HEADER_PACK_FORMAT", _pack_format(mutable_schema._header),
         "storage/mutable_schema.py _header: the struct.pack literal"),
        ("mut_HEADER_FORMAT", mutable_schema._HEADER_FORMAT, "storage/mutable_schema.py _HEADER_FORMAT"),
    ]:
        assert fmt.isascii() and "'" not in fmt and "\\" not in fmt
        h.raw(name, "List Char", _chars(fmt), prov + " = " + fmt)
        h.nat(name + "_size", struct.calcsize(fmt), "struct.calcsize of the above")
    h.nat("imm_LEASE_SIZE", simm.ShareFile.LEASE_SIZE, "storage/immutable.py ShareFile.LEASE_SIZE")
    h.nat("mut_LEASE_SIZE", smut.MutableShareFile.LEASE_SIZE, "storage/mutable.py MutableShareFile.LEASE_SIZE")
    h.nat("mut_HEADER_SIZE", smut.MutableShareFile.HEADER_SIZE, "storage/mutable.py")
    h.nat("mut_DATA_LENGTH_OFFSET", smut.MutableShareFile.DATA_LENGTH_OFFSET, "storage/mutable.py")
    h.nat("mut_EXTRA_LEASE_OFFSET_FIELD", smut.MutableShareFile.EXTRA_LEASE_OFFSET, "storage/mutable.py (offset of the field)")
    h.nat("mut_EXTRA_LEASE_OFFSET_VALUE", mutable_schema._EXTRA_LEASE_OFFSET, "storage/mutable_schema.py _EXTRA_LEASE_OFFSET (initial value)")
    h.bytes("mut_MAGIC_v1", mutable_schema._magic(1), "storage/mutable_schema.py _magic(1)")
    h.bytes("mut_MAGIC_v2", mutable_schema._magic(2), "storage/mutable_schema.py _magic(2)")
    h.natlist("imm_SCHEMA_VERSIONS", sorted(immutable_schema.ALL_SCHEMA_VERSIONS), "storage/immutable_schema.py")
    h.natlist("mut_SCHEMA_VERSIONS", sorted(mutable_schema.ALL_SCHEMA_VERSIONS), "storage/mutable_schema.py")
    h.nat("imm_NEWEST_VERSION", immutable_schema.NEWEST_SCHEMA_VERSION.version, "storage/immutable_schema.py")
    h.nat("mut_NEWEST_VERSION", mutable_schema.NEWEST_SCHEMA_VERSION.version, "storage/mutable_schema.py")
