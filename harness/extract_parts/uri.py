"""Regex pattern texts, BASE_STRINGs, alleged prefixes and the from_string dispatch order of allmydata/uri.py."""
import ast
import inspect
import textwrap

NAME = "Uri"

FILE_CLASSES = [("CHK", "CHKFileURI"), ("CHKV", "CHKFileVerifierURI"), ("LIT", "LiteralFileURI"),
                ("SSK", "WriteableSSKFileURI"), ("SSKRO", "ReadonlySSKFileURI"), ("SSKV", "SSKVerifierURI"),
                ("MDMF", "WriteableMDMFFileURI"), ("MDMFRO", "ReadonlyMDMFFileURI"), ("MDMFV", "MDMFVerifierURI")]
# directory classes, named by the kind of their INNER_URI_CLASS
DIR_CLASSES = [("SSK", "DirectoryURI"), ("SSKRO", "ReadonlyDirectoryURI"), ("SSKV", "DirectoryURIVerifier"),
               ("CHK", "ImmutableDirectoryURI"), ("CHKV", "ImmutableDirectoryURIVerifier"),
               ("LIT", "LiteralDirectoryURI"), ("MDMF", "MDMFDirectoryURI"), ("MDMFRO", "ReadonlyMDMFDirectoryURI"),
               ("MDMFV", "MDMFDirectoryURIVerifier")]


def dispatch_prefixes(uri):
    """The byte literals tested with s.startswith(...) inside from_string's try block, in source order."""
    tree = ast.parse(textwrap.dedent(inspect.getsource(uri.from_string)))
    found = []
    for node in ast.walk(tree):
        if isinstance(node, ast.Try):
            for sub in ast.walk(node):
                if (isinstance(sub, ast.Call) and isinstance(sub.func, ast.Attribute) and sub.func.attr == "startswith"
                        and sub.args and isinstance(sub.args[0], ast.Constant) and isinstance(sub.args[0].value, bytes)):
                    found.append((sub.lineno, sub.col_offset, sub.args[0].value))
    found.sort()
    return [b for (_, _, b) in found]


def collect(h):
    from allmydata import uri
    from allmydata.util import base32
    for tag, cls in FILE_CLASSES:
        c = getattr(uri, cls)
        h.bytes("RE_" + tag, c.STRING_RE.pattern, "uri.py %s.STRING_RE.pattern = %r" % (cls, c.STRING_RE.pattern))
        h.nat("RE_FLAGS_" + tag, int(c.STRING_RE.flags), "uri.py %s.STRING_RE.flags (0 = no MULTILINE/DOTALL)" % cls)
        h.bytes("BASE_" + tag, c.BASE_STRING, "uri.py %s.BASE_STRING = %r" % (cls, c.BASE_STRING))
    inner = {cls: tag for tag, cls in FILE_CLASSES}
    for tag, cls in DIR_CLASSES:
        c = getattr(uri, cls)
        h.bytes("DIR_BASE_" + tag, c.BASE_STRING, "uri.py %s.BASE_STRING = %r" % (cls, c.BASE_STRING))
        # the anchored prefix pattern init_from_string searches with: the class attribute BASE_STRING_RE where the
        # class declares one, else (a refactoring may derive it at run time) b'^' + BASE_STRING.  A class that no
        # longer exists, or has no BASE_STRING, still fails the extraction loudly (AttributeError above).
        if "BASE_STRING_RE" in vars(c) or hasattr(c, "BASE_STRING_RE"):
            h.bytes("DIR_RE_" + tag, c.BASE_STRING_RE.pattern, "uri.py %s.BASE_STRING_RE.pattern" % cls)
        else:
            h.bytes("DIR_RE_" + tag, b"^" + c.BASE_STRING, "uri.py %s: no BASE_STRING_RE attribute; b'^' + BASE_STRING" % cls)
        h.bytes("DIR_INNER_" + tag, inner[c.INNER_URI_CLASS.__name__].encode(), "uri.py %s.INNER_URI_CLASS = %s" % (cls, c.INNER_URI_CLASS.__name__))
    h.bytes("ALLEGED_READONLY_PREFIX", uri.ALLEGED_READONLY_PREFIX, "uri.py")
    h.bytes("ALLEGED_IMMUTABLE_PREFIX", uri.ALLEGED_IMMUTABLE_PREFIX, "uri.py")
    h.bytes("BASE32_CHARS", base32.chars, "util/base32.py chars")
    pref = dispatch_prefixes(uri)
    h.raw("DISPATCH_ORDER", "List (List UInt8)",
          "[" + ", ".join("[" + ", ".join(str(x) for x in p) + "]" for p in pref) + "]",
          "uri.py from_string: literals tested with s.startswith(), in order: %r" % (pref,))
