"""Constants of the immutable-file data path (upload.py, layout.py, interfaces.py, downloader/node.py).

Values that are literals inside method bodies (0x24 / 0x44 data start, the 2**32 / 2**64 limits, the
34-byte share-hash entries, the reader's table start) are *observed* by running the real classes on
probe arguments, so an edited literal changes Generated/Immutable.lean and breaks the pinning
theorems in Tahoe/Props/C01.lean / C05.lean.
"""
import struct

NAME = "Immutable"


def _limit_exp(cls, layout, probe):
    """smallest e with cls(..) raising FileTooLargeError for 2**e (None if none below 80)"""
    from allmydata.interfaces import FileTooLargeError
    for e in range(8, 80):
        try:
            probe(cls, 2 ** e)
        except FileTooLargeError:
            return e
    raise RuntimeError("no FileTooLargeError up to 2**79")


def collect(h):
    from allmydata.immutable import upload, layout
    from allmydata.immutable.downloader.node import DownloadNode
    from allmydata import interfaces
    h.nat("URI_LIT_SIZE_THRESHOLD", upload.Uploader.URI_LIT_SIZE_THRESHOLD, "immutable/upload.py Uploader.URI_LIT_SIZE_THRESHOLD")
    h.nat("HASH_SIZE", interfaces.HASH_SIZE, "interfaces.py HASH_SIZE")
    h.nat("DEFAULT_MAX_SEGMENT_SIZE", interfaces.DEFAULT_IMMUTABLE_MAX_SEGMENT_SIZE, "interfaces.py DEFAULT_IMMUTABLE_MAX_SEGMENT_SIZE")
    h.nat("UPLOAD_DEFAULT_MAX_SEGMENT_SIZE", upload.BaseUploadable.default_max_segment_size, "immutable/upload.py BaseUploadable.default_max_segment_size")
    h.nat("DOWNLOAD_DEFAULT_MAX_SEGMENT_SIZE", DownloadNode.default_max_segment_size, "immutable/downloader/node.py DownloadNode.default_max_segment_size")
    h.nat("ENCRYPT_CHUNKSIZE", upload.EncryptAnUploadable.CHUNKSIZE, "immutable/upload.py EncryptAnUploadable.CHUNKSIZE")
    for tag, cls in (("V1", layout.WriteBucketProxy), ("V2", layout.WriteBucketProxy_v2)):
        w = cls(None, None, 10, 5, 2, 3, 7)
        h.nat(tag + "_FIELDSIZE", cls.fieldsize, "immutable/layout.py %s.fieldsize" % cls.__name__)
        h.nat(tag + "_FIELDSTRUCT_SIZE", struct.calcsize(cls.fieldstruct), "struct.calcsize(%s.fieldstruct)" % cls.__name__)
        h.nat(tag + "_DATA_START", w._offsets["data"], "immutable/layout.py %s._create_offsets: offsets['data']" % cls.__name__)
        h.nat(tag + "_HEADER_LEN", len(w._offset_data), "len(%s._offset_data)" % cls.__name__)
        h.nat(tag + "_VERSION", struct.unpack(">L", w._offset_data[:4])[0], "version number packed first in the header")
        h.nat(tag + "_LIMIT_EXP_DATA", _limit_exp(cls, layout, lambda c, v: c(None, None, v, 0, 1, 0, 0)),
              "smallest e with data_size = 2**e rejected (FileTooLargeError)")
        h.nat(tag + "_LIMIT_EXP_BLOCK", _limit_exp(cls, layout, lambda c, v: c(None, None, 0, v, 1, 0, 0)),
              "smallest e with block_size = 2**e rejected (FileTooLargeError)")
    w0 = layout.WriteBucketProxy(None, None, 0, 0, 1, 0, 0)
    w1 = layout.WriteBucketProxy(None, None, 0, 0, 1, 1, 0)
    h.nat("SHARE_HASH_ENTRY_SIZE", w1._share_hashtree_size - w0._share_hashtree_size,
          "immutable/layout.py WriteBucketProxy: bytes per (hashnum, hash) share-hash entry")
    h.nat("SEGMENT_HASH_SIZE_1", w0._segment_hash_size, "_segment_hash_size for num_segments = 1")
    w3 = layout.WriteBucketProxy(None, None, 0, 0, 3, 0, 0)
    h.nat("SEGMENT_HASH_SIZE_3", w3._segment_hash_size, "_segment_hash_size for num_segments = 3 (next power of two: 4 leaves, 7 nodes)")
    # --- C05: convergence hashing
    from allmydata.util import hashutil
    h.bytes("CONVERGENT_ENCRYPTION_TAG", hashutil.CONVERGENT_ENCRYPTION_TAG, "util/hashutil.py CONVERGENT_ENCRYPTION_TAG")
    h.bytes("STORAGE_INDEX_TAG", hashutil.STORAGE_INDEX_TAG, "util/hashutil.py STORAGE_INDEX_TAG")
    h.nat("KEYLEN", hashutil.KEYLEN, "util/hashutil.py KEYLEN")
    h.nat("CONVERGENCE_KEY_LEN", len(hashutil.convergence_hash(3, 10, 1024, b"data", b"secret")),
          "len(convergence_hash(...)): truncation passed to tagged_hasher by convergence_hasher")
    h.nat("STORAGE_INDEX_LEN", len(hashutil.storage_index_hash(b"k" * 16)), "len(storage_index_hash(key))")
    ok = []
    for (k, n) in [(1, 1), (256, 256), (1, 256), (0, 1), (1, 0), (2, 1), (257, 257), (1, 257)]:
        try:
            hashutil._convergence_hasher_tag(k, n, 1024, b"")
            ok.append(1)
        except ValueError:
            ok.append(0)
    h.natlist("CONVERGENCE_KN_ACCEPTED", ok,
              "_convergence_hasher_tag accepts (k,n) in [(1,1),(256,256),(1,256),(0,1),(1,0),(2,1),(257,257),(1,257)] (1 = accepted)")
