"""Storage-layer layout constants (share containers, leases)."""
import struct
NAME = "Storage"


def collect(h):
    from allmydata.storage import immutable as simm, mutable as smut, server as sserver
    from allmydata.storage import mutable_schema, lease
    h.nat("imm_LEASE_SIZE", simm.ShareFile.LEASE_SIZE, "storage/immutable.py ShareFile.LEASE_SIZE")
    h.nat("mut_DATA_LENGTH_OFFSET", smut.MutableShareFile.DATA_LENGTH_OFFSET, "storage/mutable.py")
    h.nat("mut_EXTRA_LEASE_OFFSET", smut.MutableShareFile.EXTRA_LEASE_OFFSET, "storage/mutable.py")
    h.nat("mut_HEADER_SIZE", smut.MutableShareFile.HEADER_SIZE, "storage/mutable.py")
    h.nat("mut_LEASE_SIZE", smut.MutableShareFile.LEASE_SIZE, "storage/mutable.py")
    h.nat("mut_DATA_OFFSET", smut.MutableShareFile.DATA_OFFSET, "storage/mutable.py")
    h.nat("mut_MAX_SIZE", smut.MutableShareFile.MAX_SIZE, "storage/mutable.py")
    h.str("mut_HEADER_FORMAT", mutable_schema._HEADER_FORMAT, "storage/mutable_schema.py")
    h.nat("DEFAULT_RENEWAL_TIME", sserver.DEFAULT_RENEWAL_TIME, "storage/server.py")
