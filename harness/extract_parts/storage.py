"""Storage-layer layout constants (share containers, leases)."""
import struct
NAME = "Storage"


def collect(h):
    from allmydata.storage import immutable as simm, mutable as smut, server as sserver
    from allmydata.storage import mutable_schema, lease
    h.nat("imm_LEASE_SIZE", simm.ShareFile.LEASE_SIZE, "storage/immutable.py ShareFile.LEASE_SIZE")
    h.nat("mut_DATA_LENGTH_OFFSET", smut.MutableShareFile.DATA_LENGTH_OFFSET, "storage/mutable.py")
    h.nat("mut_EXTRA_LEASE_OFFSET", smut.MutableShareFile.EXTRA_LEASE_OFFSET, "storage/mutable.py")
    h.nat("mut_HEADER_SIZE", smut.MutableShareFile.HEADER_SIZE, "storage/mutable.py")
    h.nat("mut_LEASE_SIZE", smut.MutableShareFile.LEASE_SIZE, "storage/mutable.py")
    h.nat("mut_DATA_OFFSET", smut.MutableShareFile.DATA_OFFSET, "storage/mutable.py")
    h.nat("mut_MAX_SIZE", smut.MutableShareFile.MAX_SIZE, "storage/mutable.py")
    h.str("mut_HEADER_FORMAT", mutable_schema._HEADER_FORMAT, "storage/mutable_schema.py")
    h.nat("DEFAULT_RENEWAL_TIME", sserver.DEFAULT_RENEWAL_TIME, "storage/server.py")
    # --- added for C23/C24/C25 (mutable containers, leases); only additions below ---
    from allmydata.storage import lease_schema, immutable_schema
    v1m = [s for s in mutable_schema.ALL_SCHEMAS if s.version == 1][0]
    v2m = [s for s in mutable_schema.ALL_SCHEMAS if s.version == 2][0]
    h.bytes("mut_MAGIC_V1", v1m._magic, "storage/mutable_schema.py _magic(1)")
    h.bytes("mut_MAGIC_V2", v2m._magic, "storage/mutable_schema.py _magic(2)")
    h.nat("mut_NEWEST_SCHEMA_VERSION", mutable_schema.NEWEST_SCHEMA_VERSION.version, "storage/mutable_schema.py")
    h.bool("mut_V1_CLEARTEXT", isinstance(v1m.lease_serializer, lease_schema.CleartextLeaseSerializer), "v1 mutable containers store cleartext lease secrets")
    h.bool("mut_V2_HASHED", isinstance(v2m.lease_serializer, lease_schema.HashedLeaseSerializer), "v2 mutable containers store hashed lease secrets")
    h.nat("mut_INITIAL_EXTRA_LEASE_OFFSET", mutable_schema._EXTRA_LEASE_OFFSET, "storage/mutable_schema.py _EXTRA_LEASE_OFFSET")
    h.nat("mut_INITIAL_FILE_SIZE", len(v2m.header(b"\x00" * 20, b"\x00" * 32)), "len(schema.header(...)): fixed header + 4 blank leases + extra lease count")
    h.str("lease_IMMUTABLE_FORMAT", lease.IMMUTABLE_FORMAT, "storage/lease.py")
    h.str("lease_MUTABLE_FORMAT", lease.MUTABLE_FORMAT, "storage/lease.py")
    h.nat("lease_IMMUTABLE_SIZE", struct.calcsize(lease.IMMUTABLE_FORMAT), "storage/lease.py")
    h.nat("lease_MUTABLE_SIZE", struct.calcsize(lease.MUTABLE_FORMAT), "storage/lease.py")
    h.nat("imm_DATA_OFFSET", 0xc, "storage/immutable.py ShareFile._data_offset / header >LLL")
    h.nat("imm_HEADER_SIZE", struct.calcsize(">LLL"), "storage/immutable.py header >LLL")
    h.natlist("imm_SCHEMA_VERSIONS", sorted(immutable_schema.ALL_SCHEMA_VERSIONS), "storage/immutable_schema.py")
    h.nat("imm_NEWEST_SCHEMA_VERSION", immutable_schema.NEWEST_SCHEMA_VERSION.version, "storage/immutable_schema.py")
    v1i = immutable_schema.schema_from_version(1)
    v2i = immutable_schema.schema_from_version(2)
    h.bool("imm_V1_CLEARTEXT", isinstance(v1i.lease_serializer, lease_schema.CleartextLeaseSerializer), "v1 immutable containers store cleartext lease secrets")
    h.bool("imm_V2_HASHED", isinstance(v2i.lease_serializer, lease_schema.HashedLeaseSerializer), "v2 immutable containers store hashed lease secrets")
    # (C22/C28/C29, immutable containers) header bytes produced by the live schema object
    h.bytes("imm_HEADER_SAMPLE_10", immutable_schema.NEWEST_SCHEMA_VERSION.header(10), "immutable_schema.NEWEST_SCHEMA_VERSION.header(10)")
    h.bytes("imm_HEADER_SAMPLE_BIG", immutable_schema.NEWEST_SCHEMA_VERSION.header(2 ** 32 + 5), "immutable_schema.NEWEST_SCHEMA_VERSION.header(2**32+5): length field saturates")
    # (C22) the BucketWriter timeout: `clock.callLater(30 * 60, ...)` in __init__ and `_timeout.reset(30 * 60)` in
    # write() are literals; CPython folds them, so the value is read from the code objects' constants
    def _int_consts(fn):
        return sorted(c for c in fn.__code__.co_consts if isinstance(c, int) and not isinstance(c, bool) and c >= 60)
    h.natlist("imm_BW_TIMEOUT_INIT", _int_consts(simm.BucketWriter.__init__), "BucketWriter.__init__: callLater(30*60, _abort_due_to_timeout)")
    h.natlist("imm_BW_TIMEOUT_WRITE", _int_consts(simm.BucketWriter.write), "BucketWriter.write: _timeout.reset(30*60)")
