"""Garbage-collection constants (C26/C27): the lease crawler's 31-day renewal hack and the crawler's prefix table."""
NAME = "Gc"


def collect(h):
    from allmydata.storage.lease import LeaseInfo
    from allmydata.storage import server as sserver
    from allmydata.storage.crawler import ShareCrawler

    probe = 10 ** 9
    li = LeaseInfo(owner_num=1, renew_secret=b"r" * 32, cancel_secret=b"c" * 32,
                   expiration_time=probe, nodeid=b"n" * 20)
    h.nat("lease_grant_renew_offset", probe - li.get_grant_renew_time_time(),
          "storage/lease.py LeaseInfo.get_grant_renew_time_time: expiration_time minus this many seconds")
    h.nat("server_lease_duration", sserver.DEFAULT_RENEWAL_TIME,
          "storage/server.py DEFAULT_RENEWAL_TIME: expiry = renewal time + this (add_lease/renew/allocate)")

    class _Srv:
        sharedir = "/nonexistent"

    class _C(ShareCrawler):
        def load_state(self):
            self.state = {}

    c = _C(_Srv(), "/nonexistent/state")
    h.nat("crawler_num_prefixes", len(c.prefixes), "storage/crawler.py ShareCrawler.__init__: len(self.prefixes)")
    h.bool("crawler_prefixes_strictly_sorted", all(a < b for a, b in zip(c.prefixes, c.prefixes[1:])),
           "storage/crawler.py: self.prefixes is strictly increasing (sorted, no duplicates)")
    h.bool("crawler_prefixes_two_chars", all(len(p) == 2 for p in c.prefixes),
           "storage/crawler.py: every prefix is two characters (a bucket name starts with its prefix)")
