"""Segment-size constants of mutable/publish.py (C09): the MDMF maximum segment size and the KiB unit.

The model (`Tahoe/Mutable/Content.lean`) takes the maximum segment size as a parameter (`Cfg.maxSeg`);
`Tahoe/Props/C09.lean` pins the documented value (128 KiB), so an edit of the constant breaks a
named theorem.
"""
NAME = "Mutpublish"


def collect(h):
    import importlib
    import allmydata.mutable.publish as publish
    # the check harness lowers the module attribute while it runs; the source value is re-read here
    import ast, inspect
    src = inspect.getsource(publish)
    vals = {}
    for node in ast.parse(src).body:
        if isinstance(node, ast.Assign) and len(node.targets) == 1 and isinstance(node.targets[0], ast.Name) \
                and node.targets[0].id in ("KiB", "DEFAULT_MUTABLE_MAX_SEGMENT_SIZE"):
            ns = dict(vals)
            exec(compile(ast.Module([node], []), "<extract>", "exec"), ns)
            vals[node.targets[0].id] = ns[node.targets[0].id]
    h.nat("KiB", vals["KiB"], "mutable/publish.py KiB")
    h.nat("DEFAULT_MUTABLE_MAX_SEGMENT_SIZE", vals["DEFAULT_MUTABLE_MAX_SEGMENT_SIZE"],
          "mutable/publish.py DEFAULT_MUTABLE_MAX_SEGMENT_SIZE (MDMF segment size before rounding up to a multiple of k)")
