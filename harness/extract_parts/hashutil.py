"""Hash tags and lengths of util/hashutil.py.

Besides the module constants, every named derivation function is *executed once* with sentinel
arguments while `_SHA256d_Hasher` is replaced by a recording subclass, and for each one we emit

  TRUNC_<fn>  : Option Int     the `truncate_to` the function passes to the hasher (none = full 32 bytes)
  TAGOF_<fn>  : List UInt8     the payload of the first netstring fed to the hasher (= the tag used)
  NFEED_<fn>  : Nat            number of `update` calls (2 = tagged_hash shape, 3 = tagged_pair_hash shape)

so that an edit of a truncation literal (e.g. the `16` in `storage_index_hash`) or of the tag a
function uses changes Generated/Hashutil.lean and breaks the pinning theorems of C17.
"""
NAME = "Hashutil"

A16 = bytes(range(1, 17))
B16 = bytes(range(101, 117))
S32 = bytes(range(33, 65))
P20 = bytes(range(201, 221))

# function name -> sentinel argument tuple
FUNCS = [
    ("storage_index_hash", (A16,)),
    ("block_hash", (b"data",)),
    ("uri_extension_hash", (b"data",)),
    ("plaintext_hash", (b"data",)),
    ("crypttext_hash", (b"data",)),
    ("crypttext_segment_hash", (b"data",)),
    ("plaintext_segment_hash", (b"data",)),
    ("convergence_hash", (3, 10, 1024, b"data", S32)),
    ("my_renewal_secret_hash", (S32,)),
    ("my_cancel_secret_hash", (S32,)),
    ("file_renewal_secret_hash", (S32, A16)),
    ("file_cancel_secret_hash", (S32, A16)),
    ("bucket_renewal_secret_hash", (S32, P20)),
    ("bucket_cancel_secret_hash", (S32, P20)),
    ("mutable_rwcap_key_hash", (A16, B16)),
    ("mutable_rwcap_salt_hash", (b"URI:whatever",)),
    ("ssk_writekey_hash", (b"privkey",)),
    ("ssk_write_enabler_master_hash", (A16,)),
    ("ssk_write_enabler_hash", (A16, P20)),
    ("ssk_pubkey_fingerprint_hash", (b"pubkey",)),
    ("ssk_readkey_hash", (A16,)),
    ("ssk_readkey_data_hash", (A16, B16)),
    ("ssk_storage_index_hash", (A16,)),
    ("backupdb_dirhash", (b"contents",)),
]


def _first_netstring_payload(b):
    """strict decode of the leading netstring of b (None when b does not start with one)"""
    i = b.find(b":")
    if i <= 0 or not b[:i].isdigit():
        return None
    n = int(b[:i])
    if len(b) < i + 1 + n + 1 or b[i + 1 + n:i + 2 + n] != b",":
        return None
    return b[i + 1:i + 1 + n]


def collect(h):
    from allmydata.util import hashutil
    for n in sorted(dir(hashutil)):
        v = getattr(hashutil, n)
        if n.endswith("_TAG") and isinstance(v, bytes):
            h.bytes(n, v, "util/hashutil.py " + n)
    h.nat("CRYPTO_VAL_SIZE", hashutil.CRYPTO_VAL_SIZE, "util/hashutil.py")
    h.nat("KEYLEN", hashutil.KEYLEN, "util/hashutil.py")
    h.nat("IVLEN", hashutil.IVLEN, "util/hashutil.py")
    h.bytes("SENTINEL_S32", S32, "extractor sentinel: the 32-byte value passed as lease secret / convergence secret")

    rec = []
    orig = hashutil._SHA256d_Hasher

    class Rec(orig):
        def __init__(self, truncate_to=None):
            orig.__init__(self, truncate_to)
            self._rec = [truncate_to, []]
            rec.append(self._rec)

        def update(self, data):
            self._rec[1].append(bytes(data))
            orig.update(self, data)

    hashutil._SHA256d_Hasher = Rec
    try:
        for name, args in FUNCS:
            del rec[:]
            getattr(hashutil, name)(*args)
            trunc, feeds = rec[-1]          # the hasher that produced the returned digest
            tag = _first_netstring_payload(b"".join(feeds))
            prov = "util/hashutil.py %s (observed by instrumenting _SHA256d_Hasher)" % name
            if trunc is None:
                h.raw("TRUNC_" + name, "Option Int", "none", prov)
            else:
                h.raw("TRUNC_" + name, "Option Int", "some (%d)" % int(trunc), prov)
            h.bytes("TAGOF_" + name, tag if tag is not None else b"", prov)
            h.nat("NFEED_" + name, len(feeds), prov)
    finally:
        hashutil._SHA256d_Hasher = orig
