"""Hash tags and lengths of util/hashutil.py."""
NAME = "Hashutil"


def collect(h):
    from allmydata.util import hashutil
    for n in sorted(dir(hashutil)):
        v = getattr(hashutil, n)
        if n.endswith("_TAG") and isinstance(v, bytes):
            h.bytes(n, v, "util/hashutil.py " + n)
    h.nat("CRYPTO_VAL_SIZE", hashutil.CRYPTO_VAL_SIZE, "util/hashutil.py")
    h.nat("KEYLEN", hashutil.KEYLEN, "util/hashutil.py")
    h.nat("IVLEN", hashutil.IVLEN, "util/hashutil.py")
