import Tahoe.Generated.Backupdb
/-!
Model of `scripts/backupdb.py` `BackupDB_v2` (C42).  Mathlib-free, executable (driver `Drv/C42.lean`).

The four SQLite tables are finite maps (association lists, first match wins, keys unique by
construction — PRIMARY KEY / UNIQUE):

* `local_files : path → (size, mtime, ctime, fileid)`
* `caps        : fileid → filecap` (`fileid INTEGER PRIMARY KEY AUTOINCREMENT`, `filecap UNIQUE`)
* `last_upload : fileid → (last_uploaded, last_checked)`
* `directories : dirhash → (dircap, last_uploaded, last_checked)`

Every method is transcribed statement by statement; what is read from the environment is an argument:
the `os.stat` triple, `time.time()` (`now`, an integer number of seconds: float rounding of the clock is
not modelled) and `random.random()` (`rnd`, the numerator of a fraction over `RDEN`).
`INSERT … except IntegrityError: UPDATE …` is an upsert; `REPLACE INTO` is an upsert;
`get_or_allocate_fileid_for_cap` is `alloc`.  The directory hash `backupdb_dirhash` (tagged SHA-256d, then
base32) is a parameter `H` of the model; the driver instantiates it with the identity.

Deviation: `check_file` calls `abspath_expanduser_unicode(path)`; the model's paths are already absolute.
-/
namespace Tahoe.BackupDb
open Tahoe.Generated

abbrev Bytes := List UInt8

/-! ### finite maps -/
section maps
variable {κ ν : Type} [DecidableEq κ]

def get (k : κ) : List (κ × ν) → Option ν
  | [] => none
  | (k', v) :: r => if k' = k then some v else get k r

/-- upsert -/
def put (k : κ) (v : ν) : List (κ × ν) → List (κ × ν)
  | [] => [(k, v)]
  | (k', v') :: r => if k' = k then (k, v) :: r else (k', v') :: put k v r

def del (k : κ) : List (κ × ν) → List (κ × ν)
  | [] => []
  | (k', v) :: r => if k' = k then del k r else (k', v) :: del k r

end maps

/-! ### netstrings and the directory-contents encoding -/

def digit (d : Nat) : UInt8 := UInt8.ofNat (48 + d)

/-- `b"%d" % n` -/
def dec (n : Nat) : Bytes :=
  if n < 10 then [digit n] else dec (n / 10) ++ [digit (n % 10)]
termination_by n
decreasing_by omega

/-- `netstring(s)` = `b"%d:%s," % (len(s), s)` -/
def netstring (s : Bytes) : Bytes := dec s.length ++ 58 :: (s ++ [44])

abbrev Entry := Bytes × Bytes     -- (name.encode("utf-8"), cap)

/-- Python's `<=` on `bytes`: lexicographic on unsigned bytes, a proper prefix is smaller -/
def bytesLe : Bytes → Bytes → Bool
  | [], _ => true
  | _ :: _, [] => false
  | a :: as, b :: bs => if a.toNat < b.toNat then true else if b.toNat < a.toNat then false else bytesLe as bs

/-- Python's `<=` on the two-element lists `[name_utf8, cap]` -/
def entryLe (x y : Entry) : Bool :=
  if x.1 = y.1 then bytesLe x.2 y.2 else bytesLe x.1 y.1

/-- `entries.sort()` (stable; the dict keys are distinct so ties do not occur) -/
def sortEntries (c : List Entry) : List Entry := c.mergeSort entryLe

/-- `b"".join([netstring(name_utf8)+netstring(cap) for (name_utf8,cap) in entries])` -/
def encodeEntries : List Entry → Bytes
  | [] => []
  | (n, c) :: r => netstring n ++ netstring c ++ encodeEntries r

/-- the string that `check_directory` hashes -/
def dirData (contents : List Entry) : Bytes := encodeEntries (sortEntries contents)

/-! ### tables -/

structure FileRec where
  size : Int
  mtime : Int
  ctime : Int
  fileid : Nat
  deriving DecidableEq, Repr

structure UpRec where
  uploaded : Int
  checked : Int
  deriving DecidableEq, Repr

structure DirRec where
  dircap : Bytes
  uploaded : Int
  checked : Int
  deriving DecidableEq, Repr

structure Db (K : Type) where
  localFiles : List (Bytes × FileRec) := []
  caps : List (Nat × Bytes) := []
  /-- next AUTOINCREMENT value of `caps.fileid` -/
  nextId : Nat := 1
  lastUpload : List (Nat × UpRec) := []
  dirs : List (K × DirRec) := []

structure Stat where
  size : Int
  mtime : Int
  ctime : Int
  deriving DecidableEq, Repr

/-- denominator of the modelled `random.random()` values -/
def RDEN : Nat := 1024

/-- `probability = (age - NO_CHECK_BEFORE) / (ALWAYS_CHECK_AFTER - NO_CHECK_BEFORE)`, clamped to [0,1];
    `should_check = random.random() < probability` with `random.random() = rnd / RDEN`.
    (Exact rational arithmetic; the code uses floats.) -/
def shouldCheck (now lastChecked : Int) (rnd : Nat) : Bool :=
  let age := now - lastChecked
  let den : Int := (Backupdb.ALWAYS_CHECK_AFTER : Int) - Backupdb.NO_CHECK_BEFORE
  let num : Int := age - Backupdb.NO_CHECK_BEFORE
  let numC := min (max num 0) den
  decide ((rnd : Int) * den < (RDEN : Int) * numC)

structure FileResult where
  filecap : Option Bytes
  shouldCheck : Bool
  path : Bytes
  mtime : Int
  ctime : Int
  size : Int
  deriving DecidableEq, Repr

/-- `FileResult.was_uploaded()`: the cap if it is truthy, else `False` -/
def FileResult.wasUploaded (r : FileResult) : Option Bytes :=
  match r.filecap with
  | some c => if c.isEmpty then none else some c
  | none => none

structure DirResult (K : Type) where
  dirhash : K
  dircap : Option Bytes
  shouldCheck : Bool

/-- `DirectoryResult.was_created()` -/
def DirResult.wasCreated {K : Type} (r : DirResult K) : Option Bytes :=
  match r.dircap with
  | some c => if c.isEmpty then none else some c
  | none => none

/-- `SELECT fileid FROM caps WHERE filecap=?` -/
def findId (cap : Bytes) : List (Nat × Bytes) → Option Nat
  | [] => none
  | (i, c) :: r => if c = cap then some i else findId cap r

variable {K : Type} [DecidableEq K]

/-- `get_or_allocate_fileid_for_cap` -/
def alloc (db : Db K) (cap : Bytes) : Db K × Nat :=
  match findId cap db.caps with
  | some i => (db, i)
  | none => ({ db with caps := db.caps ++ [(db.nextId, cap)], nextId := db.nextId + 1 }, db.nextId)

/-- `check_file(path, use_timestamps)` with `os.stat(path)` = `st` -/
def checkFile (db : Db K) (path : Bytes) (st : Stat) (useTs : Bool) (now : Int) (rnd : Nat) :
    Db K × FileResult :=
  match get path db.localFiles with
  | none => (db, ⟨none, false, path, st.mtime, st.ctime, st.size⟩)
  | some rec =>
    -- SELECT caps.filecap, last_upload.last_checked FROM caps,last_upload WHERE caps.fileid=? AND last_upload.fileid=?
    let row2 : Option (Bytes × Int) :=
      match get rec.fileid db.caps, get rec.fileid db.lastUpload with
      | some c, some u => some (c, u.checked)
      | _, _ => none
    match row2 with
    | none =>
      ({ db with localFiles := del path db.localFiles }, ⟨none, false, path, st.mtime, st.ctime, st.size⟩)
    | some (filecap, lastChecked) =>
      if rec.size ≠ st.size ∨ useTs = false ∨ rec.mtime ≠ st.mtime ∨ rec.ctime ≠ st.ctime then
        ({ db with localFiles := del path db.localFiles }, ⟨none, false, path, st.mtime, st.ctime, st.size⟩)
      else
        (db, ⟨some filecap, shouldCheck now lastChecked rnd, path, st.mtime, st.ctime, st.size⟩)

/-- `did_upload_file(filecap, path, mtime, ctime, size)` -/
def didUploadFile (db : Db K) (cap path : Bytes) (mtime ctime size now : Int) : Db K :=
  let (db1, fid) := alloc db cap
  { db1 with
    lastUpload := put fid ⟨now, now⟩ db1.lastUpload
    localFiles := put path ⟨size, mtime, ctime, fid⟩ db1.localFiles }

/-- `FileResult.did_upload(filecap)`: **the specification of what an upload records** — the size, mtime and
    ctime that the `check_file` call which produced this result sampled *before* the file was read for the
    upload (`self.bdb.did_upload_file(filecap, self.path, self.mtime, self.ctime, self.size)`), never a stat
    taken afterwards: a write that lands while the upload is in flight must make the next `check_file` differ. -/
def FileResult.didUpload (r : FileResult) (db : Db K) (cap : Bytes) (now : Int) : Db K :=
  didUploadFile db cap r.path r.mtime r.ctime r.size now

/-- `did_check_file_healthy(filecap, results)`: `UPDATE last_upload SET last_checked=? WHERE fileid=?` -/
def didCheckFileHealthy (db : Db K) (cap : Bytes) (now : Int) : Db K :=
  let (db1, fid) := alloc db cap
  match get fid db1.lastUpload with
  | some u => { db1 with lastUpload := put fid { u with checked := now } db1.lastUpload }
  | none => db1

/-- `check_directory(contents)` -/
def checkDirectory (H : Bytes → K) (db : Db K) (contents : List Entry) (now : Int) (rnd : Nat) :
    DirResult K :=
  let dirhash := H (dirData contents)
  match get dirhash db.dirs with
  | none => ⟨dirhash, none, false⟩
  | some rec => ⟨dirhash, some rec.dircap, shouldCheck now rec.checked rnd⟩

/-- `did_create_directory(dircap, dirhash)`: `REPLACE INTO directories VALUES (?,?,?,?)` -/
def didCreateDirectory (db : Db K) (dircap : Bytes) (dirhash : K) (now : Int) : Db K :=
  { db with dirs := put dirhash ⟨dircap, now, now⟩ db.dirs }

/-- `did_check_directory_healthy(dircap, results)`: `UPDATE directories SET last_checked=? WHERE dircap=?` -/
def didCheckDirectoryHealthy (db : Db K) (dircap : Bytes) (now : Int) : Db K :=
  { db with dirs := db.dirs.map (fun (k, r) => if r.dircap = dircap then (k, { r with checked := now }) else (k, r)) }

/-! ### histories -/

/-- One call of the public API.  The directory-creation call carries the `contents` of the
    `check_directory` call whose `DirectoryResult` it is invoked on (`r.did_create(dircap)` passes `r.dirhash`). -/
inductive Op
  | checkFile (path : Bytes) (st : Stat) (useTs : Bool) (now : Int) (rnd : Nat)
  | didUpload (cap path : Bytes) (mtime ctime size now : Int)
  | didCheckHealthy (cap : Bytes) (now : Int)
  | checkDir (contents : List Entry) (now : Int) (rnd : Nat)
  | didCreateDir (dircap : Bytes) (contents : List Entry) (now : Int)
  | didCheckDirHealthy (dircap : Bytes) (now : Int)

def step (H : Bytes → K) (db : Db K) : Op → Db K
  | .checkFile p st ts now rnd => (checkFile db p st ts now rnd).1
  | .didUpload cap p m c s now => didUploadFile db cap p m c s now
  | .didCheckHealthy cap now => didCheckFileHealthy db cap now
  | .checkDir _ _ _ => db
  | .didCreateDir d contents now => didCreateDirectory db d (H (dirData contents)) now
  | .didCheckDirHealthy d now => didCheckDirectoryHealthy db d now

/-- the database after a history (oldest call first), starting from the freshly created one -/
def run (H : Bytes → K) (ops : List Op) : Db K := ops.foldl (step H) {}

/-! ### the specification side (what the statement talks about) -/

/-- record of the most recent `did_upload_file` for `path`; the history is given most recent first -/
def lastUploadOf (path : Bytes) : List Op → Option (Int × Int × Int × Bytes)
  | [] => none
  | .didUpload cap p m c s _ :: earlier =>
    if p = path then some (s, m, c, cap) else lastUploadOf path earlier
  | _ :: earlier => lastUploadOf path earlier

/-- dircap of the most recent `did_create` for contents with exactly the same (name, cap) entries;
    the history is given most recent first -/
def lastCreateOf (contents : List Entry) : List Op → Option Bytes
  | [] => none
  | .didCreateDir d c' _ :: earlier =>
    if c'.isPerm contents then some d else lastCreateOf contents earlier
  | _ :: earlier => lastCreateOf contents earlier

end Tahoe.BackupDb
