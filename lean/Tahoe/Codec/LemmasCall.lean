import Tahoe.Codec.Lemmas
/-! C36 helper lemmas for the *caller contract*: which decoder object and which (ids, blocks) lists
the immutable downloader and the mutable retriever hand to `CRSDecoder.decode`. -/
namespace Tahoe.Codec

theorem zip_map_fst_snd {α β : Type} (l : List (α × β)) : (l.map (·.1)).zip (l.map (·.2)) = l := by
  induction l with
  | nil => rfl
  | cons p t ih => simp [ih]

/-- `_decode_blocks` of the immutable downloader = selection, `CRSDecoder.decode`, join/check/trim -/
theorem immDecodeBlocks_factors (fec : Nat → Nat → Code) (k n segSize : Nat) (sz : ImmSizes) (segnum : Nat)
    (blocks : List (Nat × Block)) :
    immDecodeBlocks fec k n segSize sz segnum blocks =
      match immCodecCall k n segSize sz segnum blocks with
      | .error e => .error e
      | .ok (codec, shares, ids) =>
        match decDecode fec codec shares ids with
        | .error e => .error e
        | .ok buffers =>
          let tail := segnum + 1 == sz.numSegments
          if (join buffers).length != (if tail then sz.tailSegmentPadded else segSize) then .error "AssertionError"
          else .ok (if tail then (join buffers).take sz.tailSegmentSize else join buffers) := by
  unfold immDecodeBlocks immCodecCall
  simp only []
  cases decSetParams (if (segnum + 1 == sz.numSegments) = true then sz.tailSegmentPadded else segSize) k n with
  | error e => rfl
  | ok codec =>
    simp only []
    split <;> (split <;> rfl)

theorem mutDecodeBlocks_factors (fec : Nat → Nat → Code) (d : MutDecoder) (segnum : Nat)
    (blocks : List (Nat × Block)) :
    mutDecodeBlocks fec d segnum blocks =
      match mutCodecCall d segnum blocks with
      | .error e => .error e
      | .ok (codec, shares, ids) =>
        match decDecode fec codec shares ids with
        | .error e => .error e
        | .ok buffers =>
          .ok ((join buffers).take (if segnum + 1 == d.numSegments then d.tailDataSize else d.segSize)) := by
  unfold mutDecodeBlocks mutCodecCall
  simp only []
  split <;> rfl


theorem immCodecCall_inv {k n segSize : Nat} {sz : ImmSizes} {segnum : Nat} {blocks : List (Nat × Block)}
    {p : DecParams} {shares : List Block} {ids : List Nat}
    (h : immCodecCall k n segSize sz segnum blocks = .ok (p, shares, ids)) :
    shares = blocks.map (·.2) ∧ ids = blocks.map (·.1) ∧
    p = { dataSize := (if segnum + 1 == sz.numSegments then sz.tailSegmentPadded else segSize), k := k, n := n,
          chunkSize := k,
          numChunks := divCeil (if segnum + 1 == sz.numSegments then sz.tailSegmentPadded else segSize) k,
          shareSize := divCeil (if segnum + 1 == sz.numSegments then sz.tailSegmentPadded else segSize) k } := by
  unfold immCodecCall at h
  simp only [] at h
  cases hc : decSetParams (if (segnum + 1 == sz.numSegments) = true then sz.tailSegmentPadded else segSize) k n with
  | error e => rw [hc] at h; cases h
  | ok codec =>
    rw [hc] at h
    have hp := decSetParams_inv hc
    simp only [] at h
    by_cases hb : (blocks.any fun b => b.2.length != (if (segnum + 1 == sz.numSegments) = true then sz.tailBlockSize else sz.blockSize)) = true
    · rw [if_pos hb] at h; cases h
    · rw [if_neg hb] at h; cases h; exact ⟨rfl, rfl, hp⟩

theorem mutCodecCall_inv {d : MutDecoder} {segnum : Nat} {blocks : List (Nat × Block)}
    {p : DecParams} {shares : List Block} {ids : List Nat}
    (h : mutCodecCall d segnum blocks = .ok (p, shares, ids)) :
    d.k ≤ blocks.length ∧ shares = (blocks.map (·.2)).take d.k ∧ ids = (blocks.map (·.1)).take d.k ∧
    p = (if segnum + 1 == d.numSegments then d.tailDecoder else d.segDecoder) := by
  unfold mutCodecCall at h
  split at h
  · cases h
  · rename_i hlt
    cases h
    refine ⟨?_, rfl, rfl, rfl⟩
    simpa using hlt

/-- decoder share sizes of `Retrieve._setup_encoding_parameters` -/
theorem mutRetrieveSetup_sizes {segSize dl k n : Nat} {d : MutDecoder} (hk : 0 < k)
    (h : mutRetrieveSetup segSize dl k n = .ok d) :
    d.segDecoder.shareSize = divCeil segSize k ∧
    d.tailDecoder.shareSize = divCeil (mutTailSize segSize dl) k := by
  unfold mutRetrieveSetup at h
  split at h
  · cases h
  · rename_i sd hsd
    have hs := decSetParams_inv hsd
    simp only at h
    split at h
    · cases h
    · rename_i td htd
      cases h
      split at htd
      · rename_i heq
        cases htd; subst hs
        refine ⟨rfl, ?_⟩
        show divCeil segSize k = _
        have h1 : divCeil segSize k = divCeil (nextMultiple (mutTailDataSize segSize dl) k) k := by rw [heq]
        rw [h1, divCeil_nextMultiple _ _ hk, mutTailDataSize_eq]
      · have ht := decSetParams_inv htd
        subst hs; subst ht
        refine ⟨rfl, ?_⟩
        show divCeil (nextMultiple (mutTailDataSize segSize dl) k) k = _
        rw [divCeil_nextMultiple _ _ hk, mutTailDataSize_eq]

theorem immEncoderSetup_ok (fileSize : Nat) {k n segSize : Nat} (hk : 0 < k) (hkn : k ≤ n) (hn : n ≤ 256)
    (hs : 0 < segSize) (hdiv : segSize % k = 0) :
    immEncoderSetup fileSize k n segSize = .ok
      { k := k, n := n, fileSize := fileSize, segSize := segSize, numSegments := divCeil fileSize segSize,
        codec := { dataSize := segSize, k := k, n := n, shareSize := divCeil segSize k,
                   lastSharePadding := padSize (divCeil segSize k) k },
        tailCodec := { dataSize := nextMultiple (tailSizeOf fileSize segSize) k, k := k, n := n,
                       shareSize := divCeil (nextMultiple (tailSizeOf fileSize segSize) k) k,
                       lastSharePadding := padSize (divCeil (nextMultiple (tailSizeOf fileSize segSize) k) k) k } } := by
  have hk0 : k ≠ 0 := by omega
  have hs0 : segSize ≠ 0 := by omega
  simp [immEncoderSetup, hk0, hs0, hdiv, encSetParams_ok _ hk hkn hn]

theorem calculateSizes_ok (fileSize : Nat) {k segSize : Nat} (hk : 0 < k) (hs : 0 < segSize)
    (hdiv : segSize % k = 0) :
    calculateSizes fileSize k segSize = .ok
      { tailSegmentSize := tailSizeOf fileSize segSize,
        tailSegmentPadded := nextMultiple (tailSizeOf fileSize segSize) k,
        numSegments := divCeil fileSize segSize, blockSize := segSize / k,
        tailBlockSize := nextMultiple (tailSizeOf fileSize segSize) k / k } := by
  have hk0 : k ≠ 0 := by omega
  have hs0 : segSize ≠ 0 := by omega
  simp [calculateSizes, hk0, hs0, hdiv]

end Tahoe.Codec
