import Tahoe.Codec.LemmasLin
import Tahoe.Codec.LemmasRS
/-! From coefficients to blocks: `rs256`'s decode ∘ encode on byte blocks of any length is the
identity as soon as the scalar Lagrange identity holds for the share numbers used (part 1, generic
in `k ≤ n ≤ 256`); the scalar identity follows from the matrix identity checked in `LemmasRS` (part
2) and is invariant under reordering of the share numbers (part 3). -/
namespace Tahoe.Codec

/-! ### evaluation points -/

theorem length_gfPowers : ∀ (m : Nat) (x : UInt8), (gfPowers m x).length = m
  | 0, _ => rfl
  | m + 1, x => by simp [gfPowers, length_gfPowers m]

theorem length_rsPoints (n : Nat) : (rsPoints n).length = n := by
  cases n with
  | zero => rfl
  | succ m => simp [rsPoints, length_gfPowers]

theorem gfPowers_take : ∀ (m M : Nat) (x : UInt8), m ≤ M → (gfPowers M x).take m = gfPowers m x
  | 0, _, _, _ => by simp [gfPowers]
  | m + 1, 0, _, h => by omega
  | m + 1, M + 1, x, h => by simp [gfPowers, gfPowers_take m M (gfMul 2 x) (by omega)]

theorem rsPoints_take (m M : Nat) (h : m ≤ M) : (rsPoints M).take m = rsPoints m := by
  cases m with
  | zero => simp [rsPoints]
  | succ m =>
    cases M with
    | zero => omega
    | succ M => simp [rsPoints, gfPowers_take m M 1 (by omega)]

/-- the evaluation point of share number `i` -/
def pt (i : Nat) : UInt8 := (rsPoints 256).getD i 0

theorem rsPoints_getElem? (n i : Nat) (hn : n ≤ 256) (hi : i < n) : (rsPoints n)[i]? = some (pt i) := by
  rw [← rsPoints_take n 256 hn, List.getElem?_take_of_lt hi]
  have : i < (rsPoints 256).length := by rw [length_rsPoints]; omega
  simp [pt, List.getD_eq_getElem?_getD, List.getElem?_eq_getElem this]

/-! ### the scalar Lagrange identity for a list of share numbers -/

/-- byte-level statement: interpolating through the share numbers `ids` the values that the encoding
rows give for input bytes `v`, and evaluating at primary point `m`, returns `v[m]` -/
def ScalarRecover (k n : Nat) (ids : List Nat) : Prop :=
  ∀ (v : List UInt8) (m : Nat), v.length = k → m < k →
    gfDot (coeffRow (ids.map pt) k (pt m)) (ids.map (fun i => gfDot ((encMatrix k n).getD i []) v)) = v.getD m 0

theorem encMatrix_getD (k n i : Nat) (hn : n ≤ 256) (hi : i < n) :
    (encMatrix k n).getD i [] = coeffRow ((rsPoints n).take k) k (pt i) := by
  simp [encMatrix, coeffRow, List.getD_eq_getElem?_getD, List.getElem?_map, rsPoints_getElem? n i hn hi]

/-- part 2: the matrix identity gives the scalar identity -/
theorem scalarRecover_of_matrix (k n : Nat) (hn : n ≤ 256) (ids : List Nat) (hlen : ids.length = k)
    (hb : ∀ i ∈ ids, i < n) (hk : k ≤ 256)
    (H : matMul (decMatrix k ids) (selectRows (encMatrix k n) ids) k = identityMatrix k) :
    ScalarRecover k n ids := by
  intro v m hv hm
  have hrow : ∀ row ∈ selectRows (encMatrix k n) ids, row.length = v.length := by
    intro row hr
    simp only [selectRows, List.mem_map] at hr
    obtain ⟨i, hi, rfl⟩ := hr
    rw [encMatrix_getD k n i hn (hb i hi), hv]; simp [coeffRow]
  have h1 : ids.map (fun i => gfDot ((encMatrix k n).getD i []) v)
      = (selectRows (encMatrix k n) ids).map (fun row => gfDot row v) := by
    simp [selectRows, List.map_map]
  rw [h1, dot_matvec v _ _ (by simp [coeffRow, selectRows, hlen]) hrow, hv]
  -- the m-th row of D · E_sel is the m-th row of the identity
  have hD : vecMat (coeffRow (ids.map pt) k (pt m)) (selectRows (encMatrix k n) ids) k
      = (matMul (decMatrix k ids) (selectRows (encMatrix k n) ids) k).getD m [] := by
    have hx : ((rsPoints 256).take k)[m]? = some (pt m) := by
      rw [List.getElem?_take_of_lt hm]
      have : m < (rsPoints 256).length := by rw [length_rsPoints]; omega
      simp [pt, List.getD_eq_getElem?_getD, List.getElem?_eq_getElem this]
    have hdec : decMatrix k ids = ((rsPoints 256).take k).map (fun x => coeffRow (ids.map pt) k x) := by
      unfold decMatrix coeffRow
      rw [hlen]
      rfl
    rw [matMul_eq_vecMat, hdec, List.map_map]
    simp only [List.getD_eq_getElem?_getD, List.getElem?_map, hx, Option.map_some, Option.getD_some,
      Function.comp]
  rw [hD, H]
  have hI : (identityMatrix k).getD m [] = (List.range k).map (fun j => if m = j then (1 : UInt8) else 0) := by
    simp [identityMatrix, List.getD_eq_getElem?_getD, List.getElem?_map, List.getElem?_range hm]
  rw [hI, ← hv]
  exact gfDot_unit m v (by omega)

/-- part 1: from the scalar identity to blocks of bytes of any length -/
theorem rs256_recover_of_scalar (k n : Nat) (hk : 0 < k) (hkn : k ≤ n) (hn : n ≤ 256) (L : Nat)
    (d : List Block) (hd : d.length = k) (hu : Uniform L d) (sel : List (Nat × Block)) (hsel : sel.length = k)
    (hgen : ∀ p ∈ sel, ((rs256 k n).enc d)[p.1]? = some p.2)
    (hS : ScalarRecover k n (sel.map (·.1))) :
    (rs256 k n).dec (sel.map (·.2)) (sel.map (·.1)) = d := by
  have hdne : d ≠ [] := by intro h; rw [h] at hd; simp at hd; omega
  have hselne : sel ≠ [] := by intro h; rw [h] at hsel; simp at hsel; omega
  -- what "genuine" means for rs256
  have hg : ∀ p ∈ sel, p.1 < n ∧ p.2 = interpAt ((rsPoints n).take k) d (pt p.1) := by
    intro p hp
    have h := hgen p hp
    have henc : (rs256 k n).enc d = (rsPoints n).map (fun x => interpAt ((rsPoints n).take k) d x) := rfl
    rw [henc, List.getElem?_map] at h
    by_cases hi : p.1 < n
    · rw [rsPoints_getElem? n p.1 hn hi] at h
      simp only [Option.map_some, Option.some.injEq] at h
      exact ⟨hi, h.symm⟩
    · rw [List.getElem?_eq_none (by rw [length_rsPoints]; omega)] at h
      simp at h
  have hblocksU : Uniform L (sel.map (·.2)) := by
    intro b hb
    obtain ⟨p, hp, rfl⟩ := List.mem_map.mp hb
    rw [(hg p hp).2]
    exact (interpAt_spec _ _ L d hdne hu).1
  have hbne : sel.map (·.2) ≠ [] := by simpa using hselne
  have hdec : (rs256 k n).dec (sel.map (·.2)) (sel.map (·.1))
      = ((rsPoints 256).take k).map (fun x => interpAt ((sel.map (·.1)).map pt) (sel.map (·.2)) x) := rfl
  rw [hdec]
  apply List.ext_getElem
  · simp [length_rsPoints, hd]; omega
  · intro m h1 h2
    have hm : m < k := by omega
    have hx : ((rsPoints 256).take k)[m]'(by simpa using h1) = pt m := by
      have : m < (rsPoints 256).length := by rw [length_rsPoints]; omega
      simp [pt, List.getD_eq_getElem?_getD, List.getElem?_eq_getElem this]
    rw [List.getElem_map, hx]
    obtain ⟨hlen, hval⟩ := interpAt_spec ((sel.map (·.1)).map pt) (pt m) L (sel.map (·.2)) hbne hblocksU
    have hdm : (d[m]).length = L := hu _ (List.getElem_mem h2)
    apply List.ext_getElem
    · rw [hlen, hdm]
    · intro t ht1 ht2
      have ht : t < L := by omega
      rw [← getD_of_lt ht1, ← getD_of_lt ht2, hval t ht]
      have hcol : (sel.map (·.2)).map (fun b => b.getD t 0)
          = (sel.map (·.1)).map (fun i => gfDot ((encMatrix k n).getD i []) (d.map (fun b => b.getD t 0))) := by
        rw [List.map_map, List.map_map]
        apply List.map_congr_left
        intro p hp
        obtain ⟨hi, hp2⟩ := hg p hp
        simp only [Function.comp]
        rw [hp2, (interpAt_spec _ _ L d hdne hu).2 t ht, encMatrix_getD k n p.1 hn hi, hd]
      rw [hcol, List.length_map, hsel]
      have := hS (d.map (fun b => b.getD t 0)) m (by simp [hd]) hm
      rw [this]
      simp [List.getD_eq_getElem?_getD, List.getElem?_eq_getElem h2]

/-! ### part 3: the scalar identity does not depend on the order of the share numbers -/

theorem pt_inj {i j : Nat} (hi : i < 256) (hj : j < 256) (h : pt i = pt j) : i = j :=
  (List.getD_inj (by rw [length_rsPoints]; exact hi) (by rw [length_rsPoints]; exact hj) rsPoints_nodup).mp h

theorem nodup_map_pt : ∀ (ids : List Nat), ids.Nodup → (∀ i ∈ ids, i < 256) → (ids.map pt).Nodup
  | [], _, _ => by simp
  | i :: ids, hnd, hb => by
    rw [List.nodup_cons] at hnd
    rw [List.map_cons, List.nodup_cons]
    refine ⟨?_, nodup_map_pt ids hnd.2 (fun j hj => hb j (by simp [hj]))⟩
    intro hmem
    obtain ⟨j, hj, hpj⟩ := List.mem_map.mp hmem
    have := pt_inj (hb j (by simp [hj])) (hb i (by simp)) hpj
    exact hnd.1 (this ▸ hj)

/-- Lagrange basis value written with the *values* of the nodes: `Π_{y' ∈ Y, y' ≠ y} (x - y') / (y - y')` -/
def LC (Y : List UInt8) (y x : UInt8) : UInt8 :=
  gfMul ((Y.filter (· != y)).foldl (fun acc ym => gfMul acc (x ^^^ ym)) 1)
    (gfInv ((Y.filter (· != y)).foldl (fun acc ym => gfMul acc (y ^^^ ym)) 1))

theorem zipIdx_filter_keep : ∀ (Y : List UInt8) (o c : Nat), c < o →
    ((Y.zipIdx o).filter (fun p => p.2 != c)).map (·.1) = Y
  | [], _, _, _ => rfl
  | y :: ys, o, c, h => by
    have hne : (o != c) = true := by simp; omega
    simp [List.zipIdx_cons, hne, zipIdx_filter_keep ys (o + 1) c (by omega)]

theorem others_eq : ∀ (Y : List UInt8) (o s : Nat), Y.Nodup → s < Y.length →
    ((Y.zipIdx o).filter (fun p => p.2 != o + s)).map (·.1) = Y.filter (· != Y.getD s 0)
  | [], _, _, _, h => by simp at h
  | y :: ys, o, 0, hnd, _ => by
    rw [List.nodup_cons] at hnd
    have h1 : (ys.filter (· != y)) = ys := by
      rw [List.filter_eq_self]; intro a ha; simp; intro e; exact hnd.1 (e ▸ ha)
    simp [List.zipIdx_cons, zipIdx_filter_keep ys (o + 1) o (by omega), h1]
  | y :: ys, o, s + 1, hnd, hs => by
    rw [List.nodup_cons] at hnd
    have hs' : s < ys.length := by simpa using hs
    have ih := others_eq ys (o + 1) s hnd.2 hs'
    have hne : (o != o + (s + 1)) = true := by simp
    have hz : ys.getD s 0 ∈ ys := by rw [getD_of_lt hs']; exact List.getElem_mem hs'
    have hy : (y != ys.getD s 0) = true := by simp; intro e; exact hnd.1 (e ▸ hz)
    have hidx : o + (s + 1) = o + 1 + s := by omega
    simp only [List.zipIdx_cons, List.filter_cons, hne, if_true, List.map_cons, List.getD_cons_succ, hy]
    rw [hidx, ih]

theorem lagrangeCoeff_eq_LC (Y : List UInt8) (s : Nat) (x : UInt8) (hnd : Y.Nodup) (hs : s < Y.length) :
    lagrangeCoeff Y s x = LC Y (Y.getD s 0) x := by
  have h := others_eq Y 0 s hnd hs
  simp only [Nat.zero_add] at h
  unfold lagrangeCoeff LC
  simp only [h]

theorem coeffRow_eq_map_LC (Y : List UInt8) (x : UInt8) (hnd : Y.Nodup) :
    coeffRow Y Y.length x = Y.map (fun y => LC Y y x) := by
  apply List.ext_getElem
  · simp [coeffRow]
  · intro s h1 h2
    have hs : s < Y.length := by simpa [coeffRow] using h1
    simp [coeffRow, lagrangeCoeff_eq_LC Y s x hnd hs, List.getD_eq_getElem?_getD, List.getElem?_eq_getElem hs]

theorem gfMul_right_comm (z a b : UInt8) : gfMul (gfMul z a) b = gfMul (gfMul z b) a := by
  rw [gfMul_assoc, gfMul_comm a b, ← gfMul_assoc]

theorem LC_perm {Y Y' : List UInt8} (h : Y.Perm Y') (y x : UInt8) : LC Y y x = LC Y' y x := by
  have hf := h.filter (· != y)
  unfold LC
  rw [hf.foldl_eq' (f := fun acc ym => gfMul acc (x ^^^ ym)) (fun a _ b _ z => gfMul_right_comm z _ _) 1,
      hf.foldl_eq' (f := fun acc ym => gfMul acc (y ^^^ ym)) (fun a _ b _ z => gfMul_right_comm z _ _) 1]

theorem xor_right_comm (z a b : UInt8) : z ^^^ a ^^^ b = z ^^^ b ^^^ a := by
  rw [UInt8.xor_assoc, UInt8.xor_comm a b, ← UInt8.xor_assoc]

/-- the left-hand side of `ScalarRecover` as a sum over the share numbers themselves -/
theorem scalar_lhs_eq (ids : List Nat) (hnd : ids.Nodup) (hb : ∀ i ∈ ids, i < 256) (x : UInt8) (G : Nat → UInt8) :
    gfDot (coeffRow (ids.map pt) ids.length x) (ids.map G)
      = (ids.map (fun i => gfMul (LC (ids.map pt) (pt i) x) (G i))).foldl (· ^^^ ·) 0 := by
  have h := coeffRow_eq_map_LC (ids.map pt) x (nodup_map_pt ids hnd hb)
  rw [List.length_map] at h
  rw [h, gfDot, List.map_map, List.zipWith_map, List.zipWith_self]
  rfl

theorem scalarRecover_perm (k n : Nat) {ids ids' : List Nat} (hp : ids.Perm ids') (hnd : ids.Nodup)
    (hb : ∀ i ∈ ids, i < 256) (hlen : ids.length = k) (h : ScalarRecover k n ids) : ScalarRecover k n ids' := by
  subst hlen
  intro v m hv hm
  have hnd' : ids'.Nodup := hp.nodup_iff.mp hnd
  have hb' : ∀ i ∈ ids', i < 256 := fun i hi => hb i (hp.mem_iff.mpr hi)
  have hlen' : ids'.length = ids.length := hp.length_eq.symm
  have h0 := h v m hv hm
  rw [scalar_lhs_eq ids hnd hb] at h0
  have e := scalar_lhs_eq ids' hnd' hb' (pt m) (fun i => gfDot ((encMatrix ids.length n).getD i []) v)
  rw [hlen'] at e
  rw [e, ← h0]
  have hY : (ids'.map pt).Perm (ids.map pt) := (hp.map pt).symm
  have hfun : (fun i => gfMul (LC (ids'.map pt) (pt i) (pt m)) (gfDot ((encMatrix ids.length n).getD i []) v))
      = (fun i => gfMul (LC (ids.map pt) (pt i) (pt m)) (gfDot ((encMatrix ids.length n).getD i []) v)) := by
    funext i; rw [LC_perm hY]
  rw [hfun]
  exact ((hp.symm.map _).foldl_eq' (fun a _ b _ z => xor_right_comm z a b) 0)

/-! ### every duplicate-free set of share numbers below `n ≤ 5` is a reordering of some `idsOfMask n mask` -/

def maskOf (ids : List Nat) : Nat :=
  (if ids.contains 0 then 1 else 0) + (if ids.contains 1 then 2 else 0) + (if ids.contains 2 then 4 else 0)
    + (if ids.contains 3 then 8 else 0) + (if ids.contains 4 then 16 else 0)

theorem maskBits : ∀ b0 b1 b2 b3 b4 : Bool,
    ((if b0 then 1 else 0) + (if b1 then 2 else 0) + (if b2 then 4 else 0) + (if b3 then 8 else 0)
        + (if b4 then 16 else 0) : Nat).testBit 0 = b0 ∧
    ((if b0 then 1 else 0) + (if b1 then 2 else 0) + (if b2 then 4 else 0) + (if b3 then 8 else 0)
        + (if b4 then 16 else 0) : Nat).testBit 1 = b1 ∧
    ((if b0 then 1 else 0) + (if b1 then 2 else 0) + (if b2 then 4 else 0) + (if b3 then 8 else 0)
        + (if b4 then 16 else 0) : Nat).testBit 2 = b2 ∧
    ((if b0 then 1 else 0) + (if b1 then 2 else 0) + (if b2 then 4 else 0) + (if b3 then 8 else 0)
        + (if b4 then 16 else 0) : Nat).testBit 3 = b3 ∧
    ((if b0 then 1 else 0) + (if b1 then 2 else 0) + (if b2 then 4 else 0) + (if b3 then 8 else 0)
        + (if b4 then 16 else 0) : Nat).testBit 4 = b4 := by decide

theorem maskOf_testBit (ids : List Nat) (i : Nat) (hi : i < 5) : (maskOf ids).testBit i = ids.contains i := by
  have h := maskBits (ids.contains 0) (ids.contains 1) (ids.contains 2) (ids.contains 3) (ids.contains 4)
  match i, hi with
  | 0, _ => exact h.1
  | 1, _ => exact h.2.1
  | 2, _ => exact h.2.2.1
  | 3, _ => exact h.2.2.2.1
  | 4, _ => exact h.2.2.2.2

theorem maskOf_lt (ids : List Nat) (n : Nat) (hn : n ≤ 5) (hb : ∀ i ∈ ids, i < n) : maskOf ids < 2 ^ n := by
  have hc : ∀ i, n ≤ i → ids.contains i = false := by
    intro i hi
    cases hcon : ids.contains i with
    | false => rfl
    | true => have := hb i (by simpa using hcon); omega
  unfold maskOf
  match n, hn with
  | 0, _ => simp only [hc 0 (by omega), hc 1 (by omega), hc 2 (by omega), hc 3 (by omega), hc 4 (by omega)]; decide
  | 1, _ => simp only [hc 1 (by omega), hc 2 (by omega), hc 3 (by omega), hc 4 (by omega)]; split <;> simp
  | 2, _ => simp only [hc 2 (by omega), hc 3 (by omega), hc 4 (by omega)]; split <;> split <;> simp
  | 3, _ => simp only [hc 3 (by omega), hc 4 (by omega)]; split <;> split <;> split <;> simp
  | 4, _ => simp only [hc 4 (by omega)]; split <;> split <;> split <;> split <;> simp
  | 5, _ => split <;> split <;> split <;> split <;> split <;> simp

theorem idsOfMask_perm (ids : List Nat) (n : Nat) (hn : n ≤ 5) (hnd : ids.Nodup) (hb : ∀ i ∈ ids, i < n) :
    (idsOfMask n (maskOf ids)).Perm ids := by
  have hf : idsOfMask n (maskOf ids) = (List.range n).filter (fun i => ids.contains i) := by
    unfold idsOfMask
    apply List.filter_congr
    intro i hi
    exact maskOf_testBit ids i (by have := List.mem_range.mp hi; omega)
  rw [hf]
  apply (List.perm_ext_iff_of_nodup (List.nodup_range.sublist List.filter_sublist) hnd).mpr
  intro a
  simp only [List.mem_filter, List.mem_range, List.contains_iff_mem]
  constructor
  · exact fun h => h.2
  · exact fun h => ⟨hb a h, h⟩

theorem submatrixInverts_small (n : Nat) (h1 : 1 ≤ n) (h5 : n ≤ 5) (mask : Nat) (hm : mask < 2 ^ n) :
    submatrixInverts n mask = true := by
  match n, h1, h5 with
  | 1, _, _ => exact submatrixInverts_1 mask hm
  | 2, _, _ => exact submatrixInverts_2 mask hm
  | 3, _, _ => exact submatrixInverts_3 mask hm
  | 4, _, _ => exact submatrixInverts_4 mask hm
  | 5, _, _ => exact submatrixInverts_5 mask hm

/-- the scalar identity for every duplicate-free list of `k ≥ 1` share numbers below `n ≤ 5`, in any order -/
theorem scalarRecover_small (k n : Nat) (hk : 1 ≤ k) (hn : n ≤ 5) (ids : List Nat) (hlen : ids.length = k)
    (hnd : ids.Nodup) (hb : ∀ i ∈ ids, i < n) : ScalarRecover k n ids := by
  have hp := idsOfMask_perm ids n hn hnd hb
  have hl0 : (idsOfMask n (maskOf ids)).length = k := by rw [hp.length_eq, hlen]
  have hb0 : ∀ i ∈ idsOfMask n (maskOf ids), i < n := fun i hi => hb i (hp.mem_iff.mp hi)
  have hn1 : 1 ≤ n := by
    cases ids with
    | nil => simp at hlen; omega
    | cons i _ => have := hb i (by simp); omega
  have hinv := submatrixInverts_small n hn1 hn (maskOf ids) (maskOf_lt ids n hn hb)
  unfold submatrixInverts at hinv
  simp only [hl0, Bool.or_eq_true, beq_iff_eq] at hinv
  have hne : (idsOfMask n (maskOf ids)).isEmpty = false := by
    cases h : idsOfMask n (maskOf ids) with
    | nil => rw [h] at hl0; simp at hl0; omega
    | cons _ _ => rfl
  rw [hne] at hinv
  have H := hinv.resolve_left (by simp)
  have hk5 : k ≤ n := by
    rw [← hl0]; unfold idsOfMask
    have := List.length_filter_le (fun i => (maskOf ids).testBit i) (List.range n)
    simpa using this
  have h0 := scalarRecover_of_matrix k n (by omega) _ hl0 hb0 (by omega) H
  exact scalarRecover_perm k n hp (hp.nodup_iff.mpr hnd) (fun i hi => by have := hb0 i hi; omega) hl0 h0

/-- **From the scalar identity to the MDS law**, for every `1 ≤ k ≤ n ≤ 256`: all that `MDS (rs256 k n)`
needs beyond the proved field laws is the byte-level Lagrange identity for the share numbers used. -/
theorem rs256_mds_of_scalar (k n : Nat) (hk : 1 ≤ k) (hkn : k ≤ n) (hn : n ≤ 256)
    (hS : ∀ ids : List Nat, ids.length = k → ids.Nodup → (∀ i ∈ ids, i < n) → ScalarRecover k n ids) :
    MDS (rs256 k n) k n where
  enc_length := by
    intro L d _ _
    show ((rsPoints n).map _).length = n
    simp [length_rsPoints]
  enc_uniform := by
    intro L d hd hu b hb
    have hdne : d ≠ [] := by intro h; rw [h] at hd; simp at hd; omega
    have henc : (rs256 k n).enc d = (rsPoints n).map (fun x => interpAt ((rsPoints n).take k) d x) := rfl
    rw [henc] at hb
    obtain ⟨x, _, rfl⟩ := List.mem_map.mp hb
    exact (interpAt_spec _ _ L d hdne hu).1
  recover := by
    intro L d hd hu sel hsel hnd hgen
    have hb : ∀ i ∈ sel.map (·.1), i < n := by
      intro i hi
      obtain ⟨p, hp, rfl⟩ := List.mem_map.mp hi
      have h := hgen p hp
      have hl : ((rs256 k n).enc d).length = n := by
        show ((rsPoints n).map _).length = n
        simp [length_rsPoints]
      rcases Nat.lt_or_ge p.1 n with h' | h'
      · exact h'
      · rw [List.getElem?_eq_none (by omega)] at h; cases h
    exact rs256_recover_of_scalar k n hk hkn hn L d hd hu sel hsel hgen
      (hS _ (by simpa using hsel) hnd hb)

/-- **MDS for zfec's code, blocks of bytes of any length, every 1 ≤ k ≤ n ≤ 5.** -/
theorem rs256_mds_small (k n : Nat) (hk : 1 ≤ k) (hkn : k ≤ n) (hn : n ≤ 5) : MDS (rs256 k n) k n :=
  rs256_mds_of_scalar k n hk hkn (by omega)
    (fun ids hlen hnd hb => scalarRecover_small k n hk hn ids hlen hnd hb)

end Tahoe.Codec
