import Tahoe.Codec.Ueb
/-! Round trip of the URI-extension-block model with the canonical checks (`strict`). -/
namespace Tahoe.Codec.Ueb
open Tahoe.Base Tahoe.Base.Netstring

/-- the documented key pattern `[a-zA-Z_\-]+` (no trailing newline) -/
def KeyStrict (k : Bytes) : Prop := k ≠ [] ∧ k.all isKeyChar = true

/-- integers exactly under the five integer keys -/
def Typed (e : Bytes × Val) : Prop :=
  (intKeys.contains e.1 = true → ∃ n, e.2 = .int n) ∧ (intKeys.contains e.1 = false → ∃ b, e.2 = .bytes b)

def rawEntry (e : Bytes × Bytes) : Bytes := e.1 ++ colon :: enc e.2

theorem parseValue_enc (v r : Bytes) : parseValue strictLen (enc v ++ r) = .ok (v, r) := by
  simp only [parseValue, enc, List.append_assoc, List.cons_append]
  rw [splitAt_append (colon_not_mem_toDec _)]
  simp only [strictLen, parseDecStrict_toDec, Option.map_some]
  have h1 : (Int.ofNat v.length ≥ 0) := Int.natCast_nonneg _
  have h2 : ¬ (Int.ofNat v.length = -1) := by omega
  have h3 : ¬ (Int.ofNat v.length < 0) := by omega
  have h4 : (Int.ofNat v.length).toNat = v.length := rfl
  simp only [h1, ↓reduceIte, h2, h3, or_self, h4]
  simp [comma]

theorem isKeyChar_facts {c : UInt8} (h : isKeyChar c = true) : c ≠ colon ∧ c.toNat < 128 := by
  simp only [isKeyChar, Bool.or_eq_true, Bool.and_eq_true, decide_eq_true_eq, beq_iff_eq] at h
  refine ⟨?_, by omega⟩
  intro hc; subst hc; simp [colon] at h

theorem colon_not_mem_key {k : Bytes} (h : k.all isKeyChar = true) : colon ∉ k := by
  intro hm
  exact (isKeyChar_facts (List.all_eq_true.mp h _ hm)).1 rfl

theorem utf8Ok_ascii : ∀ (f : Nat) (k : Bytes), (∀ c ∈ k, c.toNat < 128) → utf8Ok f k = true
  | 0, _, _ => rfl
  | _ + 1, [], _ => rfl
  | f + 1, c :: cs, h => by
    have hc := h c List.mem_cons_self
    simp only [utf8Ok, hc, ↓reduceIte]
    exact utf8Ok_ascii f cs (fun x hx => h x (List.mem_cons_of_mem _ hx))

theorem dictSet_new (d : List (Bytes × Bytes)) (k v : Bytes) (h : ∀ a ∈ d, a.1 ≠ k) :
    dictSet d k v = d ++ [(k, v)] := by
  induction d with
  | nil => rfl
  | cons e es ih =>
    have he := h e List.mem_cons_self
    simp only [dictSet, he, ↓reduceIte, List.cons_append, List.cons.injEq, true_and]
    exact ih (fun a ha => h a (List.mem_cons_of_mem _ ha))

theorem any_key_false (d : List (Bytes × Bytes)) (k : Bytes) (h : ∀ a ∈ d, a.1 ≠ k) :
    d.any (fun e => e.1 == k) = false := by
  simp only [List.any_eq_false, beq_iff_eq]
  exact fun a ha => h a ha

theorem rawEntry_length_pos (e : Bytes × Bytes) : 0 < (rawEntry e).length := by
  simp [rawEntry]; omega

/-- the `while data:` loop reads back a concatenation of entries with distinct, well-formed keys -/
theorem loop_entries : ∀ (es : List (Bytes × Bytes)) (fuel : Nat) (acc : List (Bytes × Bytes)),
    (∀ e ∈ es, KeyStrict e.1) → (es.map Prod.fst).Nodup → (∀ e ∈ es, ∀ a ∈ acc, a.1 ≠ e.1) →
    ((es.map rawEntry).flatten).length ≤ fuel →
    loop strict fuel (es.map rawEntry).flatten acc = .ok (acc ++ es)
  | [], fuel, acc, _, _, _, _ => by cases fuel <;> simp [loop]
  | e :: es, fuel, acc, hk, hnd, hdisj, hf => by
    have hpos := rawEntry_length_pos e
    simp only [List.map_cons, List.flatten_cons, List.length_append] at hf
    cases fuel with
    | zero => omega
    | succ f =>
      obtain ⟨k, v⟩ := e
      have hke := hk (k, v) List.mem_cons_self
      have hne : rawEntry (k, v) ++ (es.map rawEntry).flatten ≠ [] := by
        intro hc; have := congrArg List.length hc
        simp only [List.length_append, List.length_nil] at this; omega
      simp only [List.map_cons, List.flatten_cons, loop, hne, ↓reduceIte]
      have hsplit : splitAt colon (rawEntry (k, v) ++ (es.map rawEntry).flatten)
          = some (k, enc v ++ (es.map rawEntry).flatten) := by
        simp only [rawEntry, List.append_assoc, List.cons_append]
        exact splitAt_append (colon_not_mem_key hke.2) _
      rw [hsplit]
      simp only [strict, parseValue_enc]
      have hutf : utf8Ok k.length k = true :=
        utf8Ok_ascii _ _ (fun c hc => (isKeyChar_facts (List.all_eq_true.mp hke.2 c hc)).2)
      have hnew : ∀ a ∈ acc, a.1 ≠ k := fun a ha => hdisj (k, v) List.mem_cons_self a ha
      simp only [hutf, Bool.not_true, Bool.false_eq_true, ↓reduceIte, any_key_false acc k hnew,
        Bool.and_false, dictSet_new acc k v hnew]
      simp only [List.map_cons, List.nodup_cons] at hnd
      have := loop_entries es f (acc ++ [(k, v)]) (fun x hx => hk x (List.mem_cons_of_mem _ hx)) hnd.2
        (by
          intro x hx a ha
          rcases List.mem_append.mp ha with ha | ha
          · exact hdisj x (List.mem_cons_of_mem _ hx) a ha
          · simp only [List.mem_singleton] at ha; subst ha
            intro hc
            exact hnd.1 (List.mem_map.mpr ⟨x, hx, hc.symm⟩))
        (by omega)
      simp only [strict] at this
      rw [this]; simp

theorem toDec_cons_digit (n : Nat) : ∃ d rest, toDec n = d :: rest ∧ isDigit d = true := by
  have hne := toDec_ne_nil n
  have hall := toDec_all_digits n
  cases h : toDec n with
  | nil => exact absurd h hne
  | cons d rest => rw [h] at hall; simp at hall; exact ⟨d, rest, rfl, hall.1⟩

theorem strictInt_toDecInt (n : Int) : strictInt (toDecInt n) = some n := by
  simp only [toDecInt]
  split
  · rename_i hneg
    simp only [strictInt, parseDecStrict_toDec]
    have : (-n).toNat ≠ 0 := by omega
    simp only [this, ↓reduceIte, Option.some.injEq, Int.ofNat_eq_natCast]
    omega
  · rename_i hpos
    obtain ⟨d, rest, hd, hdig⟩ := toDec_cons_digit n.toNat
    have h45 : d ≠ 45 := by
      intro hc; subst hc; simp [isDigit] at hdig
    have hparse := parseDecStrict_toDec n.toNat
    rw [hd] at hparse ⊢
    unfold strictInt
    split
    · rename_i ds heq
      simp only [List.cons.injEq] at heq
      exact absurd heq.1 h45
    · simp only [hparse, Option.map_some, Option.some.injEq, Int.ofNat_eq_natCast]
      omega

theorem convert_entries : ∀ (es : Dict), (∀ e ∈ es, Typed e) →
    convert strict (es.map (fun e => (e.1, valBytes e.2))) = .ok es
  | [], _ => rfl
  | (k, v) :: es, h => by
    have ih := convert_entries es (fun e he => h e (List.mem_cons_of_mem _ he))
    have ht := h (k, v) List.mem_cons_self
    simp only [List.map_cons, convert, ih]
    cases hc : intKeys.contains k with
    | true =>
      obtain ⟨n, hn⟩ := ht.1 hc
      simp only at hn; subst hn
      simp [strict, valBytes, strictInt_toDecInt]
    | false =>
      obtain ⟨b, hb⟩ := ht.2 hc
      simp only at hb; subst hb
      simp [valBytes]

/-- **decode ∘ encode** at the level of entry lists: entries with distinct, well-formed keys and
    well-typed values, written in any order, are read back exactly -/
theorem unpack_entries (es : Dict) (hk : ∀ e ∈ es, KeyStrict e.1) (hnd : (es.map Prod.fst).Nodup)
    (ht : ∀ e ∈ es, Typed e) :
    unpack strict ((es.map packEntry).flatten) = .ok es := by
  have hraw : es.map packEntry = (es.map (fun e => (e.1, valBytes e.2))).map rawEntry := by
    simp [List.map_map, packEntry, rawEntry, Function.comp_def]
  have hl := loop_entries (es.map (fun e => (e.1, valBytes e.2)))
    ((es.map packEntry).flatten).length []
    (by intro e he; simp only [List.mem_map] at he; obtain ⟨x, hx, rfl⟩ := he; exact hk x hx)
    (by simpa [List.map_map, Function.comp_def] using hnd)
    (by intro _ _ a ha; simp at ha)
    (by rw [hraw]; exact Nat.le_refl _)
  rw [← hraw] at hl
  simp only [unpack, hl, List.nil_append]
  exact convert_entries es ht

theorem mem_insertSorted (e x : Bytes × Val) : ∀ (l : Dict), x ∈ insertSorted e l ↔ x = e ∨ x ∈ l
  | [] => by simp [insertSorted]
  | f :: fs => by
    simp only [insertSorted]
    split
    · simp
    · simp only [List.mem_cons, mem_insertSorted e x fs]
      constructor
      · rintro (h | h | h) <;> simp [h]
      · rintro (h | h | h) <;> simp [h]

theorem mem_sortDict (x : Bytes × Val) : ∀ (d : Dict), x ∈ sortDict d ↔ x ∈ d
  | [] => by simp [sortDict]
  | e :: es => by
    have ih := mem_sortDict x es
    simp only [sortDict, List.foldr_cons] at ih ⊢
    rw [mem_insertSorted, ih]; simp

theorem nodup_insertSorted (e : Bytes × Val) : ∀ (l : Dict), e.1 ∉ l.map Prod.fst → (l.map Prod.fst).Nodup →
    ((insertSorted e l).map Prod.fst).Nodup
  | [], _, _ => by simp [insertSorted]
  | f :: fs, h1, h2 => by
    simp only [insertSorted]
    split
    · simp only [List.map_cons, List.nodup_cons] at h2 ⊢
      exact ⟨by simpa using h1, h2⟩
    · simp only [List.map_cons, List.nodup_cons, List.mem_cons, not_or] at h1 h2 ⊢
      refine ⟨?_, nodup_insertSorted e fs h1.2 h2.2⟩
      intro hm
      obtain ⟨x, hx, hfx⟩ := List.mem_map.mp hm
      rcases (mem_insertSorted e x fs).mp hx with rfl | hx'
      · exact h1.1 hfx
      · exact h2.1 (List.mem_map.mpr ⟨x, hx', hfx⟩)

theorem nodup_sortDict : ∀ (d : Dict), (d.map Prod.fst).Nodup → ((sortDict d).map Prod.fst).Nodup
  | [], _ => by simp [sortDict]
  | e :: es, h => by
    simp only [List.map_cons, List.nodup_cons] at h
    have ih := nodup_sortDict es h.2
    simp only [sortDict, List.foldr_cons] at ih ⊢
    apply nodup_insertSorted e _ _ ih
    intro hm
    obtain ⟨x, hx, hfx⟩ := List.mem_map.mp hm
    exact h.1 (List.mem_map.mpr ⟨x, (mem_sortDict x es).mp hx, hfx⟩)

theorem keyOk_of_strict {k : Bytes} (h : KeyStrict k) : keyOk k = true := by
  obtain ⟨hne, hall⟩ := h
  have hlast : k.getLast? ≠ some 10 := by
    intro hc
    have hm : (10 : UInt8) ∈ k := List.mem_of_getLast? hc
    have := List.all_eq_true.mp hall _ hm
    simp [isKeyChar] at this
  simp only [keyOk, hlast, ↓reduceIte, hall, Bool.and_true, Bool.not_eq_true', List.isEmpty_eq_false_iff]
  exact hne

/-- **decode ∘ encode** for dictionaries: `unpack_extension(pack_extension(d)) = d` (as the sorted
    entry list) when the keys are distinct and match the documented pattern and integers sit exactly
    under the integer keys -/
theorem unpack_pack (d : Dict) (hk : ∀ e ∈ d, KeyStrict e.1) (hnd : (d.map Prod.fst).Nodup)
    (ht : ∀ e ∈ d, Typed e) :
    ∃ p, pack d = some p ∧ unpack strict p = .ok (sortDict d) := by
  refine ⟨((sortDict d).map packEntry).flatten, ?_, ?_⟩
  · have : d.all (fun e => keyOk e.1) = true :=
      List.all_eq_true.mpr (fun e he => keyOk_of_strict (hk e he))
    simp [pack, this]
  · exact unpack_entries (sortDict d) (fun e he => hk e ((mem_sortDict e d).mp he)) (nodup_sortDict d hnd)
      (fun e he => ht e ((mem_sortDict e d).mp he))

end Tahoe.Codec.Ueb
