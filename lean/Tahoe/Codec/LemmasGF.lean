import Tahoe.Codec.Model
/-! Field laws of the GF(2^8) multiplication of the model (`gfMul`: carry-less "russian peasant"
multiplication modulo zfec's polynomial 0x11d), proved structurally: bilinearity over XOR by
induction on the rounds of `gfMulAux`; commutativity, associativity and the unit by *span
induction* (every byte is an XOR of the eight basis bytes), which leaves only 64 / 512 / 8 concrete
products to the kernel.  No enumeration over pairs or triples of bytes. -/
namespace Tahoe.Codec

/-! ### bit facts -/

theorem u8_and_xor (a b c : UInt8) : (a ^^^ b) &&& c = (a &&& c) ^^^ (b &&& c) := by
  apply UInt8.toNat_inj.mp
  simp only [UInt8.toNat_and, UInt8.toNat_xor]
  exact Nat.and_xor_distrib_right

theorem u8_forall {P : UInt8 → Prop} (h : ∀ n, n < 256 → P (UInt8.ofNat n)) (a : UInt8) : P a := by
  have := h a.toNat a.toNat_lt
  rwa [UInt8.ofNat_toNat] at this

theorem and1_cases (a : UInt8) : a &&& 1 = 0 ∨ a &&& 1 = 1 :=
  u8_forall (P := fun a => a &&& 1 = 0 ∨ a &&& 1 = 1) (by decide +kernel) a

theorem and80_cases (a : UInt8) : a &&& 0x80 = 0 ∨ a &&& 0x80 = 0x80 :=
  u8_forall (P := fun a => a &&& 0x80 = 0 ∨ a &&& 0x80 = 0x80) (by decide +kernel) a

/-! ### one round; accumulator -/

/-- multiplication by `x` modulo 0x11d -/
def xt (a : UInt8) : UInt8 := if a &&& 0x80 != 0 then (a <<< 1) ^^^ 0x1d else a <<< 1

theorem gfMulAux_succ (f : Nat) (a b acc : UInt8) :
    gfMulAux (f + 1) a b acc = gfMulAux f (xt a) (b >>> 1) (if b &&& 1 != 0 then acc ^^^ a else acc) := rfl

theorem gfMulAux_acc (f : Nat) : ∀ a b acc, gfMulAux f a b acc = acc ^^^ gfMulAux f a b 0 := by
  induction f with
  | zero => intro a b acc; simp [gfMulAux]
  | succ f ih =>
    intro a b acc
    rw [gfMulAux_succ, gfMulAux_succ, ih, ih (acc := if b &&& 1 != 0 then 0 ^^^ a else 0)]
    split <;> simp [UInt8.xor_assoc]

theorem xt_xor (a b : UInt8) : xt (a ^^^ b) = xt a ^^^ xt b := by
  unfold xt
  rw [u8_and_xor, UInt8.shiftLeft_xor]
  rcases and80_cases a with ha | ha <;> rcases and80_cases b with hb | hb <;> rw [ha, hb]
  · simp
  · simp [UInt8.xor_assoc]
  · have : (0x80 : UInt8) ^^^ 0 = 0x80 := by decide
    simp only [this]
    simp only [show ((0x80 : UInt8) != 0) = true by decide, show ((0 : UInt8) != 0) = false by decide,
      if_true, Bool.false_eq_true, if_false]
    rw [UInt8.xor_assoc, UInt8.xor_comm (b <<< 1), ← UInt8.xor_assoc]
  · have : (0x80 : UInt8) ^^^ 0x80 = 0 := by decide
    simp only [this]
    simp only [show ((0x80 : UInt8) != 0) = true by decide, show ((0 : UInt8) != 0) = false by decide,
      if_true, Bool.false_eq_true, if_false]
    rw [UInt8.xor_assoc, UInt8.xor_comm (0x1d) ((b <<< 1) ^^^ 0x1d), UInt8.xor_assoc, UInt8.xor_self,
      UInt8.xor_zero]

/-! ### bilinearity -/

theorem gfMulAux_xor_left (f : Nat) : ∀ a a' b,
    gfMulAux f (a ^^^ a') b 0 = gfMulAux f a b 0 ^^^ gfMulAux f a' b 0 := by
  induction f with
  | zero => intro a a' b; simp [gfMulAux]
  | succ f ih =>
    intro a a' b
    rw [gfMulAux_succ, gfMulAux_succ, gfMulAux_succ, gfMulAux_acc, gfMulAux_acc f (xt a),
      gfMulAux_acc f (xt a'), xt_xor, ih]
    split
    · simp only [UInt8.zero_xor]
      rw [UInt8.xor_assoc a, ← UInt8.xor_assoc a', UInt8.xor_comm a' (gfMulAux f (xt a) (b >>> 1) 0),
        UInt8.xor_assoc, ← UInt8.xor_assoc a]
    · simp

theorem gfMulAux_xor_right (f : Nat) : ∀ a b b',
    gfMulAux f a (b ^^^ b') 0 = gfMulAux f a b 0 ^^^ gfMulAux f a b' 0 := by
  induction f with
  | zero => intro a b b'; simp [gfMulAux]
  | succ f ih =>
    intro a b b'
    rw [gfMulAux_succ, gfMulAux_succ, gfMulAux_succ, gfMulAux_acc, gfMulAux_acc f (xt a) (b >>> 1),
      gfMulAux_acc f (xt a) (b' >>> 1), UInt8.shiftRight_xor, ih, u8_and_xor]
    generalize gfMulAux f (xt a) (b >>> 1) 0 = G
    generalize gfMulAux f (xt a) (b' >>> 1) 0 = G'
    rcases and1_cases b with hb | hb <;> rcases and1_cases b' with hb' | hb' <;> rw [hb, hb']
    · simp
    · simp only [show ((0 : UInt8) ^^^ 1) = 1 by decide, show ((1 : UInt8) != 0) = true by decide,
        show ((0 : UInt8) != 0) = false by decide, if_true, Bool.false_eq_true, if_false, UInt8.zero_xor]
      rw [← UInt8.xor_assoc, UInt8.xor_comm a G, UInt8.xor_assoc]
    · simp only [show ((1 : UInt8) ^^^ 0) = 1 by decide, show ((1 : UInt8) != 0) = true by decide,
        show ((0 : UInt8) != 0) = false by decide, if_true, Bool.false_eq_true, if_false, UInt8.zero_xor]
      rw [UInt8.xor_assoc]
    · simp only [show ((1 : UInt8) ^^^ 1) = 0 by decide, show ((1 : UInt8) != 0) = true by decide,
        show ((0 : UInt8) != 0) = false by decide, if_true, Bool.false_eq_true, if_false, UInt8.zero_xor]
      rw [UInt8.xor_assoc a, ← UInt8.xor_assoc G, UInt8.xor_comm G a, UInt8.xor_assoc a, ← UInt8.xor_assoc a,
        UInt8.xor_self, UInt8.zero_xor]

theorem gfMul_xor_left (a a' b : UInt8) : gfMul (a ^^^ a') b = gfMul a b ^^^ gfMul a' b :=
  gfMulAux_xor_left 8 a a' b

theorem gfMul_xor_right (a b b' : UInt8) : gfMul a (b ^^^ b') = gfMul a b ^^^ gfMul a b' :=
  gfMulAux_xor_right 8 a b b'

theorem gfMul_zero_left (b : UInt8) : gfMul 0 b = 0 := by
  have h := gfMul_xor_left 0 0 b
  rw [UInt8.xor_self, UInt8.xor_self] at h; exact h

theorem gfMul_zero_right (a : UInt8) : gfMul a 0 = 0 := by
  have h := gfMul_xor_right a 0 0
  rw [UInt8.xor_self, UInt8.xor_self] at h; exact h

/-! ### span induction: the eight bytes 1, 2, 4, …, 128 generate all bytes under XOR -/

def gfBasis : List UInt8 := [1, 2, 4, 8, 16, 32, 64, 128]

theorem byte_decompose (a : UInt8) :
    a = (a &&& 1) ^^^ (a &&& 2) ^^^ (a &&& 4) ^^^ (a &&& 8) ^^^ (a &&& 16) ^^^ (a &&& 32) ^^^ (a &&& 64) ^^^ (a &&& 128) :=
  u8_forall (P := fun a => a = (a &&& 1) ^^^ (a &&& 2) ^^^ (a &&& 4) ^^^ (a &&& 8) ^^^ (a &&& 16) ^^^ (a &&& 32)
    ^^^ (a &&& 64) ^^^ (a &&& 128)) (by decide +kernel) a

theorem and_basis_cases (a : UInt8) : ∀ m ∈ gfBasis, a &&& m = 0 ∨ a &&& m = m :=
  u8_forall (P := fun a => ∀ m ∈ gfBasis, a &&& m = 0 ∨ a &&& m = m) (by decide +kernel) a

/-- a property that holds for 0 and the eight basis bytes and is preserved by XOR holds for every byte -/
theorem byte_span {P : UInt8 → Prop} (h0 : P 0) (hx : ∀ x y, P x → P y → P (x ^^^ y))
    (hb : ∀ m ∈ gfBasis, P m) (a : UInt8) : P a := by
  have hm : ∀ m ∈ gfBasis, P (a &&& m) := by
    intro m hmem
    rcases and_basis_cases a m hmem with h | h <;> rw [h]
    · exact h0
    · exact hb m hmem
  rw [byte_decompose a]
  have m1 := hm 1 (by decide); have m2 := hm 2 (by decide); have m4 := hm 4 (by decide)
  have m8 := hm 8 (by decide); have m16 := hm 16 (by decide); have m32 := hm 32 (by decide)
  have m64 := hm 64 (by decide); have m128 := hm 128 (by decide)
  exact hx _ _ (hx _ _ (hx _ _ (hx _ _ (hx _ _ (hx _ _ (hx _ _ m1 m2) m4) m8) m16) m32) m64) m128

/-! ### commutativity, associativity, unit, inverse -/

theorem gfMul_comm_basis : ∀ x ∈ gfBasis, ∀ y ∈ gfBasis, gfMul x y = gfMul y x := by decide +kernel

theorem gfMul_comm (a b : UInt8) : gfMul a b = gfMul b a := by
  revert b
  refine byte_span (P := fun a => ∀ b, gfMul a b = gfMul b a) ?_ ?_ ?_ a
  · intro b; rw [gfMul_zero_left, gfMul_zero_right]
  · intro x y hx hy b; rw [gfMul_xor_left, gfMul_xor_right, hx, hy]
  · intro x hxm b
    refine byte_span (P := fun b => gfMul x b = gfMul b x) ?_ ?_ ?_ b
    · rw [gfMul_zero_left, gfMul_zero_right]
    · intro u v hu hv; rw [gfMul_xor_left, gfMul_xor_right, hu, hv]
    · intro y hym; exact gfMul_comm_basis x hxm y hym

theorem gfMul_assoc_basis : ∀ x ∈ gfBasis, ∀ y ∈ gfBasis, ∀ z ∈ gfBasis,
    gfMul (gfMul x y) z = gfMul x (gfMul y z) := by decide +kernel

theorem gfMul_assoc (a b c : UInt8) : gfMul (gfMul a b) c = gfMul a (gfMul b c) := by
  revert b c
  refine byte_span (P := fun a => ∀ b c, gfMul (gfMul a b) c = gfMul a (gfMul b c)) ?_ ?_ ?_ a
  · intro b c; simp only [gfMul_zero_left]
  · intro x y hx hy b c; simp only [gfMul_xor_left, hx, hy]
  · intro x hxm b
    refine byte_span (P := fun b => ∀ c, gfMul (gfMul x b) c = gfMul x (gfMul b c)) ?_ ?_ ?_ b
    · intro c; simp only [gfMul_zero_left, gfMul_zero_right]
    · intro u v hu hv c; simp only [gfMul_xor_left, gfMul_xor_right, hu, hv]
    · intro y hym c
      refine byte_span (P := fun c => gfMul (gfMul x y) c = gfMul x (gfMul y c)) ?_ ?_ ?_ c
      · simp only [gfMul_zero_right]
      · intro u v hu hv; simp only [gfMul_xor_right, hu, hv]
      · intro z hzm; exact gfMul_assoc_basis x hxm y hym z hzm

theorem gfMul_one_basis : ∀ x ∈ gfBasis, gfMul 1 x = x := by decide +kernel

theorem gfMul_one_left (a : UInt8) : gfMul 1 a = a := by
  refine byte_span (P := fun a => gfMul 1 a = a) ?_ ?_ gfMul_one_basis a
  · exact gfMul_zero_right 1
  · intro x y hx hy; rw [gfMul_xor_right, hx, hy]

theorem gfMul_one_right (a : UInt8) : gfMul a 1 = a := by rw [gfMul_comm, gfMul_one_left]

theorem gfMul_inv_all : ∀ n, n < 256 → n ≠ 0 → gfMul (UInt8.ofNat n) (gfInv (UInt8.ofNat n)) = 1 := by
  decide +kernel

theorem gfMul_inv (a : UInt8) (ha : a ≠ 0) : gfMul a (gfInv a) = 1 := by
  have h := gfMul_inv_all a.toNat a.toNat_lt (by
    intro h0; apply ha; apply UInt8.toNat_inj.mp; simpa using h0)
  rwa [UInt8.ofNat_toNat] at h

/-- no zero divisors -/
theorem gfMul_eq_zero {a b : UInt8} (h : gfMul a b = 0) : a = 0 ∨ b = 0 := by
  by_cases ha : a = 0
  · exact Or.inl ha
  · right
    have h1 : gfMul (gfInv a) (gfMul a b) = 0 := by rw [h, gfMul_zero_right]
    rwa [← gfMul_assoc, gfMul_comm (gfInv a) a, gfMul_inv a ha, gfMul_one_left] at h1

end Tahoe.Codec
