import Tahoe.Codec.Records
/-! Helper lemmas for the record/header theorems of C38. -/
namespace Tahoe.Codec.Records
open Tahoe.Base Tahoe.Base.Bytes Tahoe.Base.Struct

/-- range guard of a lease record: unsigned 32-bit owner number and expiration time, 32-byte secrets -/
def LeaseFits (l : Lease) : Prop :=
  0 ≤ l.owner ∧ l.owner.toNat < 256 ^ 4 ∧ 0 ≤ l.expire ∧ l.expire.toNat < 256 ^ 4 ∧
  l.renew.length = 32 ∧ l.cancel.length = 32

instance (l : Lease) : Decidable (LeaseFits l) := by unfold LeaseFits; infer_instance

theorem fromImmutable_toImmutable (l : Lease) (h : LeaseFits l) :
    ∃ b, toImmutable l = some b ∧ b.length = 72 ∧ fromImmutable b = some { l with nodeid := none } := by
  obtain ⟨h1, h2, h3, h4, h5, h6⟩ := h
  obtain ⟨b, hb, hu⟩ := unpack_pack immLeaseFields
    [.int l.owner, .bytes l.renew, .bytes l.cancel, .int l.expire]
    ⟨⟨h1, h2⟩, h5, h6, ⟨h3, h4⟩, trivial⟩
  exact ⟨b, hb, pack_length hb, by simp [fromImmutable, hu]⟩

theorem fromMutable_toMutable (l : Lease) (nid : Bytes) (h : LeaseFits l) (hn : l.nodeid = some nid)
    (hl : nid.length = 20) :
    ∃ b, toMutable l = some b ∧ b.length = 92 ∧ fromMutable b = some l := by
  obtain ⟨h1, h2, h3, h4, h5, h6⟩ := h
  obtain ⟨b, hb, hu⟩ := unpack_pack mutLeaseFields
    [.int l.owner, .int l.expire, .bytes l.renew, .bytes l.cancel, .bytes nid]
    ⟨⟨h1, h2⟩, ⟨h3, h4⟩, h5, h6, hl, trivial⟩
  refine ⟨b, by simp [toMutable, hn, hb], pack_length hb, ?_⟩
  simp only [fromMutable, hu]
  cases l; simp_all

theorem toImmutable_fromImmutable (b : Bytes) (l : Lease) (h : fromImmutable b = some l) :
    toImmutable l = some b ∧ LeaseFits l ∧ l.nodeid = none := by
  simp only [fromImmutable] at h
  split at h
  · rename_i o r c e hu
    simp only [Option.some.injEq] at h; subst h
    obtain ⟨hp, hf⟩ := pack_unpack _ _ _ hu
    simp only [immLeaseFields, FitsAll, Fits] at hf
    exact ⟨hp, ⟨hf.1.1, hf.1.2, hf.2.2.2.1.1, hf.2.2.2.1.2, hf.2.1, hf.2.2.1⟩, rfl⟩
  · simp at h

theorem toMutable_fromMutable (b : Bytes) (l : Lease) (h : fromMutable b = some l) :
    toMutable l = some b ∧ LeaseFits l := by
  simp only [fromMutable] at h
  split at h
  · rename_i o e r c n hu
    simp only [Option.some.injEq] at h; subst h
    obtain ⟨hp, hf⟩ := pack_unpack _ _ _ hu
    simp only [mutLeaseFields, FitsAll, Fits] at hf
    exact ⟨by simpa [toMutable] using hp, ⟨hf.1.1, hf.1.2, hf.2.1.1, hf.2.1.2, hf.2.2.1, hf.2.2.2.1⟩⟩
  · simp at h

theorem fromImmutable_none_iff (b : Bytes) : fromImmutable b = none ↔ b.length ≠ 72 := by
  constructor
  · intro h hl
    have hu : unpack immLeaseFields b = some (unpackFields immLeaseFields b) := by
      simp [unpack, hl, size, immLeaseFields, Field.size]
    unfold fromImmutable at h
    rw [hu] at h
    simp [unpackFields, immLeaseFields, unpackField] at h
  · intro h
    have : unpack immLeaseFields b = none := by
      rw [unpack_eq_none_iff]; simpa [size, immLeaseFields, Field.size] using h
    simp [fromImmutable, this]

theorem fromMutable_none_iff (b : Bytes) : fromMutable b = none ↔ b.length ≠ 92 := by
  constructor
  · intro h hl
    have hu : unpack mutLeaseFields b = some (unpackFields mutLeaseFields b) := by
      simp [unpack, hl, size, mutLeaseFields, Field.size]
    unfold fromMutable at h
    rw [hu] at h
    simp [unpackFields, mutLeaseFields, unpackField] at h
  · intro h
    have : unpack mutLeaseFields b = none := by
      rw [unpack_eq_none_iff]; simpa [size, mutLeaseFields, Field.size] using h
    simp [fromMutable, this]

/-- immutable header: what is read back from `header(max_size)` followed by any file content -/
theorem readImmHeader_immHeader (v m : Int) (rest : Bytes) (hv : 0 ≤ v) (hv2 : v.toNat < 256 ^ 4) (hm : 0 ≤ m) :
    ∃ b, immHeader v m = some b ∧ b.length = 12 ∧
      readImmHeader (b ++ rest) = some (v.toNat, (min 4294967295 m).toNat, 0) := by
  have hmin : 0 ≤ min 4294967295 m ∧ (min 4294967295 m).toNat < 256 ^ 4 := by
    rw [pow_256_4]; omega
  obtain ⟨b, hb, hu⟩ := unpack_pack immHeaderFields [.int v, .int (min 4294967295 m), .int 0]
    ⟨⟨hv, hv2⟩, hmin, ⟨by omega, by simp⟩, trivial⟩
  have hl := pack_length hb
  have hl12 : b.length = 12 := by simpa [size, immHeaderFields, Field.size] using hl
  refine ⟨b, hb, hl12, ?_⟩
  simp only [readImmHeader]
  rw [List.take_left' hl12, hu]
  simp

theorem fromMutable_nodeid {b : Bytes} {l : Lease} (h : fromMutable b = some l) :
    ∃ nid, l.nodeid = some nid ∧ nid.length = 20 := by
  have hb92 : b.length = 92 := by
    by_cases h' : b.length = 92
    · exact h'
    · rw [(fromMutable_none_iff b).mpr h'] at h; simp at h
  simp only [fromMutable, unpack, hb92, size, mutLeaseFields, Field.size, ↓reduceIte, unpackFields,
    unpackField, Option.some.injEq] at h
  subst h
  exact ⟨_, rfl, by simp; omega⟩

/-- **the immutable lease decoder accepts exactly the image of the encoder** (on in-range leases) -/
theorem fromImmutable_iff (b : Bytes) (l : Lease) :
    fromImmutable b = some l ↔ (toImmutable l = some b ∧ LeaseFits l ∧ l.nodeid = none) := by
  constructor
  · exact toImmutable_fromImmutable b l
  · rintro ⟨hp, hfit, hn⟩
    obtain ⟨b', hb', _, hd⟩ := fromImmutable_toImmutable l hfit
    rw [hp] at hb'
    simp only [Option.some.injEq] at hb'
    subst hb'
    rw [hd]
    cases l
    simp_all

/-- **the mutable lease decoder accepts exactly the image of the encoder** -/
theorem fromMutable_iff (b : Bytes) (l : Lease) :
    fromMutable b = some l ↔
      (toMutable l = some b ∧ LeaseFits l ∧ ∃ nid, l.nodeid = some nid ∧ nid.length = 20) := by
  constructor
  · intro h
    exact ⟨(toMutable_fromMutable b l h).1, (toMutable_fromMutable b l h).2, fromMutable_nodeid h⟩
  · rintro ⟨hp, hfit, nid, hn, hl⟩
    obtain ⟨b', hb', _, hd⟩ := fromMutable_toMutable l nid hfit hn hl
    rw [hp] at hb'
    simp only [Option.some.injEq] at hb'
    subst hb'
    exact hd

theorem magic_lengths : Tahoe.Generated.Encodings.mut_MAGIC_v1.length = 32 ∧
    Tahoe.Generated.Encodings.mut_MAGIC_v2.length = 32 ∧
    Tahoe.Generated.Encodings.mut_MAGIC_v1 ≠ Tahoe.Generated.Encodings.mut_MAGIC_v2 := by decide

/-- mutable header: a freshly written header (followed by the blank lease slots etc.) passes the
    magic check and yields exactly the node id and write enabler that were written -/
theorem readMutHeader_mutHeader (version : Nat) (nid we : Bytes) (hv : version = 1 ∨ version = 2)
    (hn : nid.length = 20) (hw : we.length = 32) :
    ∃ file magic, mutHeader version nid we = some file ∧ magicOf version = some magic ∧
      readMutHeader file = .ok (magic, nid, we, 0, Tahoe.Generated.Encodings.mut_EXTRA_LEASE_OFFSET_VALUE) ∧
      mutSchemaOf file = some version := by
  obtain ⟨hm1, hm2, hne⟩ := magic_lengths
  have hmagic : ∃ magic, magicOf version = some magic ∧ magic.length = 32 ∧
      (version = 2 → magic = Tahoe.Generated.Encodings.mut_MAGIC_v2) ∧
      (version = 1 → magic = Tahoe.Generated.Encodings.mut_MAGIC_v1) := by
    rcases hv with rfl | rfl
    · exact ⟨_, rfl, hm1, by simp, by simp⟩
    · exact ⟨_, rfl, hm2, by simp, by simp⟩
  obtain ⟨magic, hmo, hml, hm_v2, hm_v1⟩ := hmagic
  obtain ⟨fixed, hp, hu⟩ := unpack_pack mutHeaderFields
    [.bytes magic, .bytes nid, .bytes we, .int 0, .int (Tahoe.Generated.Encodings.mut_EXTRA_LEASE_OFFSET_VALUE : Nat)]
    ⟨hml, hn, hw, ⟨by decide, by decide⟩, ⟨by decide, by decide⟩, trivial⟩
  have hl : fixed.length = 100 := by
    simpa [size, mutHeaderFields, Field.size] using pack_length hp
  have htake : ∀ rest : Bytes, (fixed ++ rest).take 100 = fixed := fun rest => List.take_left' hl
  have hfirst : fixed.take 32 = magic := by
    simp only [unpack, hl, size, mutHeaderFields, Field.size, ↓reduceIte, unpackFields, unpackField,
      Option.some.injEq, List.cons.injEq, Value.bytes.injEq] at hu
    exact hu.1
  have hschema : ∀ rest : Bytes, mutSchemaOf (fixed ++ rest) = some version := by
    intro rest
    have : (fixed ++ rest).take 32 = magic := by
      rw [List.take_append_of_le_length (by omega)]; exact hfirst
    simp only [mutSchemaOf, this]
    rcases hv with rfl | rfl
    · rw [hm_v1 rfl, if_neg hne, if_pos rfl]
    · rw [hm_v2 rfl, if_pos rfl]
  refine ⟨fixed ++ List.replicate (Tahoe.Generated.Encodings.mut_LEASE_SIZE * 4) 0 ++ be 4 0, magic, ?_, hmo, ?_, ?_⟩
  · simp only [mutHeader, hmo, mutHeaderRaw]
    rw [show ((Tahoe.Generated.Encodings.mut_EXTRA_LEASE_OFFSET_VALUE : Nat) : Int) =
      Int.ofNat Tahoe.Generated.Encodings.mut_EXTRA_LEASE_OFFSET_VALUE from rfl] at hp
    simp only [Int.ofNat_eq_natCast] at hp
    rw [hp]
  · simp only [readMutHeader, List.append_assoc, htake, hu]
    have := hschema (List.replicate (Tahoe.Generated.Encodings.mut_LEASE_SIZE * 4) 0 ++ be 4 0)
    rw [← htake (List.replicate (Tahoe.Generated.Encodings.mut_LEASE_SIZE * 4) 0 ++ be 4 0)] at this
    have h2 : mutSchemaOf fixed = some version := by simpa using hschema []
    simp [h2]
  · simpa [List.append_assoc] using hschema (List.replicate (Tahoe.Generated.Encodings.mut_LEASE_SIZE * 4) 0 ++ be 4 0)

end Tahoe.Codec.Records
