/-
Model of the erasure-coding plumbing of Tahoe-LAFS (C36).  Mathlib-free, executable; used by the
driver `Drv/C36.lean`.

Mirrors
* `pyutil.mathutil.div_ceil / next_multiple / pad_size` (imported by `allmydata/util/mathutil.py`);
* `allmydata/codec.py`: `CRSEncoder.set_params / get_block_size / encode`,
  `CRSDecoder.set_params / decode` (assertions and preconditions included, in the order in which the
  code evaluates them);
* `allmydata/immutable/encode.py`: `Encoder._got_all_encoding_parameters` (sizes and the tail
  codec), `_encode_segment`, `_gather_data` (zero padding of a short tail read, chopping);
* `allmydata/immutable/downloader/node.py`: `_calculate_sizes`, `_decode_blocks` (tail codec,
  join, length assertion, trim);
* `allmydata/mutable/publish.py`: `setup_encoding_parameters` (sizes / the two encoders),
  `_encode_segment` (chopping with per-piece zero padding);
* `allmydata/mutable/retrieve.py`: `_setup_encoding_parameters` (sizes / decoders),
  `_decode_blocks` (truncation of the supplied blocks to `k`, join, trim).

The erasure code itself (zfec, a C extension outside /repo) is the abstract `Code`; its recovery
property is the hypothesis `MDS`.  `rs256` is an executable Reed–Solomon code over GF(2^8)
(polynomial 0x11d) built the way zfec builds its systematic matrix: block `i` is the value at
`x_i` of the polynomial of degree < k through `(x_j, d_j)`, `j < k`, with `x_0 = 0`,
`x_i = 2^(i-1)`.  The harness compares its bytes with zfec's.

Deviations.  Python exceptions are `Except String` carrying the exception class name.  Encryption
in the mutable path is outside the model: `mutEncodeSegment` receives the crypttext.  Logging,
status and timing are omitted.  `desired_share_ids` is always `None` in the callers, so `encode`
returns all `n` blocks with ids `range(n)`.  Dict iteration order of the supplied blocks is the
order of the `List (Nat × Block)` argument.
-/
namespace Tahoe.Codec

abbrev Block := List UInt8

/-! ### pyutil.mathutil -/

/-- `div_ceil(n, d) = int((n//d) + (n%d != 0))`.  Python raises `ZeroDivisionError` for `d = 0`;
every caller below tests `d = 0` first, so Lean's `n / 0 = 0` is never relied upon. -/
def divCeil (n d : Nat) : Nat := n / d + (if n % d != 0 then 1 else 0)

/-- `next_multiple(n, k) = div_ceil(n, k) * k`. -/
def nextMultiple (n k : Nat) : Nat := divCeil n k * k

/-- `pad_size(n, k)`: `k - n%k` if `n%k` else `0`. -/
def padSize (n k : Nat) : Nat := if n % k != 0 then k - n % k else 0

/-! ### the abstract erasure code and its assumption -/

/-- `zfec.Encoder(k, n).encode` (all `n` blocks) and `zfec.Decoder(k, n).decode(blocks, ids)`. -/
structure Code where
  enc : List Block → List Block
  dec : List Block → List Nat → List Block

/-- every block of `d` has length `L` -/
def Uniform (L : Nat) (d : List Block) : Prop := ∀ b ∈ d, b.length = L

/-- The assumption on the code (maximum distance separable + shape): from `k` input blocks of equal
length it produces `n` blocks of that length, and **any** `k` of them with distinct ids, in any
order, decode to the input.  `sel` is a list of `(id, block)` pairs each of which was really
produced (`(enc d)[id]? = some block`, which also forces `id < n`). -/
structure MDS (c : Code) (k n : Nat) : Prop where
  enc_length : ∀ (L : Nat) (d : List Block), d.length = k → Uniform L d → (c.enc d).length = n
  enc_uniform : ∀ (L : Nat) (d : List Block), d.length = k → Uniform L d → Uniform L (c.enc d)
  recover : ∀ (L : Nat) (d : List Block), d.length = k → Uniform L d →
    ∀ sel : List (Nat × Block), sel.length = k → (sel.map (·.1)).Nodup →
      (∀ p ∈ sel, (c.enc d)[p.1]? = some p.2) →
      c.dec (sel.map (·.2)) (sel.map (·.1)) = d

/-! ### chopping, padding, joining -/

/-- `data + b"\x00" * (len - len(data))` (a non-positive count gives the empty string). -/
def padTo (len : Nat) (d : Block) : Block := d ++ List.replicate (len - d.length) 0

/-- `data[off : off+ps]` -/
def slice (data : Block) (off ps : Nat) : Block := (data.drop off).take ps

/-- immutable `_gather_data`: `[data[i:i+ps] for i in range(0, len(data), ps)]` (`ps > 0`);
`range(0, len, ps)` has `div_ceil(len, ps)` elements `i*ps`. -/
def sliceChunks (ps : Nat) (data : Block) : List Block :=
  (List.range (divCeil data.length ps)).map (fun i => slice data (i * ps) ps)

/-- mutable `_encode_segment`: `k` pieces `crypttext[i*ps : i*ps+ps]`, each zero-padded to `ps`. -/
def chop (k ps : Nat) (data : Block) : List Block :=
  (List.range k).map (fun i => padTo ps (slice data (i * ps) ps))

/-- `b"".join(buffers)` -/
def join (bs : List Block) : Block := bs.flatten

/-! ### codec.py -/

structure EncParams where
  dataSize : Nat
  k : Nat
  n : Nat
  shareSize : Nat
  lastSharePadding : Nat
deriving Repr, DecidableEq

/-- what `zfec.Encoder(k, n)` / `zfec.Decoder(k, n)` accept -/
def zfecParamsOk (k n : Nat) : Bool := 1 ≤ k && k ≤ n && n ≤ 256

/-- `CRSEncoder.set_params(data_size, required_shares, max_shares)` -/
def encSetParams (dataSize k n : Nat) : Except String EncParams :=
  if k > n then .error "AssertionError"              -- assert required_shares <= max_shares
  else if k = 0 then .error "ZeroDivisionError"      -- div_ceil(data_size, 0)
  else
    let ss := divCeil dataSize k
    if !zfecParamsOk k n then .error "Error"         -- zfec.Encoder(k, n) refuses
    else .ok { dataSize := dataSize, k := k, n := n, shareSize := ss, lastSharePadding := padSize ss k }

/-- `CRSEncoder.get_block_size()` -/
def EncParams.blockSize (p : EncParams) : Nat := p.shareSize

/-- `CRSEncoder.encode(inshares)` with `desired_share_ids=None`: the per-share length assertion,
then zfec (which insists on exactly `k` blocks; equal lengths are already ensured). -/
def encEncode (fec : Nat → Nat → Code) (p : EncParams) (inshares : List Block) :
    Except String (List Block × List Nat) :=
  if inshares.any (fun s => s.length != p.shareSize) then .error "AssertionError"
  else if inshares.length != p.k then .error "Error"
  else .ok ((fec p.k p.n).enc inshares, List.range p.n)

structure DecParams where
  dataSize : Nat
  k : Nat
  n : Nat
  chunkSize : Nat
  numChunks : Nat
  shareSize : Nat
deriving Repr, DecidableEq

/-- `CRSDecoder.set_params` (no `k ≤ n` assertion of its own; zfec refuses bad `(k, n)`). -/
def decSetParams (dataSize k n : Nat) : Except String DecParams :=
  if k = 0 then .error "ZeroDivisionError"           -- div_ceil(data_size, chunk_size = 0)
  else if !zfecParamsOk k n then .error "Error"
  else
    let nc := divCeil dataSize k
    .ok { dataSize := dataSize, k := k, n := n, chunkSize := k, numChunks := nc, shareSize := nc }

/-- `CRSDecoder.decode(some_shares, their_shareids)`: both preconditions, then zfec. The decoder
does **not** truncate: exactly `k` blocks are required. -/
def decDecode (fec : Nat → Nat → Code) (p : DecParams) (shares : List Block) (ids : List Nat) :
    Except String (List Block) :=
  if shares.length != ids.length then .error "AssertionError"
  else if shares.length != p.k then .error "AssertionError"
  else .ok ((fec p.k p.n).dec shares ids)

/-! ### immutable upload: encode.py -/

structure ImmEncoder where
  k : Nat
  n : Nat
  fileSize : Nat
  segSize : Nat
  numSegments : Nat
  codec : EncParams
  tailCodec : EncParams
deriving Repr, DecidableEq

/-- tail segment size: `file_size % segment_size`, or a full segment when that is 0 -/
def tailSizeOf (fileSize segSize : Nat) : Nat :=
  if fileSize % segSize = 0 then segSize else fileSize % segSize

/-- `Encoder._got_all_encoding_parameters((k, happy, n, segsize))` — the codec part. -/
def immEncoderSetup (fileSize k n segSize : Nat) : Except String ImmEncoder :=
  if k = 0 then .error "ZeroDivisionError"                 -- segment_size % 0
  else if segSize % k != 0 then .error "AssertionError"    -- assert segment_size % k == 0
  else if segSize = 0 then .error "ZeroDivisionError"      -- div_ceil(file_size, 0)
  else
    match encSetParams segSize k n with
    | .error e => .error e
    | .ok codec =>
      let padded := nextMultiple (tailSizeOf fileSize segSize) k
      match encSetParams padded k n with
      | .error e => .error e
      | .ok tailCodec =>
        .ok { k := k, n := n, fileSize := fileSize, segSize := segSize,
              numSegments := divCeil fileSize segSize, codec := codec, tailCodec := tailCodec }

/-- `Encoder._gather_data(num_chunks, input_chunk_size, hasher, allow_short)`; `data` is what
`read_encrypted(read_size)` returned (exact unless EOF).  A zero chunk size makes
`range(0, len(data), 0)` raise `ValueError`. -/
def gatherData (numChunks chunkSize : Nat) (allowShort : Bool) (data : Block) :
    Except String (List Block) :=
  let readSize := numChunks * chunkSize
  if data.length > readSize then .error "AssertionError"
  else if !allowShort && data.length != readSize then .error "AssertionError"
  else
    let data' := if allowShort && data.length < readSize then padTo readSize data else data
    if chunkSize = 0 then .error "ValueError"
    else .ok (sliceChunks chunkSize data')

/-- `Encoder._encode_segment(segnum, is_tail)` on the bytes read for that segment. -/
def immEncodeSegment (fec : Nat → Nat → Code) (e : ImmEncoder) (isTail : Bool) (data : Block) :
    Except String (List Block × List Nat) :=
  let codec := if isTail then e.tailCodec else e.codec
  let ps := codec.blockSize
  match gatherData e.k ps isTail data with
  | .error err => .error err
  | .ok chunks =>
    if chunks.any (fun c => c.length != ps) then .error "AssertionError"
    else encEncode fec codec chunks

/-! ### immutable download: downloader/node.py -/

structure ImmSizes where
  tailSegmentSize : Nat
  tailSegmentPadded : Nat
  numSegments : Nat
  blockSize : Nat
  tailBlockSize : Nat
deriving Repr, DecidableEq

/-- `DownloadNode._calculate_sizes(segment_size)` with `size`, `k` from the verify cap.
`block_size = segment_size // k` (floor) here, `div_ceil` in the encoder; the assertion makes them agree. -/
def calculateSizes (size k segSize : Nat) : Except String ImmSizes :=
  if k = 0 then .error "ZeroDivisionError"                 -- segment_size % 0
  else if segSize % k != 0 then .error "AssertionError"    -- assert segment_size % k == 0
  else if segSize = 0 then .error "ZeroDivisionError"      -- size % 0
  else
    let tss := tailSizeOf size segSize
    let padded := nextMultiple tss k
    .ok { tailSegmentSize := tss, tailSegmentPadded := padded,
          numSegments := divCeil size segSize, blockSize := segSize / k,
          tailBlockSize := padded / k }

/-- `DownloadNode._decode_blocks(segnum, blocks)`; `blocks` are the `(shareid, block)` items of the
dict handed over by the fetcher. `self._codec` was built by `set_params(segment_size, k, N)`. -/
def immDecodeBlocks (fec : Nat → Nat → Code) (k n segSize : Nat) (sz : ImmSizes) (segnum : Nat)
    (blocks : List (Nat × Block)) : Except String Block :=
  let tail := segnum + 1 == sz.numSegments          -- segnum == num_segments - 1
  match decSetParams (if tail then sz.tailSegmentPadded else segSize) k n with
  | .error e => .error e
  | .ok codec =>
    let blockSize := if tail then sz.tailBlockSize else sz.blockSize
    let decodedSize := if tail then sz.tailSegmentPadded else segSize
    if blocks.any (fun b => b.2.length != blockSize) then .error "AssertionError"
    else
      match decDecode fec codec (blocks.map (·.2)) (blocks.map (·.1)) with
      | .error e => .error e
      | .ok buffers =>
        let segment := join buffers
        if segment.length != decodedSize then .error "AssertionError"
        else .ok (if tail then segment.take sz.tailSegmentSize else segment)

/-! ### mutable publish / retrieve -/

structure MutEncoder where
  k : Nat
  n : Nat
  datalength : Nat
  segSize : Nat
  numSegments : Nat
  tailSegSize : Nat
  fec : EncParams
  tailFec : EncParams
deriving Repr, DecidableEq

/-- tail segment size as `Publish.setup_encoding_parameters` computes it: `datalength % segment_size`
when both are non-zero, else 0; a zero result becomes a full segment (when `segment_size ≠ 0`). -/
def mutTailSize (segSize datalength : Nat) : Nat :=
  let tail0 := if segSize != 0 && datalength != 0 then datalength % segSize else 0
  if tail0 = 0 && segSize != 0 then segSize else tail0

/-- `Publish.setup_encoding_parameters` — sizes and encoders. `seg0` is the segment size before
rounding: `DEFAULT_MUTABLE_MAX_SEGMENT_SIZE` for MDMF, `datalength` for SDMF. The tail encoder is
the segment encoder itself when the sizes coincide, else a fresh one on the *unpadded* tail size. -/
def mutPublishSetup (seg0 datalength k n : Nat) : Except String MutEncoder :=
  if k = 0 then .error "ZeroDivisionError"             -- next_multiple(segment_size, 0)
  else
    let segSize := nextMultiple seg0 k
    let tailSegSize := mutTailSize segSize datalength
    match encSetParams segSize k n with
    | .error e => .error e
    | .ok fec =>
      match (if tailSegSize = segSize then .ok fec else encSetParams tailSegSize k n) with
      | .error e => .error e
      | .ok tailFec =>
        .ok { k := k, n := n, datalength := datalength, segSize := segSize,
              numSegments := if segSize != 0 then divCeil datalength segSize else 0,
              tailSegSize := tailSegSize, fec := fec, tailFec := tailFec }

/-- `Publish._encode_segment(segnum)` after encryption: `crypttext` is the encrypted segment
(`assert len(data) == segsize`, `len(crypttext) == len(data)`). -/
def mutEncodeSegment (fec : Nat → Nat → Code) (e : MutEncoder) (segnum : Nat) (crypttext : Block) :
    Except String (List Block × List Nat) :=
  let last := segnum + 1 == e.numSegments
  let segsize := if last then e.tailSegSize else e.segSize
  if crypttext.length != segsize then .error "AssertionError"
  else
    let f := if last then e.tailFec else e.fec
    encEncode fec f (chop e.k f.blockSize crypttext)

structure MutDecoder where
  k : Nat
  n : Nat
  segSize : Nat
  numSegments : Nat
  tailDataSize : Nat
  tailSegSize : Nat
  segDecoder : DecParams
  tailDecoder : DecParams
deriving Repr, DecidableEq

/-- `_tail_data_size` of `Retrieve._setup_encoding_parameters`: `datalength % segsize` when both
are non-zero, else 0; zero becomes `segsize`. -/
def mutTailDataSize (segSize datalength : Nat) : Nat :=
  let tail0 := if datalength != 0 && segSize != 0 then datalength % segSize else 0
  if tail0 = 0 then segSize else tail0

/-- `Retrieve._setup_encoding_parameters` — sizes and decoders from `verinfo`. -/
def mutRetrieveSetup (segSize datalength k n : Nat) : Except String MutDecoder :=
  match decSetParams segSize k n with
  | .error e => .error e
  | .ok sd =>
    let tailData := mutTailDataSize segSize datalength
    let tailSeg := nextMultiple tailData k
    match (if tailSeg = segSize then .ok sd else decSetParams tailSeg k n) with
    | .error e => .error e
    | .ok td =>
      .ok { k := k, n := n, segSize := segSize,
            numSegments := if datalength != 0 && segSize != 0 then divCeil datalength segSize else 0,
            tailDataSize := tailData, tailSegSize := tailSeg, segDecoder := sd, tailDecoder := td }

/-- `Retrieve._decode_blocks(results, segnum)` (the salt is carried along untouched): at least `k`
blocks (`_assert`), **truncate ids and blocks to the first `k`**, decode, join, trim. -/
def mutDecodeBlocks (fec : Nat → Nat → Code) (d : MutDecoder) (segnum : Nat)
    (blocks : List (Nat × Block)) : Except String Block :=
  let ids := blocks.map (·.1)
  let shares := blocks.map (·.2)
  if ids.length < d.k then .error "AssertionError"
  else
    let last := segnum + 1 == d.numSegments
    match decDecode fec (if last then d.tailDecoder else d.segDecoder) (shares.take d.k) (ids.take d.k) with
    | .error e => .error e
    | .ok buffers => .ok ((join buffers).take (if last then d.tailDataSize else d.segSize))

/-! ### the bare pipeline (what both paths amount to) -/

/-- chop a segment into `k` zero-padded pieces of `⌈size/k⌉` bytes and encode -/
def encodeSegment (c : Code) (k : Nat) (seg : Block) : List Block :=
  c.enc (chop k (divCeil seg.length k) seg)

/-- take the first `k` supplied `(id, block)` pairs, decode, join, trim to the segment size -/
def decodeSegment (c : Code) (k size : Nat) (supplied : List (Nat × Block)) : Block :=
  (join (c.dec ((supplied.map (·.2)).take k) ((supplied.map (·.1)).take k))).take size

/-! ### concrete codes -/

/-- byte-wise XOR of two blocks -/
def xorBlock (a b : Block) : Block := List.zipWith (· ^^^ ·) a b

/-- block stored under id `j` among the supplied pairs -/
def lookupBlock (blocks : List Block) (ids : List Nat) (j : Nat) : Option Block :=
  ((ids.zip blocks).find? (fun p => p.1 == j)).map (·.2)

/-- replication (`k = 1`): every block is the input block; decoding returns the first supplied. -/
def replication (n : Nat) : Code where
  enc d := List.replicate n (d.headD [])
  dec blocks _ := [blocks.headD []]

/-- identity (`k = n`): the blocks are the inputs; decoding puts them back in id order. -/
def identityCode (k : Nat) : Code where
  enc d := d
  dec blocks ids := (List.range k).map (fun j => (lookupBlock blocks ids j).getD [])

/-- single XOR parity (`n = k + 1`): block `k` is the XOR of the `k` inputs; a missing input is
the XOR of everything supplied. -/
def xorParity (k : Nat) : Code where
  enc d := d ++ [d.tail.foldl xorBlock (d.headD [])]
  dec blocks ids :=
    (List.range k).map (fun j =>
      match lookupBlock blocks ids j with
      | some b => b
      | none => blocks.tail.foldl xorBlock (blocks.headD []))

/-! #### GF(2^8), polynomial 0x11d (zfec's `Pp = "101110001"`), generator 2 -/

def gfMulAux : Nat → UInt8 → UInt8 → UInt8 → UInt8
  | 0, _, _, acc => acc
  | f + 1, a, b, acc =>
    let acc := if b &&& 1 != 0 then acc ^^^ a else acc
    let a' := if a &&& 0x80 != 0 then (a <<< 1) ^^^ 0x1d else a <<< 1
    gfMulAux f a' (b >>> 1) acc

def gfMul (a b : UInt8) : UInt8 := gfMulAux 8 a b 0

/-- `a^254 = a⁻¹` for `a ≠ 0` (and 0 for 0), by repeated squaring -/
def gfInv (a : UInt8) : UInt8 :=
  let a2 := gfMul a a
  let a4 := gfMul a2 a2
  let a8 := gfMul a4 a4
  let a16 := gfMul a8 a8
  let a32 := gfMul a16 a16
  let a64 := gfMul a32 a32
  let a128 := gfMul a64 a64
  gfMul a2 (gfMul a4 (gfMul a8 (gfMul a16 (gfMul a32 (gfMul a64 a128)))))

def gfPowers : Nat → UInt8 → List UInt8
  | 0, _ => []
  | m + 1, x => x :: gfPowers m (gfMul 2 x)

/-- zfec's evaluation points: `x_0 = 0`, `x_i = 2^(i-1)` -/
def rsPoints (n : Nat) : List UInt8 :=
  match n with
  | 0 => []
  | m + 1 => 0 :: gfPowers m 1

/-- Lagrange basis value `Π_{m ≠ j} (x - x_m) / (x_j - x_m)` (subtraction is XOR) -/
def lagrangeCoeff (xs : List UInt8) (j : Nat) (x : UInt8) : UInt8 :=
  let xj := xs.getD j 0
  let others := (xs.zipIdx.filter (fun p => p.2 != j)).map (·.1)
  let num := others.foldl (fun acc xm => gfMul acc (x ^^^ xm)) 1
  let den := others.foldl (fun acc xm => gfMul acc (xj ^^^ xm)) 1
  gfMul num (gfInv den)

/-- value at `x` of the (byte-wise) interpolating polynomial through `(xs_j, blocks_j)` -/
def interpAt (xs : List UInt8) (blocks : List Block) (x : UInt8) : Block :=
  let L := (blocks.headD []).length
  blocks.zipIdx.foldl
    (fun acc p => xorBlock acc (p.1.map (gfMul (lagrangeCoeff xs p.2 x))))
    (List.replicate L 0)

/-- Reed–Solomon over GF(2^8) as zfec builds it (systematic: blocks `0..k-1` are the inputs). -/
def rs256 (k n : Nat) : Code where
  enc d :=
    let pts := rsPoints n
    pts.map (fun x => interpAt (pts.take k) d x)
  dec blocks ids :=
    let pts := rsPoints 256
    let xs := ids.map (fun i => pts.getD i 0)
    (pts.take k).map (fun x => interpAt xs blocks x)

/-! ### the caller contract: what each caller hands to `CRSDecoder.decode`

Separate transcriptions of the *selection* step of the two callers (which decoder object, which
blocks, which ids, in which order).  `immDecodeBlocks` / `mutDecodeBlocks` are proved equal to
"selection, then `decDecode`, then join/trim" in `Tahoe.Props.C36`; the driver prints the selection
and the harness compares it with the arguments the real `CRSDecoder.decode` receives. -/

/-- `DownloadNode._decode_blocks`: the decoder (the node's own `_codec` for full segments; for the
tail segment a decoder built from *this node's* `tail_segment_padded, k, N`) and the two parallel
lists built by one loop over `blocks.items()`. -/
def immCodecCall (k n segSize : Nat) (sz : ImmSizes) (segnum : Nat) (blocks : List (Nat × Block)) :
    Except String (DecParams × List Block × List Nat) :=
  let tail := segnum + 1 == sz.numSegments
  match decSetParams (if tail then sz.tailSegmentPadded else segSize) k n with
  | .error e => .error e
  | .ok codec =>
    if blocks.any (fun b => b.2.length != (if tail then sz.tailBlockSize else sz.blockSize)) then
      .error "AssertionError"
    else .ok (codec, blocks.map (·.2), blocks.map (·.1))

/-- `Retrieve._decode_blocks`: both lists come from one loop over the merged dict and are cut to
the first `k` with the same slice. -/
def mutCodecCall (d : MutDecoder) (segnum : Nat) (blocks : List (Nat × Block)) :
    Except String (DecParams × List Block × List Nat) :=
  if (blocks.map (·.1)).length < d.k then .error "AssertionError"
  else .ok (if segnum + 1 == d.numSegments then d.tailDecoder else d.segDecoder,
            (blocks.map (·.2)).take d.k, (blocks.map (·.1)).take d.k)

/-! ### zfec's matrices (coefficient level of `rs256`) -/

/-- the `n × k` systematic encoding matrix: row `i` holds the Lagrange basis values at `x_i` -/
def encMatrix (k n : Nat) : List (List UInt8) :=
  let pts := rsPoints n
  pts.map (fun x => (List.range k).map (fun j => lagrangeCoeff (pts.take k) j x))

/-- the `k × |ids|` decoding matrix for blocks with share numbers `ids` -/
def decMatrix (k : Nat) (ids : List Nat) : List (List UInt8) :=
  let pts := rsPoints 256
  let xs := ids.map (fun i => pts.getD i 0)
  (pts.take k).map (fun x => (List.range ids.length).map (fun s => lagrangeCoeff xs s x))

def gfDot (r c : List UInt8) : UInt8 := (List.zipWith gfMul r c).foldl (· ^^^ ·) 0

/-- `A · B` over GF(2^8); `B` is given by rows and has `ncols` columns -/
def matMul (A B : List (List UInt8)) (ncols : Nat) : List (List UInt8) :=
  A.map (fun r => (List.range ncols).map (fun j => gfDot r (B.map (fun row => row.getD j 0))))

def identityMatrix (k : Nat) : List (List UInt8) :=
  (List.range k).map (fun m => (List.range k).map (fun j => if m = j then 1 else 0))

def selectRows (E : List (List UInt8)) (ids : List Nat) : List (List UInt8) :=
  ids.map (fun i => E.getD i [])

/-- the ascending id list encoded by the low `n` bits of `mask` -/
def idsOfMask (n mask : Nat) : List Nat := (List.range n).filter (fun i => mask.testBit i)

end Tahoe.Codec
