import Tahoe.Codec.Model
/-! Kernel-checked facts about the transcription of zfec's code (`rs256`) at the *coefficient* level.
They do not yet give `MDS (rs256 k n) k n` on blocks: the missing step is the bilinearity of `gfMul`
over XOR (distributivity / associativity for all bytes), which would turn the matrix identity below
into the block identity.  `decide +kernel` evaluates the model's own functions in the kernel. -/
namespace Tahoe.Codec

/-- for the subset of share numbers given by `mask`: (decoding matrix) · (those rows of the encoding
matrix) = identity, i.e. that `k × k` submatrix of zfec's generator is invertible and `decMatrix` is
its inverse -/
def submatrixInverts (n mask : Nat) : Bool :=
  let ids := idsOfMask n mask
  ids.isEmpty ||
    matMul (decMatrix ids.length ids) (selectRows (encMatrix ids.length n) ids) ids.length
      == identityMatrix ids.length

theorem submatrixInverts_1 : ∀ mask, mask < 2 ^ 1 → submatrixInverts 1 mask = true := by decide +kernel
theorem submatrixInverts_2 : ∀ mask, mask < 2 ^ 2 → submatrixInverts 2 mask = true := by decide +kernel
theorem submatrixInverts_3 : ∀ mask, mask < 2 ^ 3 → submatrixInverts 3 mask = true := by decide +kernel
theorem submatrixInverts_4 : ∀ mask, mask < 2 ^ 4 → submatrixInverts 4 mask = true := by decide +kernel
theorem submatrixInverts_5 : ∀ mask, mask < 2 ^ 5 → submatrixInverts 5 mask = true := by decide +kernel

/-- GF(2^8) as transcribed: 1 is a unit, 0 annihilates, and `gfInv` is the inverse of every
non-zero byte (so there are no zero divisors among the pivots the Lagrange coefficients divide by) -/
theorem gf256_units : ∀ a, a < 256 →
    gfMul 1 (UInt8.ofNat a) = UInt8.ofNat a ∧ gfMul (UInt8.ofNat a) 1 = UInt8.ofNat a ∧
    gfMul 0 (UInt8.ofNat a) = 0 ∧ gfMul (UInt8.ofNat a) 0 = 0 ∧
    (a = 0 ∨ gfMul (UInt8.ofNat a) (gfInv (UInt8.ofNat a)) = 1) := by decide +kernel

/-- the 256 evaluation points zfec uses are pairwise distinct (0, then the powers of 2 — 2 generates
the multiplicative group for the polynomial 0x11d) -/
theorem rsPoints_nodup : (rsPoints 256).Nodup := by decide +kernel

end Tahoe.Codec
