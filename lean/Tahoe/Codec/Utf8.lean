import Tahoe.Codec.Ueb
/-
The UTF-8 *encoder* (`str.encode("utf-8")` on a string given as its list of code points), Mathlib-free.
It is the specification side of `Ueb.utf8Ok` (what `str(key, "utf-8")` accepts): see
`Tahoe/Codec/LemmasUtf8.lean` for "accepted = image of the encoder".
-/
namespace Tahoe.Codec.Utf8
open Tahoe.Base

/-- Unicode scalar value: a code point below 0x110000 that is not a surrogate -/
def IsScalar (c : Nat) : Prop := c < 1114112 ∧ ¬ (55296 ≤ c ∧ c ≤ 57343)

instance (c : Nat) : Decidable (IsScalar c) := by unfold IsScalar; infer_instance

/-- UTF-8 bytes of one scalar value -/
def encScalar (c : Nat) : Bytes :=
  if c < 128 then [UInt8.ofNat c]
  else if c < 2048 then [UInt8.ofNat (192 + c / 64), UInt8.ofNat (128 + c % 64)]
  else if c < 65536 then
    [UInt8.ofNat (224 + c / 4096), UInt8.ofNat (128 + c / 64 % 64), UInt8.ofNat (128 + c % 64)]
  else
    [UInt8.ofNat (240 + c / 262144), UInt8.ofNat (128 + c / 4096 % 64), UInt8.ofNat (128 + c / 64 % 64),
     UInt8.ofNat (128 + c % 64)]

/-- `s.encode("utf-8")` -/
def encStr (cs : List Nat) : Bytes := (cs.map encScalar).flatten

end Tahoe.Codec.Utf8
