import Tahoe.Codec.LemmasGF
/-! Linear algebra over the model's GF(2^8) on plain lists: dot products, vector·matrix, the exchange
of the two sums (`dot_matvec`), unit vectors; and the scalar (byte-position-wise) form of `interpAt`. -/
namespace Tahoe.Codec

theorem foldl_xor_acc (l : List UInt8) : ∀ acc : UInt8,
    l.foldl (· ^^^ ·) acc = acc ^^^ l.foldl (· ^^^ ·) 0 := by
  induction l with
  | nil => intro acc; simp
  | cons x t ih => intro acc; simp only [List.foldl_cons]; rw [ih, ih (0 ^^^ x)]; simp [UInt8.xor_assoc]

theorem gfDot_nil_left (c : List UInt8) : gfDot [] c = 0 := by simp [gfDot]
theorem gfDot_nil_right (r : List UInt8) : gfDot r [] = 0 := by simp [gfDot]

theorem gfDot_cons (a b : UInt8) (r c : List UInt8) : gfDot (a :: r) (b :: c) = gfMul a b ^^^ gfDot r c := by
  simp only [gfDot, List.zipWith_cons_cons, List.foldl_cons]
  rw [foldl_xor_acc]; simp

theorem gfDot_zero_left (n : Nat) : ∀ v : List UInt8, gfDot (List.replicate n 0) v = 0 := by
  induction n with
  | zero => intro v; exact gfDot_nil_left v
  | succ n ih =>
    intro v
    cases v with
    | nil => exact gfDot_nil_right _
    | cons c v => rw [List.replicate_succ, gfDot_cons, gfMul_zero_left, ih]; simp

theorem gfDot_add_left : ∀ (u w v : List UInt8), u.length = w.length →
    gfDot (List.zipWith (· ^^^ ·) u w) v = gfDot u v ^^^ gfDot w v
  | [], [], v, _ => by simp [gfDot_nil_left]
  | a :: u, b :: w, [], _ => by simp [gfDot_nil_right]
  | a :: u, b :: w, c :: v, h => by
    have ih := gfDot_add_left u w v (by simpa using h)
    simp only [List.zipWith_cons_cons, gfDot_cons, ih, gfMul_xor_left]
    generalize gfMul a c = p; generalize gfMul b c = q; generalize gfDot u v = x; generalize gfDot w v = y
    rw [UInt8.xor_assoc, UInt8.xor_assoc, ← UInt8.xor_assoc q, UInt8.xor_comm q x, UInt8.xor_assoc x]
  | [], _ :: _, _, h => by simp at h
  | _ :: _, [], _, h => by simp at h

theorem gfDot_smul_left (a : UInt8) : ∀ (row v : List UInt8),
    gfDot (row.map (gfMul a)) v = gfMul a (gfDot row v)
  | [], v => by simp [gfDot_nil_left, gfMul_zero_right]
  | x :: row, [] => by simp [gfDot_nil_right, gfMul_zero_right]
  | x :: row, c :: v => by
    simp only [List.map_cons, gfDot_cons, gfDot_smul_left a row v, gfMul_xor_right, gfMul_assoc]

/-- row vector times matrix (matrix given by rows, `n` columns) — one row of the model's `matMul` -/
def vecMat (r : List UInt8) (M : List (List UInt8)) (n : Nat) : List UInt8 :=
  (List.range n).map (fun j => gfDot r (M.map (fun row => row.getD j 0)))

theorem matMul_eq_vecMat (A B : List (List UInt8)) (n : Nat) : matMul A B n = A.map (fun r => vecMat r B n) := rfl

theorem vecMat_nil (r : List UInt8) (n : Nat) : vecMat r [] n = List.replicate n 0 := by
  apply List.ext_getElem
  · simp [vecMat]
  · intro j h1 h2; simp [vecMat, gfDot_nil_right]

theorem vecMat_cons (a : UInt8) (r row : List UInt8) (M : List (List UInt8)) :
    vecMat (a :: r) (row :: M) row.length = List.zipWith (· ^^^ ·) (row.map (gfMul a)) (vecMat r M row.length) := by
  apply List.ext_getElem
  · simp [vecMat]
  · intro j h1 h2
    have hj : j < row.length := by simpa [vecMat] using h1
    simp [vecMat, gfDot_cons, List.getD_eq_getElem?_getD, List.getElem?_eq_getElem hj]

/-- exchange of the two sums: `r · (M v) = (r M) · v` -/
theorem dot_matvec (v : List UInt8) : ∀ (M : List (List UInt8)) (r : List UInt8), r.length = M.length →
    (∀ row ∈ M, row.length = v.length) →
    gfDot r (M.map (fun row => gfDot row v)) = gfDot (vecMat r M v.length) v
  | [], r, _, _ => by simp [vecMat_nil, gfDot_zero_left, gfDot_nil_right]
  | row :: M, [], h, _ => by simp at h
  | row :: M, a :: r, h, hrows => by
    have hrow : row.length = v.length := hrows row (by simp)
    have ih := dot_matvec v M r (by simpa using h) (fun x hx => hrows x (by simp [hx]))
    rw [List.map_cons, gfDot_cons, ih, ← hrow, vecMat_cons, gfDot_add_left _ _ _ (by simp [vecMat]),
      gfDot_smul_left]

/-- dot product with the `m`-th unit vector picks the `m`-th entry -/
theorem gfDot_unit_aux (m : Nat) : ∀ (v : List UInt8) (s : Nat),
    gfDot ((List.range' s v.length).map (fun j => if m = j then (1 : UInt8) else 0)) v
      = if s ≤ m ∧ m < s + v.length then v.getD (m - s) 0 else 0
  | [], s => by simp [gfDot_nil_right]
  | c :: v, s => by
    have ih := gfDot_unit_aux m v (s + 1)
    simp only [List.length_cons, List.range'_succ, List.map_cons, gfDot_cons, ih]
    by_cases hms : m = s
    · subst hms
      have hf : ¬ (m + 1 ≤ m ∧ m < m + 1 + v.length) := by omega
      simp [gfMul_one_left, hf]
    · simp only [hms, if_false, gfMul_zero_left, UInt8.zero_xor]
      by_cases hc : s + 1 ≤ m ∧ m < s + 1 + v.length
      · have hc' : s ≤ m ∧ m < s + (v.length + 1) := by omega
        rw [if_pos hc, if_pos hc']
        have : m - s = (m - (s + 1)) + 1 := by omega
        rw [this]; simp
      · have hc' : ¬ (s ≤ m ∧ m < s + (v.length + 1)) := by omega
        rw [if_neg hc, if_neg hc']

theorem gfDot_unit (m : Nat) (v : List UInt8) (hm : m < v.length) :
    gfDot ((List.range v.length).map (fun j => if m = j then (1 : UInt8) else 0)) v = v.getD m 0 := by
  have := gfDot_unit_aux m v 0
  rw [List.range_eq_range', this]; simp [hm]

/-! ### `interpAt`, one byte position at a time -/

/-- the coefficient row `interpAt xs · x` applies to its `k` blocks -/
def coeffRow (xs : List UInt8) (k : Nat) (x : UInt8) : List UInt8 :=
  (List.range k).map (fun j => lagrangeCoeff xs j x)

theorem getD_of_lt {l : List UInt8} {t : Nat} (h : t < l.length) : l.getD t 0 = l[t] := by
  simp [List.getD_eq_getElem?_getD, List.getElem?_eq_getElem h]

theorem xorBlock_smul_spec (acc b : Block) (c : UInt8) (L t : Nat) (ha : acc.length = L) (hb : b.length = L)
    (ht : t < L) :
    (xorBlock acc (b.map (gfMul c))).length = L ∧
    (xorBlock acc (b.map (gfMul c))).getD t 0 = acc.getD t 0 ^^^ gfMul c (b.getD t 0) := by
  have hl : (xorBlock acc (b.map (gfMul c))).length = L := by simp [xorBlock, ha, hb]
  refine ⟨hl, ?_⟩
  rw [getD_of_lt (by omega), getD_of_lt (by omega), getD_of_lt (by omega)]
  simp [xorBlock]

theorem interp_fold (c : Nat → UInt8) (L t : Nat) (ht : t < L) : ∀ (blocks : List Block) (start : Nat) (acc : Block),
    acc.length = L → Uniform L blocks →
    ((blocks.zipIdx start).foldl (fun acc p => xorBlock acc (p.1.map (gfMul (c p.2)))) acc).length = L ∧
    ((blocks.zipIdx start).foldl (fun acc p => xorBlock acc (p.1.map (gfMul (c p.2)))) acc).getD t 0
      = (List.zipWith gfMul ((List.range' start blocks.length).map c) (blocks.map (fun b => b.getD t 0))).foldl
          (· ^^^ ·) (acc.getD t 0)
  | [], start, acc, ha, _ => by simp [ha]
  | b :: rest, start, acc, ha, hu => by
    have hb : b.length = L := hu b (by simp)
    obtain ⟨h1, h2⟩ := xorBlock_smul_spec acc b (c start) L t ha hb ht
    have ih := interp_fold c L t ht rest (start + 1) _ h1 (fun x hx => hu x (by simp [hx]))
    simp only [List.zipIdx_cons, List.foldl_cons, List.length_cons, List.range'_succ, List.map_cons,
      List.zipWith_cons_cons]
    rw [← h2]
    exact ih

/-- `interpAt` on `k ≥ 1` blocks of length `L`: a block of length `L` whose byte `t` is the dot
product of the coefficient row with the `t`-th bytes of the blocks -/
theorem interpAt_spec (xs : List UInt8) (x : UInt8) (L : Nat) (blocks : List Block) (hne : blocks ≠ [])
    (hu : Uniform L blocks) :
    (interpAt xs blocks x).length = L ∧
    ∀ t, t < L → (interpAt xs blocks x).getD t 0
      = gfDot (coeffRow xs blocks.length x) (blocks.map (fun b => b.getD t 0)) := by
  have hL : (blocks.headD []).length = L := by
    cases blocks with
    | nil => exact absurd rfl hne
    | cons b _ => exact hu b (by simp)
  unfold interpAt
  simp only [hL]
  refine ⟨?_, ?_⟩
  · by_cases hz : L = 0
    · subst hz
      -- every block is empty: all intermediate results are empty
      have : ∀ (l : List (Block × Nat)) (acc : Block), acc.length = 0 →
          (l.foldl (fun acc p => xorBlock acc (p.1.map (gfMul (lagrangeCoeff xs p.2 x)))) acc).length = 0 := by
        intro l
        induction l with
        | nil => intro acc h; simpa using h
        | cons p r ih => intro acc h; simp only [List.foldl_cons]; apply ih; simp [xorBlock, h]
      exact this _ _ (by simp)
    · exact (interp_fold (fun j => lagrangeCoeff xs j x) L 0 (by omega) blocks 0 (List.replicate L 0) List.length_replicate hu).1
  · intro t ht
    have h := (interp_fold (fun j => lagrangeCoeff xs j x) L t ht blocks 0 (List.replicate L 0) List.length_replicate hu).2
    rw [h]
    simp [gfDot, coeffRow, List.range_eq_range', ht]

end Tahoe.Codec
