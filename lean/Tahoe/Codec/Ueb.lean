import Tahoe.Base.Netstring
/-
URI extension block packing (`allmydata/uri.py` `pack_extension` / `unpack_extension`), Mathlib-free.

A dictionary is an association list `List (Bytes × Val)` (keys as UTF-8 bytes).  `pack` sorts the
keys, renders integers with `%d`, asserts the key pattern `^[a-zA-Z_\-]+$` (which, as `re.match`
without `re.M` does, tolerates one trailing newline) and emits `key ":" netstring(value)`.

`unpack cfg` mirrors the `while data:` loop.  `cfg` selects, for each place where the code is lenient,
the behaviour: `cfg.len`/`cfg.intVal` are the parsers used for the length field and for the values of
the five integer keys (`pyInt` = what `int()` does; `strictLen`/`strictInt` = canonical decimal), and
`cfg.rejectDup` makes a repeated key an error instead of "last one wins".
`asIs` = the code as it is; `strict` = with the canonical checks.
-/
namespace Tahoe.Codec.Ueb
open Tahoe.Base Tahoe.Base.Netstring

inductive Val where
  | int (n : Int)
  | bytes (b : Bytes)
  deriving DecidableEq, Repr

abbrev Dict := List (Bytes × Val)

inductive Err where
  | value | assertion
  deriving DecidableEq, Repr

/-- lexicographic order on byte strings (Python `sorted` on the keys) -/
def bytesLt : Bytes → Bytes → Bool
  | [], [] => false
  | [], _ :: _ => true
  | _ :: _, [] => false
  | x :: xs, y :: ys => x.toNat < y.toNat || (x == y && bytesLt xs ys)

def insertSorted (e : Bytes × Val) : Dict → Dict
  | [] => [e]
  | f :: fs => if bytesLt e.1 f.1 then e :: f :: fs else f :: insertSorted e fs

def sortDict (d : Dict) : Dict := d.foldr insertSorted []

def isKeyChar (c : UInt8) : Bool :=
  (65 ≤ c.toNat && c.toNat ≤ 90) || (97 ≤ c.toNat && c.toNat ≤ 122) || c.toNat == 95 || c.toNat == 45

/-- `re.match(br'^[a-zA-Z_\-]+$', k)` -/
def keyOk (k : Bytes) : Bool :=
  let k' := if k.getLast? = some 10 then k.dropLast else k
  !k'.isEmpty && k'.all isKeyChar

/-- `b"%d" % n` -/
def toDecInt (n : Int) : Bytes := if n < 0 then 45 :: toDec (-n).toNat else toDec n.toNat

def valBytes : Val → Bytes
  | .int n => toDecInt n
  | .bytes b => b

def packEntry (e : Bytes × Val) : Bytes := e.1 ++ colon :: enc (valBytes e.2)

/-- `pack_extension(d)`; `none` = `AssertionError` (bad key) -/
def pack (d : Dict) : Option Bytes :=
  if d.all (fun e => keyOk e.1) then some ((sortDict d).map packEntry).flatten else none

/-! ### unpack -/

/-- strict UTF-8 validity (what `str(key, "utf-8")` accepts) -/
def utf8Ok : Nat → Bytes → Bool
  | 0, _ => true
  | _ + 1, [] => true
  | f + 1, b0 :: rest =>
    let cont (c : UInt8) : Bool := 128 ≤ c.toNat && c.toNat ≤ 191
    let n := b0.toNat
    if n < 128 then utf8Ok f rest
    else if 194 ≤ n && n ≤ 223 then
      match rest with
      | b1 :: r => cont b1 && utf8Ok f r
      | _ => false
    else if 224 ≤ n && n ≤ 239 then
      match rest with
      | b1 :: b2 :: r =>
        cont b1 && cont b2 && (n != 224 || 160 ≤ b1.toNat) && (n != 237 || b1.toNat ≤ 159) && utf8Ok f r
      | _ => false
    else if 240 ≤ n && n ≤ 244 then
      match rest with
      | b1 :: b2 :: b3 :: r =>
        cont b1 && cont b2 && cont b3 && (n != 240 || 144 ≤ b1.toNat) && (n != 244 || b1.toNat ≤ 143)
          && utf8Ok f r
      | _ => false
    else false

/-- canonical signed decimal: `0`, or an optional `-` followed by a numeral without leading zero -/
def strictInt (b : Bytes) : Option Int :=
  match b with
  | 45 :: ds => match parseDecStrict ds with
    | some n => if n = 0 then none else some (- Int.ofNat n)
    | none => none
  | ds => (parseDecStrict ds).map Int.ofNat

structure Cfg where
  len : Bytes → Option Int
  intVal : Bytes → Option Int
  rejectDup : Bool

def asIs : Cfg := ⟨pyInt, pyInt, false⟩
def strict : Cfg := ⟨strictLen, strictInt, true⟩

/-- `d[k] = v` on an association list (position of the first insertion kept, as in a Python dict) -/
def dictSet (d : List (Bytes × Bytes)) (k v : Bytes) : List (Bytes × Bytes) :=
  match d with
  | [] => [(k, v)]
  | e :: es => if e.1 = k then (k, v) :: es else e :: dictSet es k v

/-- the netstring part of one entry: `number ":" value ","` at the front of `data`.
    `data[:length]`, `data[length:length+1]` and `data[length+1:]` with Python slice semantics; a
    negative `length` indexes from the end (`-1` always fails because `data[-1:0]` is empty). -/
def parseValue (np : Bytes → Option Int) (data : Bytes) : Except Err (Bytes × Bytes) :=
  match splitAt colon data with
  | none => .error .value
  | some (number, after) =>
    match np number with
    | none => .error .value
    | some len =>
      let idx : Int := if len ≥ 0 then len else (after.length : Int) + len
      if len = -1 ∨ idx < 0 then .error .assertion
      else match after.drop idx.toNat with
        | c :: rest => if c = comma then .ok (after.take idx.toNat, rest) else .error .assertion
        | [] => .error .assertion

def loop (cfg : Cfg) : Nat → Bytes → List (Bytes × Bytes) → Except Err (List (Bytes × Bytes))
  | 0, _, d => .ok d
  | f + 1, data, d =>
    if data = [] then .ok d
    else match splitAt colon data with
      | none => .error .value
      | some (key, after) =>
        match parseValue cfg.len after with
        | .error e => .error e
        | .ok (value, rest) =>
          if !utf8Ok key.length key then .error .value          -- UnicodeDecodeError ⊂ ValueError
          else if cfg.rejectDup && d.any (fun e => e.1 == key) then .error .value
          else loop cfg f rest (dictSet d key value)

def intKeys : List Bytes :=
  [[115,105,122,101],                                             -- size
   [115,101,103,109,101,110,116,95,115,105,122,101],              -- segment_size
   [110,117,109,95,115,101,103,109,101,110,116,115],              -- num_segments
   [110,101,101,100,101,100,95,115,104,97,114,101,115],           -- needed_shares
   [116,111,116,97,108,95,115,104,97,114,101,115]]                -- total_shares

/-- "convert certain things to numbers" -/
def convert (cfg : Cfg) : List (Bytes × Bytes) → Except Err Dict
  | [] => .ok []
  | (k, v) :: rest =>
    match convert cfg rest with
    | .error e => .error e
    | .ok r =>
      if intKeys.contains k then
        match cfg.intVal v with
        | some n => .ok ((k, .int n) :: r)
        | none => .error .value
      else .ok ((k, .bytes v) :: r)

/-- `unpack_extension(data)` -/
def unpack (cfg : Cfg) (data : Bytes) : Except Err Dict :=
  match loop cfg data.length data [] with
  | .error e => .error e
  | .ok d => convert cfg d

end Tahoe.Codec.Ueb
