import Tahoe.Codec.LemmasUeb
/-! Canonicity of the URI-extension-block decoder with the canonical checks (`strict`):
    `unpack strict x = .ok d` holds exactly when `x` is the concatenation of the canonical entry
    encodings of `d` (in the order read), the keys are distinct, colon-free, valid UTF-8, and integers sit
    exactly under the integer keys.  In particular nothing may follow the last entry, and no prefix of
    a block that ends inside an entry is accepted. -/
namespace Tahoe.Codec.Ueb
open Tahoe.Base Tahoe.Base.Netstring

/-- what the decoder requires of a key on the wire: no `:` inside, valid UTF-8 -/
def KeyWire (k : Bytes) : Prop := colon ∉ k ∧ utf8Ok k.length k = true

theorem keyWire_of_strict {k : Bytes} (h : KeyStrict k) : KeyWire k :=
  ⟨colon_not_mem_key h.2,
   utf8Ok_ascii _ _ (fun c hc => (isKeyChar_facts (List.all_eq_true.mp h.2 c hc)).2)⟩

/-- generalisation of `loop_entries` to every key the wire format admits -/
theorem loop_entries_wire : ∀ (es : List (Bytes × Bytes)) (fuel : Nat) (acc : List (Bytes × Bytes)),
    (∀ e ∈ es, KeyWire e.1) → (es.map Prod.fst).Nodup → (∀ e ∈ es, ∀ a ∈ acc, a.1 ≠ e.1) →
    ((es.map rawEntry).flatten).length ≤ fuel →
    loop strict fuel (es.map rawEntry).flatten acc = .ok (acc ++ es)
  | [], fuel, acc, _, _, _, _ => by cases fuel <;> simp [loop]
  | e :: es, fuel, acc, hk, hnd, hdisj, hf => by
    have hpos := rawEntry_length_pos e
    simp only [List.map_cons, List.flatten_cons, List.length_append] at hf
    cases fuel with
    | zero => omega
    | succ f =>
      obtain ⟨k, v⟩ := e
      have hke := hk (k, v) List.mem_cons_self
      have hne : rawEntry (k, v) ++ (es.map rawEntry).flatten ≠ [] := by
        intro hc; have := congrArg List.length hc
        simp only [List.length_append, List.length_nil] at this; omega
      simp only [List.map_cons, List.flatten_cons, loop, hne, ↓reduceIte]
      have hsplit : splitAt colon (rawEntry (k, v) ++ (es.map rawEntry).flatten)
          = some (k, enc v ++ (es.map rawEntry).flatten) := by
        simp only [rawEntry, List.append_assoc, List.cons_append]
        exact splitAt_append hke.1 _
      rw [hsplit]
      simp only [strict, parseValue_enc]
      have hnew : ∀ a ∈ acc, a.1 ≠ k := fun a ha => hdisj (k, v) List.mem_cons_self a ha
      simp only [hke.2, Bool.not_true, Bool.false_eq_true, ↓reduceIte, any_key_false acc k hnew,
        Bool.and_false, dictSet_new acc k v hnew]
      simp only [List.map_cons, List.nodup_cons] at hnd
      have := loop_entries_wire es f (acc ++ [(k, v)]) (fun x hx => hk x (List.mem_cons_of_mem _ hx)) hnd.2
        (by
          intro x hx a ha
          rcases List.mem_append.mp ha with ha | ha
          · exact hdisj x (List.mem_cons_of_mem _ hx) a ha
          · simp only [List.mem_singleton] at ha; subst ha
            intro hc
            exact hnd.1 (List.mem_map.mpr ⟨x, hx, hc.symm⟩))
        (by omega)
      simp only [strict] at this
      rw [this]; simp

/-- the netstring part of an entry is read only from a canonical netstring -/
theorem parseValue_canonical {x v r : Bytes} (h : parseValue strictLen x = .ok (v, r)) :
    x = enc v ++ r := by
  simp only [parseValue] at h
  split at h
  · simp at h
  · rename_i number after hs
    obtain ⟨hx, _⟩ := splitAt_some hs
    split at h
    · simp at h
    · rename_i len hn
      simp only [strictLen] at hn
      cases hp : parseDecStrict number with
      | none => simp [hp] at hn
      | some n =>
        simp only [hp, Option.map_some, Option.some.injEq] at hn
        subst hn
        have hdec := toDec_of_parseDecStrict hp
        have h1 : (Int.ofNat n ≥ 0) := Int.natCast_nonneg _
        have h2 : ¬ (Int.ofNat n = -1) := by omega
        have h3 : ¬ (Int.ofNat n < 0) := by omega
        have h4 : (Int.ofNat n).toNat = n := rfl
        simp only [h1, ↓reduceIte, h2, h3, or_self, h4] at h
        split at h
        · rename_i c rest hdrop
          split at h
          · rename_i hc
            simp only [Except.ok.injEq, Prod.mk.injEq] at h
            obtain ⟨rfl, rfl⟩ := h
            have hlt : n < after.length := by
              rcases Nat.lt_or_ge n after.length with hl | hl
              · exact hl
              · rw [List.drop_eq_nil_of_le hl] at hdrop; simp at hdrop
            have hlen : (after.take n).length = n := by simp; omega
            have hsplit : after = after.take n ++ c :: rest := by
              rw [← hdrop, List.take_append_drop]
            rw [hx, enc, hlen, hdec]
            conv => lhs; rw [hsplit, hc]
            simp
          · simp at h
        · simp at h

theorem dictSet_keys_nodup {acc : List (Bytes × Bytes)} {k v : Bytes}
    (hacc : (acc.map Prod.fst).Nodup) (hnew : ∀ a ∈ acc, a.1 ≠ k) :
    ((acc ++ [(k, v)]).map Prod.fst).Nodup := by
  simp only [List.map_append, List.map_cons, List.map_nil]
  refine List.nodup_append.mpr ⟨hacc, by simp, ?_⟩
  intro a ha b hb
  simp only [List.mem_singleton] at hb
  subst hb
  obtain ⟨x, hx, rfl⟩ := List.mem_map.mp ha
  exact hnew x hx

/-- **loop canonicity**: whatever the loop accepts is a concatenation of canonical entries -/
theorem loop_canonical : ∀ (fuel : Nat) (data : Bytes) (acc d : List (Bytes × Bytes)),
    data.length ≤ fuel → (acc.map Prod.fst).Nodup → loop strict fuel data acc = .ok d →
    ∃ es, d = acc ++ es ∧ data = (es.map rawEntry).flatten ∧ (∀ e ∈ es, KeyWire e.1) ∧
      (d.map Prod.fst).Nodup
  | 0, data, acc, d, hf, hacc, h => by
    have : data = [] := List.eq_nil_of_length_eq_zero (by omega)
    subst this
    simp only [loop, Except.ok.injEq] at h
    subst h
    exact ⟨[], by simp, rfl, by simp, hacc⟩
  | f + 1, data, acc, d, hf, hacc, h => by
    simp only [loop] at h
    split at h
    · rename_i hnil
      simp only [Except.ok.injEq] at h
      subst h; subst hnil
      exact ⟨[], by simp, rfl, by simp, hacc⟩
    · split at h
      · simp at h
      · rename_i key after hs
        obtain ⟨hdata, hkc⟩ := splitAt_some hs
        split at h
        · simp at h
        · rename_i value rest hpv
          simp only [strict] at hpv
          have hafter := parseValue_canonical hpv
          split at h
          · simp at h
          · rename_i hutf
            split at h
            · simp at h
            · rename_i hdup
              simp only [strict, Bool.true_and, Bool.not_eq_true, List.any_eq_false, beq_iff_eq] at hdup
              simp only [Bool.not_eq_true', Bool.not_eq_false] at hutf
              have hnew : ∀ a ∈ acc, a.1 ≠ key := by
                intro a ha; exact hdup a ha
              rw [dictSet_new acc key value hnew] at h
              have hlen : rest.length ≤ f := by
                have := congrArg List.length hdata
                rw [hafter] at this
                simp only [List.length_append, List.length_cons] at this
                omega
              obtain ⟨es, hd, hrest, hkeys, hnd⟩ :=
                loop_canonical f rest (acc ++ [(key, value)]) d hlen (dictSet_keys_nodup hacc hnew) h
              refine ⟨(key, value) :: es, by rw [hd]; simp, ?_, ?_, hnd⟩
              · rw [hdata, hafter, hrest]
                simp [rawEntry]
              · intro e he
                rcases List.mem_cons.mp he with rfl | he
                · exact ⟨hkc, hutf⟩
                · exact hkeys e he

theorem strictInt_canonical {b : Bytes} {n : Int} (h : strictInt b = some n) : toDecInt n = b := by
  unfold strictInt at h
  split at h
  · rename_i ds
    cases hp : parseDecStrict ds with
    | none => simp [hp] at h
    | some m =>
      simp only [hp] at h
      split at h
      · simp at h
      · rename_i hm
        simp only [Option.some.injEq] at h
        subst h
        have hdec := toDec_of_parseDecStrict hp
        have hneg : (-Int.ofNat m) < 0 := by
          simp only [Int.ofNat_eq_natCast]; omega
        have hnat : (- -Int.ofNat m).toNat = m := by
          simp only [Int.neg_neg]; rfl
        simp only [toDecInt, hneg, ↓reduceIte, hnat, hdec]
  · rename_i hnot
    cases hp : parseDecStrict b with
    | none => simp [hp] at h
    | some m =>
      simp only [hp, Option.map_some, Option.some.injEq] at h
      subst h
      have hdec := toDec_of_parseDecStrict hp
      have hnn : ¬ (Int.ofNat m < 0) := by
        simp only [Int.ofNat_eq_natCast]; omega
      have hnat : (Int.ofNat m).toNat = m := rfl
      simp only [toDecInt, hnn, ↓reduceIte, hnat, hdec]

theorem convert_canonical : ∀ (raw : List (Bytes × Bytes)) (d : Dict), convert strict raw = .ok d →
    raw = d.map (fun e => (e.1, valBytes e.2)) ∧ ∀ e ∈ d, Typed e
  | [], d, h => by
    simp only [convert, Except.ok.injEq] at h
    subst h; exact ⟨rfl, by simp⟩
  | (k, v) :: rest, d, h => by
    simp only [convert] at h
    split at h
    · simp at h
    · rename_i r hr
      obtain ⟨ih1, ih2⟩ := convert_canonical rest r hr
      split at h
      · rename_i hik
        split at h
        · rename_i n hn
          simp only [Except.ok.injEq] at h
          subst h
          simp only [strict] at hn
          refine ⟨by simp [valBytes, strictInt_canonical hn, ih1], ?_⟩
          intro e he
          rcases List.mem_cons.mp he with rfl | he
          · exact ⟨fun _ => ⟨n, rfl⟩, fun hc => by
              have : intKeys.contains k = false := hc
              rw [hik] at this; cases this⟩
          · exact ih2 e he
        · simp at h
      · rename_i hik
        simp only [Except.ok.injEq] at h
        subst h
        refine ⟨by simp [valBytes, ih1], ?_⟩
        intro e he
        rcases List.mem_cons.mp he with rfl | he
        · exact ⟨fun hc => absurd (show intKeys.contains k = true from hc) hik, fun _ => ⟨v, rfl⟩⟩
        · exact ih2 e he

/-- **canonicity of `unpack_extension`** (with the canonical checks) -/
theorem unpack_canonical {x : Bytes} {d : Dict} (h : unpack strict x = .ok d) :
    x = (d.map packEntry).flatten ∧ (d.map Prod.fst).Nodup ∧ (∀ e ∈ d, KeyWire e.1) ∧ (∀ e ∈ d, Typed e) := by
  simp only [unpack] at h
  split at h
  · simp at h
  · rename_i raw hl
    obtain ⟨es, hes, hx, hkeys, hnd⟩ := loop_canonical x.length x [] raw (Nat.le_refl _) (by simp) hl
    simp only [List.nil_append] at hes
    subst hes
    obtain ⟨hraw, htyped⟩ := convert_canonical raw d h
    refine ⟨?_, ?_, ?_, htyped⟩
    · rw [hx, hraw, List.map_map]; rfl
    · rw [hraw] at hnd
      simpa [List.map_map, Function.comp_def] using hnd
    · intro e he
      have : (e.1, valBytes e.2) ∈ raw := by rw [hraw]; exact List.mem_map.mpr ⟨e, he, rfl⟩
      exact hkeys _ this

/-- entries with wire-admissible keys are read back (converse direction, generalising `unpack_entries`) -/
theorem unpack_entries_wire (es : Dict) (hk : ∀ e ∈ es, KeyWire e.1) (hnd : (es.map Prod.fst).Nodup)
    (ht : ∀ e ∈ es, Typed e) :
    unpack strict ((es.map packEntry).flatten) = .ok es := by
  have hraw : es.map packEntry = (es.map (fun e => (e.1, valBytes e.2))).map rawEntry := by
    simp [List.map_map, packEntry, rawEntry, Function.comp_def]
  have hl := loop_entries_wire (es.map (fun e => (e.1, valBytes e.2)))
    ((es.map packEntry).flatten).length []
    (by intro e he; simp only [List.mem_map] at he; obtain ⟨x, hx, rfl⟩ := he; exact hk x hx)
    (by simpa [List.map_map, Function.comp_def] using hnd)
    (by intro _ _ a ha; simp at ha)
    (by rw [hraw]; exact Nat.le_refl _)
  rw [← hraw] at hl
  simp only [unpack, hl, List.nil_append]
  exact convert_entries es ht

/-- **the decoder accepts exactly the image of the entry encoder** -/
theorem unpack_iff (x : Bytes) (d : Dict) :
    unpack strict x = .ok d ↔
      (x = (d.map packEntry).flatten ∧ (d.map Prod.fst).Nodup ∧ (∀ e ∈ d, KeyWire e.1) ∧ (∀ e ∈ d, Typed e)) :=
  ⟨unpack_canonical, fun ⟨hx, hnd, hk, ht⟩ => hx ▸ unpack_entries_wire d hk hnd ht⟩

/-- a decoded block whose entries came out in key order with keys of the documented pattern is
    byte-for-byte what `pack_extension` produces for the decoded dictionary -/
theorem pack_of_unpack {x : Bytes} {d : Dict} (h : unpack strict x = .ok d) (hs : sortDict d = d)
    (hk : ∀ e ∈ d, KeyStrict e.1) : pack d = some x := by
  have hx := (unpack_canonical h).1
  have : d.all (fun e => keyOk e.1) = true :=
    List.all_eq_true.mpr (fun e he => keyOk_of_strict (hk e he))
  simp [pack, this, hs, hx]

end Tahoe.Codec.Ueb
