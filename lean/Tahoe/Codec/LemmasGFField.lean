import Tahoe.Codec.LemmasGF
import Mathlib.Algebra.Field.MinimalAxioms
/-! The model's GF(2^8) bytes as a Mathlib `Field`: carrier `GF` (= `UInt8`), addition = XOR,
multiplication = `gfMul`, inverse = `gfInv`; the axioms are the structurally proved laws of
`LemmasGF`. Proof-side only (imports one Mathlib module); the model and driver do not see it. -/
namespace Tahoe.Codec

/-- bytes, read as elements of GF(2^8) -/
def GF : Type := UInt8

namespace GF

instance : DecidableEq GF := inferInstanceAs (DecidableEq UInt8)
instance : Add GF := ⟨fun a b => UInt8.xor a b⟩
instance : Zero GF := ⟨(0 : UInt8)⟩
instance : One GF := ⟨(1 : UInt8)⟩
instance : Neg GF := ⟨fun a => a⟩
instance : Mul GF := ⟨fun a b => gfMul a b⟩
instance : Inv GF := ⟨fun a => gfInv a⟩

/-- read a byte as a field element / back (both are the identity function) -/
def of (a : UInt8) : GF := a
def val (a : GF) : UInt8 := a

theorem of_val (a : GF) : of (val a) = a := rfl
theorem val_of (a : UInt8) : val (of a) = a := rfl
theorem add_def (a b : UInt8) : of a + of b = of (a ^^^ b) := rfl
theorem mul_def (a b : UInt8) : of a * of b = of (gfMul a b) := rfl
theorem inv_def (a : UInt8) : (of a)⁻¹ = of (gfInv a) := rfl
theorem zero_def : (0 : GF) = of 0 := rfl
theorem one_def : (1 : GF) = of 1 := rfl
theorem neg_def (a : GF) : -a = a := rfl

instance instField : Field GF :=
  Field.ofMinimalAxioms GF
    (fun a b c => UInt8.xor_assoc (val a) (val b) (val c))
    (fun a => UInt8.zero_xor (a := val a))
    (fun a => UInt8.xor_self (a := val a))
    (fun a b c => gfMul_assoc (val a) (val b) (val c))
    (fun a b => gfMul_comm (val a) (val b))
    (fun a => gfMul_one_left (val a))
    (fun a ha => gfMul_inv (val a) ha)
    (by show gfInv (0 : UInt8) = (0 : UInt8); decide +kernel)
    (fun a b c => gfMul_xor_right (val a) (val b) (val c))
    ⟨of 0, of 1, by show (0 : UInt8) ≠ 1; decide⟩

theorem sub_def (a b : UInt8) : of a - of b = of (a ^^^ b) := by
  rw [sub_eq_add_neg, neg_def]; rfl

end GF
end Tahoe.Codec
