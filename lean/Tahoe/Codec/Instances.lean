import Tahoe.Codec.Lemmas
import Mathlib.Data.Finset.Card
/-! Proved instances of the `MDS` assumption (non-vacuity of C36's hypothesis):
replication (`k = 1`, every `n`), identity (`k = n`, every `k`), single XOR parity 2-of-3.
Proof file (imports one Mathlib module for the pigeonhole step); not used by the driver. -/
namespace Tahoe.Codec

/-- pigeonhole: `k` distinct numbers below `k` are all the numbers below `k` -/
theorem mem_of_nodup_bounded {k : Nat} {l : List Nat} (hnd : l.Nodup) (hlen : l.length = k)
    (hb : ∀ x ∈ l, x < k) {j : Nat} (hj : j < k) : j ∈ l := by
  have hsub : l.toFinset ⊆ Finset.range k := by
    intro x hx
    simp only [List.mem_toFinset] at hx
    simpa using hb x hx
  have hcard : l.toFinset.card = k := by rw [List.toFinset_card_of_nodup hnd, hlen]
  have heq := Finset.eq_of_subset_of_card_le hsub (by simp [hcard])
  have : j ∈ l.toFinset := by rw [heq]; simpa using hj
  simpa using this

/-- looking up an id that occurs in a duplicate-free selection returns its block -/
theorem lookupBlock_of_mem {sel : List (Nat × Block)} (hnd : (sel.map (·.1)).Nodup)
    {p : Nat × Block} (hp : p ∈ sel) :
    lookupBlock (sel.map (·.2)) (sel.map (·.1)) p.1 = some p.2 := by
  induction sel with
  | nil => cases hp
  | cons q rest ih =>
    simp only [List.map_cons, List.nodup_cons] at hnd
    simp only [lookupBlock, List.map_cons, List.zip_cons_cons, List.find?_cons]
    rcases List.mem_cons.mp hp with h | h
    · subst h; simp
    · have hne : (q.1 == p.1) = false := by
        have : q.1 ≠ p.1 := fun e => hnd.1 (e ▸ List.mem_map_of_mem h)
        simpa using this
      simp only [hne]
      exact ih hnd.2 h

theorem lookupBlock_none {sel : List (Nat × Block)} {j : Nat} (hj : j ∉ sel.map (·.1)) :
    lookupBlock (sel.map (·.2)) (sel.map (·.1)) j = none := by
  induction sel with
  | nil => rfl
  | cons q rest ih =>
    simp only [List.map_cons, List.mem_cons, not_or] at hj
    have hne : (q.1 == j) = false := by simpa using fun e => hj.1 e.symm
    simp only [lookupBlock, List.map_cons, List.zip_cons_cons, List.find?_cons, hne]
    exact ih hj.2

/-! ### replication -/

theorem replication_mds (n : Nat) : MDS (replication n) 1 n where
  enc_length := by intro L d _ _; simp [replication]
  enc_uniform := by
    intro L d hd hu b hb
    match d, hd with
    | [x], _ =>
      simp only [replication, List.headD_cons, List.mem_replicate] at hb
      rw [hb.2]; exact hu x (by simp)
  recover := by
    intro L d hd _ sel hsel _ hgen
    match d, hd, sel, hsel with
    | [x], _, [p], _ =>
      have h := hgen p (by simp)
      simp only [replication, List.headD_cons, List.getElem?_replicate] at h
      split at h
      · simp only [Option.some.injEq] at h
        simp [replication, ← h]
      · cases h

/-! ### identity -/

theorem identity_mds (k : Nat) : MDS (identityCode k) k k where
  enc_length := by intro L d hd _; exact hd
  enc_uniform := by intro L d _ hu; exact hu
  recover := by
    intro L d hd _ sel hsel hnd hgen
    simp only [identityCode] at hgen ⊢
    apply List.ext_getElem
    · simp [hd]
    · intro j h1 h2
      simp only [List.length_map, List.length_range] at h1
      have hb : ∀ x ∈ sel.map (·.1), x < k := by
        intro x hx
        obtain ⟨p, hp, rfl⟩ := List.mem_map.mp hx
        have := hgen p hp
        have hlt : p.1 < d.length := by
          rcases Nat.lt_or_ge p.1 d.length with h | h
          · exact h
          · rw [List.getElem?_eq_none h] at this; cases this
        omega
      have hmem := mem_of_nodup_bounded hnd (by simpa using hsel) hb h1
      obtain ⟨p, hp, hpj⟩ := List.mem_map.mp hmem
      have hl := lookupBlock_of_mem hnd hp
      have hg := hgen p hp
      simp only [hpj] at hl hg
      simp only [List.getElem_map, List.getElem_range, hl, Option.getD_some]
      rw [List.getElem?_eq_getElem h2] at hg
      exact (Option.some.inj hg).symm

/-! ### XOR parity, 2-of-3 -/

theorem xorBlock_cancel_left : ∀ (a b : Block), a.length = b.length → xorBlock a (xorBlock a b) = b
  | [], [], _ => rfl
  | x :: a, y :: b, h => by
    have ih := xorBlock_cancel_left a b (by simpa using h)
    simp only [xorBlock, List.zipWith_cons_cons] at ih ⊢
    rw [ih, ← UInt8.xor_assoc, UInt8.xor_self, UInt8.zero_xor]

theorem xorBlock_comm (a b : Block) : xorBlock a b = xorBlock b a := by
  simp only [xorBlock]
  rw [List.zipWith_comm]
  congr 1; funext x y; exact UInt8.xor_comm y x

theorem length_xorBlock (a b : Block) (h : a.length = b.length) : (xorBlock a b).length = a.length := by
  simp [xorBlock, h]

theorem xorParity2_mds : MDS (xorParity 2) 2 3 where
  enc_length := by intro L d hd _; simp [xorParity, hd]
  enc_uniform := by
    intro L d hd hu
    match d, hd with
    | [a, b], _ =>
      have ha := hu a (by simp)
      have hb := hu b (by simp)
      intro x hx
      simp only [xorParity, List.tail_cons, List.headD_cons, List.foldl_cons, List.foldl_nil,
        List.cons_append, List.nil_append, List.mem_cons, List.not_mem_nil, or_false] at hx
      rcases hx with rfl | rfl | rfl
      · exact ha
      · exact hb
      · rw [length_xorBlock _ _ (by omega)]; exact ha
  recover := by
    intro L d hd hu sel hsel hnd hgen
    match d, hd, sel, hsel with
    | [a, b], _, [p, q], _ =>
      have hab : a.length = b.length := by rw [hu a (by simp), hu b (by simp)]
      have hp := hgen p (by simp)
      have hq := hgen q (by simp)
      obtain ⟨i, x⟩ := p
      obtain ⟨j, y⟩ := q
      simp only [xorParity, List.tail_cons, List.headD_cons, List.foldl_cons, List.foldl_nil,
        List.cons_append, List.nil_append] at hp hq
      simp only [List.map_cons, List.map_nil, List.nodup_cons, List.mem_cons, List.not_mem_nil,
        or_false, not_false_eq_true, List.nodup_nil, and_true] at hnd
      have hi : i < 3 := by
        rcases Nat.lt_or_ge i 3 with h | h
        · exact h
        · rw [List.getElem?_eq_none (by simpa using h)] at hp; cases hp
      have hj : j < 3 := by
        rcases Nat.lt_or_ge j 3 with h | h
        · exact h
        · rw [List.getElem?_eq_none (by simpa using h)] at hq; cases hq
      have c1 := xorBlock_cancel_left a b hab
      have c2 : xorBlock (xorBlock a b) a = b := by rw [xorBlock_comm]; exact c1
      have c3 : xorBlock b (xorBlock a b) = a := by
        rw [xorBlock_comm a b]; exact xorBlock_cancel_left b a hab.symm
      have c4 : xorBlock (xorBlock a b) b = a := by rw [xorBlock_comm]; exact c3
      match i, j, hi, hj with
      | 0, 0, _, _ => exact absurd rfl hnd
      | 1, 1, _, _ => exact absurd rfl hnd
      | 2, 2, _, _ => exact absurd rfl hnd
      | 0, 1, _, _ | 1, 0, _, _ | 0, 2, _, _ | 2, 0, _, _ | 1, 2, _, _ | 2, 1, _, _ =>
        simp at hp hq
        subst hp; subst hq
        simp [xorParity, lookupBlock, List.range, List.range.loop, c1, c2, c3, c4]

end Tahoe.Codec
