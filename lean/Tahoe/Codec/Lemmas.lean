import Tahoe.Codec.Model
/-! Helper lemmas for C36: size arithmetic, chopping / joining, the decoder's truncation. -/
namespace Tahoe.Codec

/-! ### arithmetic -/

theorem divCeil_eq_of_dvd {n k : Nat} (h : n % k = 0) : divCeil n k = n / k := by
  simp [divCeil, h]

theorem divCeil_eq_succ {n k : Nat} (h : n % k ≠ 0) : divCeil n k = n / k + 1 := by
  simp [divCeil, h]

theorem le_divCeil_mul (n k : Nat) (hk : 0 < k) : n ≤ divCeil n k * k := by
  have h1 := Nat.div_add_mod n k
  have h2 := Nat.mod_lt n hk
  by_cases h : n % k = 0
  · rw [divCeil_eq_of_dvd h, Nat.mul_comm]; omega
  · rw [divCeil_eq_succ h, Nat.succ_mul, Nat.mul_comm]; omega

theorem divCeil_mul_lt (n k : Nat) (hk : 0 < k) : divCeil n k * k < n + k := by
  have h1 := Nat.div_add_mod n k
  have h2 := Nat.mod_lt n hk
  by_cases h : n % k = 0
  · rw [divCeil_eq_of_dvd h, Nat.mul_comm]; omega
  · rw [divCeil_eq_succ h, Nat.succ_mul, Nat.mul_comm]; omega

theorem divCeil_mul_self (q k : Nat) (hk : 0 < k) : divCeil (q * k) k = q := by
  rw [divCeil_eq_of_dvd (Nat.mul_mod_left q k), Nat.mul_div_cancel _ hk]

theorem nextMultiple_mod (n k : Nat) : nextMultiple n k % k = 0 := by
  simp [nextMultiple, Nat.mul_mod_left]

theorem divCeil_nextMultiple (n k : Nat) (hk : 0 < k) :
    divCeil (nextMultiple n k) k = divCeil n k := divCeil_mul_self _ k hk

theorem nextMultiple_div (n k : Nat) (hk : 0 < k) : nextMultiple n k / k = divCeil n k := by
  simp [nextMultiple, Nat.mul_div_cancel _ hk]

theorem nextMultiple_of_dvd {n k : Nat} (h : n % k = 0) : nextMultiple n k = n := by
  rw [nextMultiple, divCeil_eq_of_dvd h]; exact Nat.div_mul_cancel (Nat.dvd_of_mod_eq_zero h)

theorem divCeil_pos {n k : Nat} (hn : 0 < n) (hk : 0 < k) : 0 < divCeil n k := by
  have := le_divCeil_mul n k hk
  rcases Nat.eq_zero_or_pos (divCeil n k) with h | h
  · rw [h] at this; omega
  · exact h

theorem tailSizeOf_pos {f s : Nat} (hs : 0 < s) : 0 < tailSizeOf f s := by
  unfold tailSizeOf; split <;> omega

theorem tailSizeOf_le {f s : Nat} (hs : 0 < s) : tailSizeOf f s ≤ s := by
  unfold tailSizeOf; split
  · omega
  · exact Nat.le_of_lt (Nat.mod_lt _ hs)

/-! ### padding, slicing, chopping -/

theorem length_padTo (len : Nat) (d : Block) (h : d.length ≤ len) : (padTo len d).length = len := by
  simp [padTo]; omega

theorem padTo_of_le (len : Nat) (d : Block) (h : len ≤ d.length) : padTo len d = d := by
  simp [padTo, Nat.sub_eq_zero_of_le h]

theorem take_padTo (len : Nat) (d : Block) : (padTo len d).take d.length = d := by
  simp [padTo]

theorem length_slice_le (data : Block) (off ps : Nat) : (slice data off ps).length ≤ ps := by
  simp [slice]; omega

theorem length_chop (k ps : Nat) (data : Block) : (chop k ps data).length = k := by
  simp [chop]

theorem uniform_chop (k ps : Nat) (data : Block) : Uniform ps (chop k ps data) := by
  intro b hb
  simp only [chop, List.mem_map] at hb
  obtain ⟨i, _, rfl⟩ := hb
  exact length_padTo _ _ (length_slice_le _ _ _)

theorem chop_succ (k ps : Nat) (data : Block) :
    chop (k + 1) ps data = padTo ps (data.take ps) :: chop k ps (data.drop ps) := by
  simp only [chop, List.range_succ_eq_map, List.map_cons, List.map_map, slice]
  congr 1
  · simp
  · apply List.map_congr_left
    intro i _
    simp only [Function.comp, List.drop_drop]
    rw [Nat.succ_mul, Nat.add_comm ps]

/-- joining the `k` zero-padded pieces gives the segment zero-padded to `k * ps` -/
theorem join_chop (k ps : Nat) : ∀ data : Block, data.length ≤ k * ps →
    join (chop k ps data) = padTo (k * ps) data := by
  induction k with
  | zero =>
    intro data h
    have : data = [] := List.eq_nil_of_length_eq_zero (by omega)
    subst this; simp [chop, join, padTo]
  | succ k ih =>
    intro data h
    rw [chop_succ]
    have ih' := ih (data.drop ps) (by rw [List.length_drop, Nat.succ_mul] at *; omega)
    simp only [join, List.flatten_cons] at *
    rw [ih']
    rw [Nat.succ_mul] at *
    by_cases hl : ps ≤ data.length
    · have h1 : padTo ps (List.take ps data) = List.take ps data :=
        padTo_of_le _ _ (by simp [List.length_take]; omega)
      rw [h1]
      simp only [padTo, List.length_drop]
      rw [← List.append_assoc, List.take_append_drop]
      congr 2; omega
    · have h2 : List.drop ps data = [] := List.drop_eq_nil_of_le (by omega)
      have h3 : List.take ps data = data := List.take_of_length_le (by omega)
      rw [h2, h3]
      simp only [padTo, List.length_nil, List.nil_append, List.append_assoc, List.replicate_append_replicate]
      congr 2; omega

/-- on data that already has `k * ps` bytes the immutable slicing and the mutable chopping agree -/
theorem sliceChunks_eq_chop (k ps : Nat) (P : Block) (hps : 0 < ps) (hP : P.length = k * ps) :
    sliceChunks ps P = chop k ps P := by
  simp only [sliceChunks, chop, hP, divCeil_mul_self k ps hps]
  apply List.map_congr_left
  intro i hi
  have hi' : i < k := by simpa using hi
  have h1 : (i + 1) * ps ≤ k * ps := Nat.mul_le_mul_right ps hi'
  rw [Nat.succ_mul] at h1
  exact (padTo_of_le _ _ (by simp [slice, List.length_take, List.length_drop, hP]; omega)).symm

theorem join_chop_full (k ps : Nat) (P : Block) (hP : P.length = k * ps) :
    join (chop k ps P) = P := by
  rw [join_chop k ps P (by omega), padTo_of_le _ _ (by omega)]

/-! ### truncation of the supplied blocks to the first `k` -/

theorem recover_take {c : Code} {k n : Nat} (h : MDS c k n) (L : Nat) (d : List Block)
    (hd : d.length = k) (hu : Uniform L d) (sel : List (Nat × Block)) (hlen : k ≤ sel.length)
    (hnd : (sel.map (·.1)).Nodup) (hgen : ∀ p ∈ sel, (c.enc d)[p.1]? = some p.2) :
    c.dec ((sel.map (·.2)).take k) ((sel.map (·.1)).take k) = d := by
  rw [← List.map_take, ← List.map_take]
  apply h.recover L d hd hu (sel.take k)
  · simp [List.length_take]; omega
  · rw [List.map_take]; exact hnd.sublist (List.take_sublist _ _)
  · intro p hp; exact hgen p (List.mem_of_mem_take hp)

/-! ### codec.py succeeds on well-formed calls -/

theorem zfecParamsOk_of {k n : Nat} (hk : 0 < k) (hkn : k ≤ n) (hn : n ≤ 256) : zfecParamsOk k n = true := by
  simp [zfecParamsOk]; omega

theorem encSetParams_ok (dataSize : Nat) {k n : Nat} (hk : 0 < k) (hkn : k ≤ n) (hn : n ≤ 256) :
    encSetParams dataSize k n = .ok { dataSize := dataSize, k := k, n := n, shareSize := divCeil dataSize k,
                                      lastSharePadding := padSize (divCeil dataSize k) k } := by
  have h1 : ¬ k > n := by omega
  have h2 : k ≠ 0 := by omega
  simp [encSetParams, h1, h2, zfecParamsOk_of hk hkn hn]

theorem decSetParams_ok (dataSize : Nat) {k n : Nat} (hk : 0 < k) (hkn : k ≤ n) (hn : n ≤ 256) :
    decSetParams dataSize k n = .ok { dataSize := dataSize, k := k, n := n, chunkSize := k,
                                      numChunks := divCeil dataSize k, shareSize := divCeil dataSize k } := by
  have h2 : k ≠ 0 := by omega
  simp [decSetParams, h2, zfecParamsOk_of hk hkn hn]

theorem encEncode_ok (fec : Nat → Nat → Code) (p : EncParams) (d : List Block)
    (hd : d.length = p.k) (hu : Uniform p.shareSize d) :
    encEncode fec p d = .ok ((fec p.k p.n).enc d, List.range p.n) := by
  have h1 : (d.any fun s => s.length != p.shareSize) = false := by
    simp only [List.any_eq_false, bne_iff_ne, ne_eq, Decidable.not_not]
    exact hu
  simp [encEncode, h1, hd]

theorem decDecode_ok (fec : Nat → Nat → Code) (p : DecParams) (shares : List Block) (ids : List Nat)
    (h1 : shares.length = ids.length) (h2 : shares.length = p.k) :
    decDecode fec p shares ids = .ok ((fec p.k p.n).dec shares ids) := by
  have h3 : ids.length = p.k := by omega
  simp [decDecode, h1, h3]

/-- `_gather_data` on a read of at most `k * ps` bytes (exactly that many unless `allow_short`) -/
theorem gatherData_ok (k ps : Nat) (allowShort : Bool) (data : Block) (hps : 0 < ps)
    (hle : data.length ≤ k * ps) (hshort : allowShort = true ∨ data.length = k * ps) :
    gatherData k ps allowShort data = .ok (chop k ps (padTo (k * ps) data)) := by
  have h0 : ps ≠ 0 := by omega
  have h1 : ¬ data.length > k * ps := by omega
  have hP : (padTo (k * ps) data).length = k * ps := length_padTo _ _ hle
  have hd' : (if (allowShort && decide (data.length < k * ps)) = true then padTo (k * ps) data else data)
      = padTo (k * ps) data := by
    split
    · rfl
    · rename_i hc
      have : k * ps ≤ data.length := by
        rcases hshort with h | h
        · simp [h] at hc; exact hc
        · omega
      exact (padTo_of_le _ _ this).symm
  have h2 : (!allowShort && data.length != k * ps) = false := by
    rcases hshort with h | h
    · simp [h]
    · simp [h]
  simp only [gatherData, h1, h2, hd', h0, if_false, Bool.false_eq_true]
  rw [sliceChunks_eq_chop k ps _ hps hP]

theorem mem_of_getElem?_eq_some {α : Type} {l : List α} {i : Nat} {a : α} (h : l[i]? = some a) : a ∈ l :=
  List.mem_of_getElem? h

/-! ### mutable publish / retrieve setups -/

theorem encSetParams_inv {ds k n : Nat} {p : EncParams} (h : encSetParams ds k n = .ok p) :
    p = { dataSize := ds, k := k, n := n, shareSize := divCeil ds k,
          lastSharePadding := padSize (divCeil ds k) k } := by
  unfold encSetParams at h
  split at h
  · cases h
  · split at h
    · cases h
    · split at h
      · cases h
      · cases h; rfl

theorem decSetParams_inv {ds k n : Nat} {p : DecParams} (h : decSetParams ds k n = .ok p) :
    p = { dataSize := ds, k := k, n := n, chunkSize := k, numChunks := divCeil ds k,
          shareSize := divCeil ds k } := by
  unfold decSetParams at h
  split at h
  · cases h
  · split at h
    · cases h
    · cases h; rfl

theorem mutPublishSetup_spec {seg0 dl k n : Nat} {e : MutEncoder}
    (h : mutPublishSetup seg0 dl k n = .ok e) :
    e.k = k ∧ e.segSize = nextMultiple seg0 k ∧
    e.numSegments = (if e.segSize != 0 then divCeil dl e.segSize else 0) ∧
    e.tailSegSize = mutTailSize e.segSize dl ∧
    e.fec.k = k ∧ e.fec.n = n ∧ e.fec.shareSize = divCeil e.segSize k ∧
    e.tailFec.k = k ∧ e.tailFec.n = n ∧ e.tailFec.shareSize = divCeil e.tailSegSize k := by
  unfold mutPublishSetup at h
  split at h
  · cases h
  · simp only at h
    split at h
    · cases h
    · rename_i fec hfec
      have hf := encSetParams_inv hfec
      split at h
      · cases h
      · rename_i tf htf
        cases h
        split at htf
        · rename_i hts
          cases htf; subst hf
          refine ⟨rfl, rfl, rfl, rfl, rfl, rfl, rfl, rfl, rfl, ?_⟩
          simp only [hts]
        · have ht := encSetParams_inv htf
          subst hf; subst ht
          exact ⟨rfl, rfl, rfl, rfl, rfl, rfl, rfl, rfl, rfl, rfl⟩

theorem mutPublishSetup_ok (seg0 dl : Nat) {k n : Nat} (hk : 0 < k) (hkn : k ≤ n) (hn : n ≤ 256) :
    ∃ e, mutPublishSetup seg0 dl k n = .ok e := by
  have hk0 : k ≠ 0 := by omega
  simp only [mutPublishSetup, hk0, if_false, encSetParams_ok _ hk hkn hn]
  by_cases h : mutTailSize (nextMultiple seg0 k) dl = nextMultiple seg0 k
  · simp only [h, if_true]; exact ⟨_, rfl⟩
  · simp only [h, if_false]; exact ⟨_, rfl⟩

theorem mutTailDataSize_eq (segSize dl : Nat) : mutTailDataSize segSize dl = mutTailSize segSize dl := by
  simp only [mutTailSize, mutTailDataSize]
  by_cases h1 : segSize = 0 <;> by_cases h2 : dl = 0 <;> simp [h1, h2]

theorem mutRetrieveSetup_spec {segSize dl k n : Nat} {d : MutDecoder}
    (h : mutRetrieveSetup segSize dl k n = .ok d) :
    d.k = k ∧ d.segSize = segSize ∧
    d.numSegments = (if dl != 0 && segSize != 0 then divCeil dl segSize else 0) ∧
    d.tailDataSize = mutTailSize segSize dl ∧
    d.segDecoder.k = k ∧ d.segDecoder.n = n ∧ d.tailDecoder.k = k ∧ d.tailDecoder.n = n := by
  unfold mutRetrieveSetup at h
  split at h
  · cases h
  · rename_i sd hsd
    have hs := decSetParams_inv hsd
    simp only at h
    split at h
    · cases h
    · rename_i td htd
      cases h
      split at htd
      · cases htd; subst hs
        exact ⟨rfl, rfl, rfl, mutTailDataSize_eq segSize dl, rfl, rfl, rfl, rfl⟩
      · have ht := decSetParams_inv htd
        subst hs; subst ht
        exact ⟨rfl, rfl, rfl, mutTailDataSize_eq segSize dl, rfl, rfl, rfl, rfl⟩

theorem mutRetrieveSetup_ok (segSize dl : Nat) {k n : Nat} (hk : 0 < k) (hkn : k ≤ n) (hn : n ≤ 256) :
    ∃ d, mutRetrieveSetup segSize dl k n = .ok d := by
  simp only [mutRetrieveSetup, decSetParams_ok _ hk hkn hn]
  by_cases h : nextMultiple (mutTailDataSize segSize dl) k = segSize
  · simp only [h, if_true]; exact ⟨_, rfl⟩
  · simp only [h, if_false]; exact ⟨_, rfl⟩

end Tahoe.Codec
