import Tahoe.Codec.LemmasGFField
import Tahoe.Codec.LemmasRSBlocks
import Mathlib.LinearAlgebra.Lagrange
/-! The byte-level Lagrange identity (`ScalarRecover`) for **every** `1 ≤ k ≤ n ≤ 256`, from the
uniqueness of polynomial interpolation over the field `GF` (Mathlib's `Lagrange.eq_interpolate`).
The model's list folds are translated to `List.prod` / `List.sum` / `Finset` sums over `GF`. -/
namespace Tahoe.Codec
open Polynomial

/-! ### folds of the model as products and sums in `GF` -/

theorem foldl_mul_eq (x : UInt8) : ∀ (l : List UInt8) (acc : UInt8),
    GF.of (l.foldl (fun acc ym => gfMul acc (x ^^^ ym)) acc)
      = GF.of acc * (l.map (fun ym => GF.of x - GF.of ym)).prod
  | [], acc => by simp
  | y :: l, acc => by
    rw [List.foldl_cons, foldl_mul_eq x l, List.map_cons, List.prod_cons, ← GF.mul_def, GF.sub_def, mul_assoc]

theorem foldl_xor_eq_sum : ∀ (l : List UInt8), GF.of (l.foldl (· ^^^ ·) 0) = (l.map GF.of).sum
  | [] => by simp [GF.zero_def]
  | a :: l => by
    rw [List.foldl_cons, foldl_xor_acc, ← GF.add_def, foldl_xor_eq_sum l, List.map_cons, List.sum_cons]
    simp [UInt8.zero_xor]

theorem gfDot_eq_sum (r c : List UInt8) :
    GF.of (gfDot r c) = (List.zipWith (fun a b => GF.of a * GF.of b) r c).sum := by
  rw [gfDot, foldl_xor_eq_sum, List.map_zipWith]
  rfl

/-- the value-based Lagrange coefficient as a quotient of two products -/
theorem LC_eq (Y : List UInt8) (y x : UInt8) :
    GF.of (LC Y y x) = ((Y.filter (· != y)).map (fun ym => GF.of x - GF.of ym)).prod
      * (((Y.filter (· != y)).map (fun ym => GF.of y - GF.of ym)).prod)⁻¹ := by
  unfold LC
  rw [← GF.mul_def, ← GF.inv_def, foldl_mul_eq, foldl_mul_eq, ← GF.one_def, one_mul, one_mul]

theorem prod_split (x y : GF) : ∀ l : List UInt8,
    (l.map (fun ym => (y - GF.of ym)⁻¹ * (x - GF.of ym))).prod
      = (l.map (fun ym => x - GF.of ym)).prod * ((l.map (fun ym => y - GF.of ym)).prod)⁻¹
  | [] => by simp
  | a :: l => by
    simp only [List.map_cons, List.prod_cons, prod_split x y l, mul_inv]
    ring

theorem of_injective : Function.Injective GF.of := fun _ _ h => h

/-- Mathlib's Lagrange basis polynomial on the nodes `Y` (indexed by the bytes themselves),
evaluated at `x`, is the model's coefficient -/
theorem eval_basis_eq_LC (Y : List UInt8) (hnd : Y.Nodup) (y x : UInt8) :
    eval (GF.of x) (Lagrange.basis Y.toFinset GF.of y) = GF.of (LC Y y x) := by
  have herase : Y.toFinset.erase y = (Y.filter (· != y)).toFinset := by
    ext a; simp [and_comm]
  unfold Lagrange.basis
  rw [eval_prod, herase, List.prod_toFinset _ (hnd.filter _)]
  simp only [Lagrange.basisDivisor, eval_mul, eval_C, eval_sub, eval_X]
  rw [prod_split, LC_eq]

/-! ### the interpolation argument -/

/-- the input byte attached to base node `b` -/
def rOf (B v : List UInt8) (b : UInt8) : GF := GF.of (v.getD (B.idxOf b) 0)

theorem map_idxOf (B v : List UInt8) (hnd : B.Nodup) (hl : v.length = B.length) :
    B.map (fun b => v.getD (B.idxOf b) 0) = v := by
  apply List.ext_getElem
  · simp [hl]
  · intro j h1 h2
    have hj : j < B.length := by simpa using h1
    simp [hnd.idxOf_getElem j hj, List.getD_eq_getElem?_getD, List.getElem?_eq_getElem h2]

/-- the encoder's byte for evaluation point `z` is the value at `z` of the interpolation polynomial
through the base nodes `B` with the input bytes `v` -/
theorem encoded_byte_eq_eval (B v : List UInt8) (hnd : B.Nodup) (hl : v.length = B.length) (z : UInt8) :
    GF.of (gfDot (B.map (fun b => LC B b z)) v)
      = eval (GF.of z) (Lagrange.interpolate B.toFinset GF.of (rOf B v)) := by
  rw [Lagrange.interpolate_apply, eval_finsetSum]
  simp only [eval_mul, eval_C, eval_basis_eq_LC B hnd]
  rw [List.sum_toFinset _ hnd, gfDot_eq_sum]
  conv_lhs => rw [← map_idxOf B v hnd hl]
  rw [List.zipWith_map, List.zipWith_self]
  congr 1
  apply List.map_congr_left
  intro b _
  simp only [rOf, mul_comm]

theorem scalarRecover_all (k n : Nat) (_hk : 1 ≤ k) (hkn : k ≤ n) (hn : n ≤ 256) (ids : List Nat)
    (hlen : ids.length = k) (hnd : ids.Nodup) (hb : ∀ i ∈ ids, i < n) : ScalarRecover k n ids := by
  intro v m hv hm
  -- base nodes
  have hBlen : ((rsPoints n).take k).length = k := by simp [length_rsPoints]; omega
  have hBnd : ((rsPoints n).take k).Nodup := by
    rw [rsPoints_take k n hkn, ← rsPoints_take k 256 (by omega)]
    exact rsPoints_nodup.sublist (List.take_sublist _ _)
  have hBm : ((rsPoints n).take k)[m]? = some (pt m) := by
    rw [List.getElem?_take_of_lt hm]; exact rsPoints_getElem? n m hn (by omega)
  generalize hB : (rsPoints n).take k = B at hBlen hBnd hBm
  obtain ⟨hmB, hBm⟩ := List.getElem?_eq_some_iff.mp hBm
  -- selected nodes
  have hb256 : ∀ i ∈ ids, i < 256 := fun i hi => by have := hb i hi; omega
  have hYnd : (ids.map pt).Nodup := nodup_map_pt ids hnd hb256
  have hYlen : (ids.map pt).length = k := by simp [hlen]
  -- rewrite both coefficient rows with the value-based coefficients
  have hrowB : ∀ z, coeffRow B k z = B.map (fun b => LC B b z) := by
    intro z; rw [← hBlen]; exact coeffRow_eq_map_LC B z hBnd
  have hinner : ids.map (fun i => gfDot ((encMatrix k n).getD i []) v)
      = (ids.map pt).map (fun z => gfDot (B.map (fun b => LC B b z)) v) := by
    rw [List.map_map]
    apply List.map_congr_left
    intro i hi
    simp only [Function.comp]
    rw [encMatrix_getD k n i hn (hb i hi), hB, hrowB]
  have hrowY : coeffRow (ids.map pt) k (pt m) = (ids.map pt).map (fun y => LC (ids.map pt) y (pt m)) := by
    rw [← hYlen]; exact coeffRow_eq_map_LC _ _ hYnd
  rw [hinner, hrowY]
  generalize ids.map pt = Y at hYnd hYlen
  apply of_injective
  -- the polynomial
  let Q := Lagrange.interpolate B.toFinset GF.of (rOf B v)
  have hdeg : Q.degree < (Y.toFinset.card : WithBot ℕ) := by
    have h := Lagrange.degree_interpolate_lt (rOf B v) (s := B.toFinset) (v := GF.of) of_injective.injOn
    rwa [List.toFinset_card_of_nodup hBnd, hBlen, ← hYlen, ← List.toFinset_card_of_nodup hYnd] at h
  have hQ := Lagrange.eq_interpolate (s := Y.toFinset) (v := GF.of) (f := Q) of_injective.injOn hdeg
  -- left-hand side = Q evaluated at pt m, through the nodes Y
  have hL : GF.of (gfDot (Y.map (fun y => LC Y y (pt m))) (Y.map (fun z => gfDot (B.map (fun b => LC B b z)) v)))
      = eval (GF.of (pt m)) Q := by
    conv_rhs => rw [hQ]
    rw [Lagrange.interpolate_apply, eval_finsetSum]
    simp only [eval_mul, eval_C, eval_basis_eq_LC Y hYnd]
    rw [List.sum_toFinset _ hYnd, gfDot_eq_sum, List.zipWith_map, List.zipWith_self]
    congr 1
    apply List.map_congr_left
    intro y _
    rw [encoded_byte_eq_eval B v hBnd (by rw [hv, hBlen]) y, mul_comm]
  rw [hL]
  -- and Q at the base node pt m is the input byte
  have hmem : pt m ∈ B.toFinset := by
    rw [List.mem_toFinset, ← hBm]; exact List.getElem_mem _
  have hnode := Lagrange.eval_interpolate_at_node (rOf B v) (s := B.toFinset) (v := GF.of) of_injective.injOn hmem
  show eval (GF.of (pt m)) (Lagrange.interpolate B.toFinset GF.of (rOf B v)) = _
  rw [hnode, rOf, ← hBm, hBnd.idxOf_getElem m (by omega)]

/-! ### the encoding matrix is zfec's `V · V_top⁻¹`

fec.c fills an `n × k` matrix `V` with the powers of the evaluation points (row `i` is
`x_i^0, x_i^1, …, x_i^(k-1)`, the first row being `1, 0, …, 0` for `x_0 = 0`), inverts its top `k × k`
block `V_top` and multiplies: `enc_matrix = V · V_top⁻¹` (so its top block is the identity).  `V_top`
is invertible, hence `enc_matrix` is the unique matrix `E` with `E · V_top = V`.  The model's
`encMatrix` satisfies exactly that equation: -/

theorem take_rsPoints_eq (k n : Nat) (hkn : k ≤ n) (hn : n ≤ 256) :
    (rsPoints n).take k = (List.range k).map pt := by
  apply List.ext_getElem?
  intro j
  by_cases hj : j < k
  · rw [List.getElem?_take_of_lt hj, rsPoints_getElem? n j hn (by omega)]
    simp [List.getElem?_map, List.getElem?_range hj]
  · rw [List.getElem?_eq_none (by simp [length_rsPoints]; omega),
        List.getElem?_eq_none (by simp; omega)]

/-- `E · V_top = V`, entry `(i, c)`: `Σ_j E[i][j] · x_j^c = x_i^c` for every row `i < n` and column `c < k` -/
theorem encMatrix_mul_vandermonde (k n i c : Nat) (hkn : k ≤ n) (hn : n ≤ 256) (hi : i < n) (hc : c < k) :
    (List.zipWith (fun a b => GF.of a * b) ((encMatrix k n).getD i [])
        ((List.range k).map (fun j => GF.of (pt j) ^ c))).sum = GF.of (pt i) ^ c := by
  have hBlen : ((rsPoints n).take k).length = k := by simp [length_rsPoints]; omega
  have hBnd : ((rsPoints n).take k).Nodup := by
    rw [rsPoints_take k n hkn, ← rsPoints_take k 256 (by omega)]
    exact rsPoints_nodup.sublist (List.take_sublist _ _)
  have hvec : (List.range k).map (fun j => GF.of (pt j) ^ c)
      = ((rsPoints n).take k).map (fun b => GF.of b ^ c) := by
    rw [take_rsPoints_eq k n hkn hn, List.map_map]; rfl
  rw [encMatrix_getD k n i hn hi, hvec]
  generalize (rsPoints n).take k = B at hBlen hBnd
  have hrow : coeffRow B k (pt i) = B.map (fun b => LC B b (pt i)) := by
    rw [← hBlen]; exact coeffRow_eq_map_LC B _ hBnd
  rw [hrow, List.zipWith_map, List.zipWith_self]
  -- X^c is its own interpolation polynomial through the k nodes
  have hdeg : (X ^ c : GF[X]).degree < (B.toFinset.card : WithBot ℕ) := by
    rw [degree_X_pow, List.toFinset_card_of_nodup hBnd, hBlen]; exact_mod_cast hc
  have hX := Lagrange.eq_interpolate (s := B.toFinset) (v := GF.of) (f := (X ^ c : GF[X])) of_injective.injOn hdeg
  have hE : eval (GF.of (pt i)) (X ^ c : GF[X]) = GF.of (pt i) ^ c := by simp
  rw [← hE]
  conv_rhs => rw [hX]
  rw [Lagrange.interpolate_apply, eval_finsetSum]
  simp only [eval_mul, eval_C, eval_pow, eval_X, eval_basis_eq_LC B hBnd]
  rw [List.sum_toFinset _ hBnd]
  congr 1
  apply List.map_congr_left
  intro b _
  rw [mul_comm]

/-- the top `k × k` block of the encoding matrix is the identity (the code is systematic) -/
theorem encMatrix_top_identity (k n i : Nat) (hkn : k ≤ n) (hn : n ≤ 256) (hi : i < k) :
    (encMatrix k n).getD i [] = (List.range k).map (fun j => if i = j then (1 : UInt8) else 0) := by
  have hBnd : ((rsPoints n).take k).Nodup := by
    rw [rsPoints_take k n hkn, ← rsPoints_take k 256 (by omega)]
    exact rsPoints_nodup.sublist (List.take_sublist _ _)
  have hB := take_rsPoints_eq k n hkn hn
  rw [encMatrix_getD k n i hn (by omega), coeffRow]
  apply List.map_congr_left
  intro j hj
  have hjk : j < k := List.mem_range.mp hj
  have hjB : j < ((rsPoints n).take k).length := by simp [length_rsPoints]; omega
  rw [lagrangeCoeff_eq_LC _ j _ hBnd hjB]
  have hgetj : ((rsPoints n).take k).getD j 0 = pt j := by
    rw [hB]; simp [List.getD_eq_getElem?_getD, List.getElem?_map, List.getElem?_range hjk]
  rw [hgetj]
  have hmemi : pt i ∈ ((rsPoints n).take k).toFinset := by
    rw [hB]; simp only [List.mem_toFinset, List.mem_map, List.mem_range]; exact ⟨i, hi, rfl⟩
  apply of_injective
  rw [← eval_basis_eq_LC _ hBnd]
  by_cases hij : i = j
  · subst hij
    rw [if_pos rfl, Lagrange.eval_basis_self of_injective.injOn hmemi]; rfl
  · rw [if_neg hij]
    have hne : pt j ≠ pt i := fun e => hij (pt_inj (by omega) (by omega) e).symm
    rw [Lagrange.eval_basis_of_ne hne hmemi]; rfl

end Tahoe.Codec
