import Tahoe.Codec.LemmasRecords
/-! Share-container headers: canonicity of the readers, known-version round trips, and the fixed-offset
    field readers on a freshly written mutable container. -/
namespace Tahoe.Codec.Records
open Tahoe.Base Tahoe.Base.Bytes Tahoe.Base.Struct
open Tahoe.Generated.Encodings

/-- **immutable header canonicity**: what `struct.unpack(">LLL", f.read(0xc))` returns re-packs to exactly
    the first 12 bytes of the file, which therefore exist -/
theorem readImmHeader_canonical {file : Bytes} {v u n : Nat} (h : readImmHeader file = some (v, u, n)) :
    pack immHeaderFields [.int v, .int u, .int n] = some (file.take 12) ∧ 12 ≤ file.length ∧
      v < 256 ^ 4 ∧ u < 256 ^ 4 ∧ n < 256 ^ 4 := by
  simp only [readImmHeader] at h
  split at h
  · rename_i v' u' n' hu
    simp only [Option.some.injEq, Prod.mk.injEq] at h
    obtain ⟨rfl, rfl, rfl⟩ := h
    obtain ⟨hp, hf⟩ := pack_unpack _ _ _ hu
    simp only [immHeaderFields, FitsAll, Fits] at hf
    obtain ⟨⟨a1, a2⟩, ⟨b1, b2⟩, ⟨c1, c2⟩, _⟩ := hf
    have hl := pack_length hp
    simp only [size, immHeaderFields, Field.size, List.length_take] at hl
    rw [Int.toNat_of_nonneg a1, Int.toNat_of_nonneg b1, Int.toNat_of_nonneg c1]
    exact ⟨hp, by omega, a2, b2, c2⟩
  · simp at h

theorem readImmHeader_none_iff (file : Bytes) : readImmHeader file = none ↔ file.length < 12 := by
  constructor
  · intro h
    rcases Nat.lt_or_ge file.length 12 with hl | hl
    · exact hl
    · have hlen : (file.take 12).length = 12 := by simp; omega
      have hu : unpack immHeaderFields (file.take 12) = some (unpackFields immHeaderFields (file.take 12)) := by
        simp [unpack, hlen, size, immHeaderFields, Field.size]
      unfold readImmHeader at h
      rw [hu] at h
      simp [unpackFields, immHeaderFields, unpackField] at h
  · intro h
    have : unpack immHeaderFields (file.take 12) = none := by
      rw [unpack_eq_none_iff]; simp [size, immHeaderFields, Field.size]; omega
    simp [readImmHeader, this]

/-- **immutable container, schema versions 1 and 2**: the header written by `_Schema.header(max_size)`
    is recognised (`is_valid_header`, `schema_from_version`) and read back as (version, …, 0 leases),
    whatever follows it in the file -/
theorem immHeader_known_versions (v : Nat) (m : Int) (rest : Bytes) (hv : v = 1 ∨ v = 2) (hm : 0 ≤ m) :
    ∃ b, immHeader v m = some b ∧ b.length = 12 ∧
      readImmHeader (b ++ rest) = some (v, (min 4294967295 m).toNat, 0) ∧
      immVersionKnown v = true ∧ immIsValidHeader (b ++ rest) = some true := by
  have hv4 : ((v : Nat) : Int).toNat < 256 ^ 4 := by rcases hv with rfl | rfl <;> decide
  obtain ⟨b, hb, hl, hr⟩ := readImmHeader_immHeader (v : Int) m rest (Int.natCast_nonneg _) hv4 hm
  have hknown : immVersionKnown v = true := by rcases hv with rfl | rfl <;> decide
  refine ⟨b, hb, hl, by simpa using hr, hknown, ?_⟩
  -- the first four bytes hold the version
  obtain ⟨hp, _⟩ := readImmHeader_canonical (by simpa using hr)
  have htake : (b ++ rest).take 12 = b := List.take_left' hl
  rw [htake] at hp
  have h4 : ((b ++ rest).take 4) = be 4 v := by
    simp only [pack, immHeaderFields, packField, packU, Int.toNat_natCast, Int.natCast_nonneg, true_and] at hp
    have hv4' : v < 256 ^ 4 := by simpa using hv4
    simp only [hv4', ↓reduceIte] at hp
    split at hp
    · rename_i a r ha hr'
      simp only [Option.some.injEq] at ha hp
      subst ha; subst hp
      rw [List.append_assoc, List.take_left' (by simp)]
    · simp at hp
  simp only [immIsValidHeader, h4, length_be, ↓reduceIte, beVal_be (show v < 256 ^ 4 by simpa using hv4), hknown]

/-- **mutable header canonicity**: the five values `_read_write_enabler_and_nodeid` unpacks re-pack to
    exactly the first 100 bytes of the file, and the magic is one of the two known ones -/
theorem readMutHeader_canonical {file m n w : Bytes} {dl elo : Nat}
    (h : readMutHeader file = .ok (m, n, w, dl, elo)) :
    pack mutHeaderFields [.bytes m, .bytes n, .bytes w, .int dl, .int elo] = some (file.take 100) ∧
      100 ≤ file.length ∧ (m = mut_MAGIC_v1 ∨ m = mut_MAGIC_v2) := by
  simp only [readMutHeader] at h
  split at h
  · rename_i m' n' w' dl' elo' hu
    split at h
    · rename_i hs
      simp only [Except.ok.injEq, Prod.mk.injEq] at h
      obtain ⟨rfl, rfl, rfl, rfl, rfl⟩ := h
      obtain ⟨hp, hf⟩ := pack_unpack _ _ _ hu
      simp only [mutHeaderFields, FitsAll, Fits] at hf
      obtain ⟨hm32, _, _, ⟨d1, _⟩, ⟨e1, _⟩, _⟩ := hf
      have hl := pack_length hp
      simp only [size, mutHeaderFields, Field.size, List.length_take] at hl
      rw [Int.toNat_of_nonneg d1, Int.toNat_of_nonneg e1]
      refine ⟨hp, by omega, ?_⟩
      -- the magic is the first field
      have hfirst : (file.take 100).take 32 = m' := by
        have h100 : (file.take 100).length = 100 := by simp; omega
        simp only [unpack, h100, size, mutHeaderFields, Field.size, ↓reduceIte, unpackFields, unpackField,
          Option.some.injEq, List.cons.injEq, Value.bytes.injEq] at hu
        exact hu.1
      simp only [mutSchemaOf, hfirst] at hs
      by_cases h2 : m' = mut_MAGIC_v2
      · exact Or.inr h2
      · by_cases h1 : m' = mut_MAGIC_v1
        · exact Or.inl h1
        · simp [h1, h2] at hs
    · simp at h
  · simp at h

/-- **`schema_from_header`**: a version is recognised exactly when the *whole* 32-byte magic (readable
    line and the five anti-collision bytes) equals that version's magic -/
theorem mutSchemaOf_iff (h : Bytes) (v : Nat) :
    mutSchemaOf h = some v ↔ ((v = 1 ∧ h.take 32 = mut_MAGIC_v1) ∨ (v = 2 ∧ h.take 32 = mut_MAGIC_v2)) := by
  obtain ⟨_, _, hne⟩ := magic_lengths
  simp only [mutSchemaOf]
  by_cases h2 : h.take 32 = mut_MAGIC_v2
  · have h1 : ¬ h.take 32 = mut_MAGIC_v1 := fun e => hne (e.symm.trans h2)
    simp only [h2, ↓reduceIte, Option.some.injEq, and_true]
    constructor
    · intro e; exact Or.inr e.symm
    · rintro (⟨_, e⟩ | e)
      · exact absurd (h2 ▸ e : mut_MAGIC_v2 = mut_MAGIC_v1) (fun e' => hne e'.symm)
      · exact e.symm
  · by_cases h1 : h.take 32 = mut_MAGIC_v1
    · rw [if_neg h2, if_pos h1]
      constructor
      · intro e; simp only [Option.some.injEq] at e; exact Or.inl ⟨e.symm, h1⟩
      · rintro (⟨e, _⟩ | ⟨_, e⟩)
        · rw [e]
        · exact absurd e h2
    · simp [h1, h2]

/-- **the mutable header reader accepts a file exactly when** it has the 100 header bytes and its first
    32 bytes are one of the two magics in full -/
theorem readMutHeader_accepts_iff (file : Bytes) :
    (∃ r, readMutHeader file = .ok r) ↔
      (100 ≤ file.length ∧ (file.take 32 = mut_MAGIC_v1 ∨ file.take 32 = mut_MAGIC_v2)) := by
  have htt : (file.take 100).take 32 = file.take 32 := by
    rw [List.take_take]; congr 1
  constructor
  · rintro ⟨⟨m, n, w, dl, elo⟩, hr⟩
    obtain ⟨hp, hl, hm⟩ := readMutHeader_canonical hr
    refine ⟨hl, ?_⟩
    -- the magic read is the first field of the first 100 bytes
    have hfirst : (file.take 100).take 32 = m := by
      have h100 : (file.take 100).length = 100 := by simp; omega
      simp only [readMutHeader] at hr
      split at hr
      · rename_i m' n' w' dl' elo' hu
        split at hr
        · simp only [Except.ok.injEq, Prod.mk.injEq] at hr
          simp only [unpack, h100, size, mutHeaderFields, Field.size, ↓reduceIte, unpackFields, unpackField,
            Option.some.injEq, List.cons.injEq, Value.bytes.injEq] at hu
          rw [hu.1]; exact hr.1
        · simp at hr
      · simp at hr
    rw [← htt, hfirst]; exact hm
  · rintro ⟨hl, hm⟩
    have h100 : (file.take 100).length = 100 := by simp; omega
    have hs : (mutSchemaOf (file.take 100)).isSome = true := by
      rcases hm with hm | hm
      · rw [(mutSchemaOf_iff (file.take 100) 1).mpr (Or.inl ⟨rfl, by rw [htt]; exact hm⟩)]; rfl
      · rw [(mutSchemaOf_iff (file.take 100) 2).mpr (Or.inr ⟨rfl, by rw [htt]; exact hm⟩)]; rfl
    simp only [readMutHeader, unpack, h100, size, mutHeaderFields, Field.size, ↓reduceIte, unpackFields,
      unpackField, hs]
    exact ⟨_, rfl⟩

theorem slice_mid (a fld c : Bytes) {off w : Nat} (ha : a.length = off) (hf : fld.length = w) :
    slice (a ++ (fld ++ c)) off w = fld := by
  simp only [slice]
  rw [List.drop_left' ha, List.take_left' hf]

theorem readUAt_mid (a fld c : Bytes) {off w : Nat} (ha : a.length = off) (hf : fld.length = w) :
    readUAt (a ++ (fld ++ c)) off w = some (beVal fld) := by
  simp only [readUAt, slice_mid a fld c ha hf, hf, ↓reduceIte]

/-- the four blank lease slots of a fresh mutable container -/
abbrev blankSlots : Bytes := List.replicate (mut_LEASE_SIZE * 4) 0

theorem blankSlots_length : blankSlots.length = 368 := by
  simp only [blankSlots, List.length_replicate]; rfl

/-- the explicit layout of a freshly written mutable container -/
theorem mutHeader_layout (version : Nat) (magic nid we : Bytes) (hm : magicOf version = some magic)
    (hml : magic.length = 32) (hn : nid.length = 20) (hw : we.length = 32) :
    mutHeader version nid we = some (magic ++ (nid ++ (we ++ (be 8 0 ++ (be 8 468 ++ (blankSlots ++ be 4 0)))))) := by
  have hv : ((mut_EXTRA_LEASE_OFFSET_VALUE : Nat) : Int).toNat = 468 := by decide
  simp only [mutHeader, hm, mutHeaderRaw, pack, mutHeaderFields, packField, packU, Int.le_refl,
    Int.natCast_nonneg, hv, packS_of_length hml, packS_of_length hn,
    packS_of_length hw, blankSlots, List.append_assoc, Int.toNat_zero]
  have a0 : (0 : Nat) < 256 ^ 8 := by decide
  have a468 : (468 : Nat) < 256 ^ 8 := by decide
  simp only [true_and, a0, a468, ↓reduceIte, List.append_assoc, List.append_nil]

/-- **fixed-offset readers on a fresh mutable container**: data length 0, extra-lease offset 468
    (= header + four lease slots), no extra leases -/
theorem mutHeader_fields (version : Nat) (nid we : Bytes) (hv : version = 1 ∨ version = 2)
    (hn : nid.length = 20) (hw : we.length = 32) :
    ∃ file, mutHeader version nid we = some file ∧ file.length = 472 ∧
      readDataLength file = some 0 ∧ readExtraLeaseOffset file = some 468 ∧ readNumExtraLeases file = some 0 := by
  obtain ⟨hm1, hm2, _⟩ := magic_lengths
  have hmagic : ∃ magic, magicOf version = some magic ∧ magic.length = 32 := by
    rcases hv with rfl | rfl
    · exact ⟨_, rfl, hm1⟩
    · exact ⟨_, rfl, hm2⟩
  obtain ⟨magic, hmo, hml⟩ := hmagic
  have hz := blankSlots_length
  generalize blankSlots = Z at hz
  have hlay := mutHeader_layout version magic nid we hmo hml hn hw
  have hb80 : (be 8 0).length = 8 := length_be 8 0
  have hb8 : (be 8 468).length = 8 := length_be 8 468
  have hb4 : (be 4 0).length = 4 := length_be 4 0
  have hoff : readExtraLeaseOffset (magic ++ (nid ++ (we ++ (be 8 0 ++ (be 8 468 ++ (blankSlots ++ be 4 0))))))
      = some 468 := by
    have := readUAt_mid (magic ++ (nid ++ (we ++ be 8 0))) (be 8 468) (blankSlots ++ be 4 0)
      (off := 92) (w := 8) (by simp only [List.length_append, hml, hn, hw, hb80]) hb8
    simp only [List.append_assoc] at this
    simp only [readExtraLeaseOffset, mut_EXTRA_LEASE_OFFSET_FIELD, this,
      beVal_be (show 468 < 256 ^ 8 by decide)]
  refine ⟨_, hlay, ?_, ?_, hoff, ?_⟩
  · simp only [List.length_append, hml, hn, hw, hb80, hb8, hb4, blankSlots_length]
  · have := readUAt_mid (magic ++ (nid ++ we)) (be 8 0) (be 8 468 ++ (blankSlots ++ be 4 0))
      (off := 84) (w := 8) (by simp only [List.length_append, hml, hn, hw]) hb80
    simp only [List.append_assoc] at this
    simp only [readDataLength, mut_DATA_LENGTH_OFFSET, this, beVal_be (show 0 < 256 ^ 8 by decide)]
  · have := readUAt_mid (magic ++ (nid ++ (we ++ (be 8 0 ++ (be 8 468 ++ blankSlots))))) (be 4 0) []
      (off := 468) (w := 4)
      (by simp only [List.length_append, hml, hn, hw, hb80, hb8, blankSlots_length]) hb4
    simp only [List.append_assoc, List.append_nil] at this
    simp only [readNumExtraLeases, hoff, this, beVal_be (show 0 < 256 ^ 4 by decide)]

end Tahoe.Codec.Records
