import Tahoe.Codec.Utf8
/-! `Ueb.utf8Ok` accepts exactly the UTF-8 encodings of strings of Unicode scalar values. -/
namespace Tahoe.Codec.Utf8
open Tahoe.Base Tahoe.Codec.Ueb

theorem ofNat_eq {b : UInt8} {m : Nat} (h : m = b.toNat) : UInt8.ofNat m = b := by
  subst h; simp

theorem toNat_ofNat_lt {m : Nat} (h : m < 256) : (UInt8.ofNat m).toNat = m := by
  simp only [UInt8.toNat_ofNat']; omega

theorem enc1 (b0 : UInt8) (h : b0.toNat < 128) : IsScalar b0.toNat ∧ encScalar b0.toNat = [b0] := by
  refine ⟨⟨by omega, by omega⟩, ?_⟩
  simp only [encScalar, h, ↓reduceIte, List.cons.injEq, and_true]
  exact ofNat_eq rfl

theorem enc2 (b0 b1 : UInt8) (h0 : 194 ≤ b0.toNat ∧ b0.toNat ≤ 223) (h1 : 128 ≤ b1.toNat ∧ b1.toNat ≤ 191) :
    IsScalar ((b0.toNat - 192) * 64 + (b1.toNat - 128)) ∧
      encScalar ((b0.toNat - 192) * 64 + (b1.toNat - 128)) = [b0, b1] := by
  refine ⟨⟨by omega, by omega⟩, ?_⟩
  have a1 : ¬ ((b0.toNat - 192) * 64 + (b1.toNat - 128) < 128) := by omega
  have a2 : (b0.toNat - 192) * 64 + (b1.toNat - 128) < 2048 := by omega
  simp only [encScalar, a1, a2, ↓reduceIte, List.cons.injEq, and_true]
  exact ⟨ofNat_eq (by omega), ofNat_eq (by omega)⟩

theorem enc3 (b0 b1 b2 : UInt8) (h0 : 224 ≤ b0.toNat ∧ b0.toNat ≤ 239)
    (h1 : 128 ≤ b1.toNat ∧ b1.toNat ≤ 191) (h2 : 128 ≤ b2.toNat ∧ b2.toNat ≤ 191)
    (hlo : b0.toNat = 224 → 160 ≤ b1.toNat) (hsur : b0.toNat = 237 → b1.toNat ≤ 159) :
    IsScalar ((b0.toNat - 224) * 4096 + (b1.toNat - 128) * 64 + (b2.toNat - 128)) ∧
      encScalar ((b0.toNat - 224) * 4096 + (b1.toNat - 128) * 64 + (b2.toNat - 128)) = [b0, b1, b2] := by
  refine ⟨⟨by omega, by omega⟩, ?_⟩
  have a1 : ¬ ((b0.toNat - 224) * 4096 + (b1.toNat - 128) * 64 + (b2.toNat - 128) < 128) := by omega
  have a2 : ¬ ((b0.toNat - 224) * 4096 + (b1.toNat - 128) * 64 + (b2.toNat - 128) < 2048) := by omega
  have a3 : (b0.toNat - 224) * 4096 + (b1.toNat - 128) * 64 + (b2.toNat - 128) < 65536 := by omega
  simp only [encScalar, a1, a2, a3, ↓reduceIte, List.cons.injEq, and_true]
  exact ⟨ofNat_eq (by omega), ofNat_eq (by omega), ofNat_eq (by omega)⟩

theorem enc4 (b0 b1 b2 b3 : UInt8) (h0 : 240 ≤ b0.toNat ∧ b0.toNat ≤ 244)
    (h1 : 128 ≤ b1.toNat ∧ b1.toNat ≤ 191) (h2 : 128 ≤ b2.toNat ∧ b2.toNat ≤ 191)
    (h3 : 128 ≤ b3.toNat ∧ b3.toNat ≤ 191)
    (hlo : b0.toNat = 240 → 144 ≤ b1.toNat) (hhi : b0.toNat = 244 → b1.toNat ≤ 143) :
    IsScalar ((b0.toNat - 240) * 262144 + (b1.toNat - 128) * 4096 + (b2.toNat - 128) * 64 + (b3.toNat - 128)) ∧
      encScalar ((b0.toNat - 240) * 262144 + (b1.toNat - 128) * 4096 + (b2.toNat - 128) * 64 + (b3.toNat - 128))
        = [b0, b1, b2, b3] := by
  refine ⟨⟨by omega, by omega⟩, ?_⟩
  have a1 : ¬ ((b0.toNat - 240) * 262144 + (b1.toNat - 128) * 4096 + (b2.toNat - 128) * 64 + (b3.toNat - 128) < 128) := by omega
  have a2 : ¬ ((b0.toNat - 240) * 262144 + (b1.toNat - 128) * 4096 + (b2.toNat - 128) * 64 + (b3.toNat - 128) < 2048) := by omega
  have a3 : ¬ ((b0.toNat - 240) * 262144 + (b1.toNat - 128) * 4096 + (b2.toNat - 128) * 64 + (b3.toNat - 128) < 65536) := by omega
  simp only [encScalar, a1, a2, a3, ↓reduceIte, List.cons.injEq, and_true]
  exact ⟨ofNat_eq (by omega), ofNat_eq (by omega), ofNat_eq (by omega), ofNat_eq (by omega)⟩

theorem cons_ok {c : Nat} {cs : List Nat} {p r : Bytes} (hs : IsScalar c) (hcs : ∀ x ∈ cs, IsScalar x)
    (hen : encScalar c = p) (he : encStr cs = r) :
    (∀ x ∈ c :: cs, IsScalar x) ∧ encStr (c :: cs) = p ++ r := by
  refine ⟨?_, by simp only [encStr, List.map_cons, List.flatten_cons, hen] at he ⊢; rw [he]⟩
  intro x hx
  rcases List.mem_cons.mp hx with rfl | hx
  · exact hs
  · exact hcs x hx

/-- **soundness**: whatever `utf8Ok` accepts is the encoding of a string of scalar values -/
theorem utf8Ok_sound : ∀ (f : Nat) (k : Bytes), k.length ≤ f → utf8Ok f k = true →
    ∃ cs, (∀ c ∈ cs, IsScalar c) ∧ encStr cs = k
  | 0, k, hl, _ => by
    have : k = [] := List.eq_nil_of_length_eq_zero (by omega)
    exact ⟨[], by simp, by simp [encStr, this]⟩
  | _ + 1, [], _, _ => ⟨[], by simp, by simp [encStr]⟩
  | f + 1, b0 :: rest, hl, h => by
    simp only [List.length_cons] at hl
    simp only [utf8Ok] at h
    split at h
    · rename_i h1
      obtain ⟨cs, hcs, he⟩ := utf8Ok_sound f rest (by omega) h
      obtain ⟨hs, hen⟩ := enc1 b0 h1
      exact ⟨b0.toNat :: cs, cons_ok hs hcs hen he⟩
    · split at h
      · rename_i h2
        simp only [Bool.and_eq_true, decide_eq_true_eq] at h2
        match rest, h, hl with
        | b1 :: r, h, hl =>
          simp only [Bool.and_eq_true, decide_eq_true_eq, List.length_cons] at h hl
          obtain ⟨cs, hcs, he⟩ := utf8Ok_sound f r (by omega) h.2
          obtain ⟨hs, hen⟩ := enc2 b0 b1 h2 h.1
          exact ⟨_ :: cs, cons_ok hs hcs hen he⟩
        | [], h, _ => simp at h
      · split at h
        · rename_i h3
          simp only [Bool.and_eq_true, decide_eq_true_eq] at h3
          match rest, h, hl with
          | b1 :: b2 :: r, h, hl =>
            simp only [Bool.and_eq_true, decide_eq_true_eq, Bool.or_eq_true, bne_iff_ne, ne_eq,
              List.length_cons] at h hl
            obtain ⟨⟨⟨⟨c1, c2⟩, hlo⟩, hsur⟩, hr⟩ := h
            obtain ⟨cs, hcs, he⟩ := utf8Ok_sound f r (by omega) hr
            obtain ⟨hs, hen⟩ := enc3 b0 b1 b2 h3 c1 c2
              (fun e => by rcases hlo with hlo | hlo; exact absurd e hlo; exact hlo)
              (fun e => by rcases hsur with hsur | hsur; exact absurd e hsur; exact hsur)
            exact ⟨_ :: cs, cons_ok hs hcs hen he⟩
          | [_], h, _ => simp at h
          | [], h, _ => simp at h
        · split at h
          · rename_i h4
            simp only [Bool.and_eq_true, decide_eq_true_eq] at h4
            match rest, h, hl with
            | b1 :: b2 :: b3 :: r, h, hl =>
              simp only [Bool.and_eq_true, decide_eq_true_eq, Bool.or_eq_true, bne_iff_ne, ne_eq,
                List.length_cons] at h hl
              obtain ⟨⟨⟨⟨⟨c1, c2⟩, c3⟩, hlo⟩, hhi⟩, hr⟩ := h
              obtain ⟨cs, hcs, he⟩ := utf8Ok_sound f r (by omega) hr
              obtain ⟨hs, hen⟩ := enc4 b0 b1 b2 b3 h4 c1 c2 c3
                (fun e => by rcases hlo with hlo | hlo; exact absurd e hlo; exact hlo)
                (fun e => by rcases hhi with hhi | hhi; exact absurd e hhi; exact hhi)
              exact ⟨_ :: cs, cons_ok hs hcs hen he⟩
            | [_, _], h, _ => simp at h
            | [_], h, _ => simp at h
            | [], h, _ => simp at h
          · simp at h

theorem step1 (b0 : UInt8) (f : Nat) (rest : Bytes) (h0 : b0.toNat < 128) :
    utf8Ok (f + 1) (b0 :: rest) = utf8Ok f rest := by
  simp [utf8Ok, h0]

theorem step2 (b0 b1 : UInt8) (f : Nat) (rest : Bytes) (h0 : 194 ≤ b0.toNat ∧ b0.toNat ≤ 223)
    (h1 : 128 ≤ b1.toNat ∧ b1.toNat ≤ 191) : utf8Ok (f + 1) (b0 :: b1 :: rest) = utf8Ok f rest := by
  have a1 : ¬ b0.toNat < 128 := by omega
  simp [utf8Ok, a1, h0.1, h0.2, h1.1, h1.2]

theorem step3 (b0 b1 b2 : UInt8) (f : Nat) (rest : Bytes) (h0 : 224 ≤ b0.toNat ∧ b0.toNat ≤ 239)
    (h1 : 128 ≤ b1.toNat ∧ b1.toNat ≤ 191) (h2 : 128 ≤ b2.toNat ∧ b2.toNat ≤ 191)
    (hlo : b0.toNat = 224 → 160 ≤ b1.toNat) (hsur : b0.toNat = 237 → b1.toNat ≤ 159) :
    utf8Ok (f + 1) (b0 :: b1 :: b2 :: rest) = utf8Ok f rest := by
  have a1 : ¬ b0.toNat < 128 := by omega
  have a2 : ¬ (194 ≤ b0.toNat ∧ b0.toNat ≤ 223) := by omega
  have a3 : (b0.toNat != 224 || decide (160 ≤ b1.toNat)) = true := by
    by_cases e : b0.toNat = 224
    · simp [hlo e]
    · simp [e]
  have a4 : (b0.toNat != 237 || decide (b1.toNat ≤ 159)) = true := by
    by_cases e : b0.toNat = 237
    · simp [hsur e]
    · simp [e]
  simp only [utf8Ok, a1, ↓reduceIte, Bool.and_eq_true, decide_eq_true_eq, a2, h0.1, h0.2, h1.1, h1.2,
    h2.1, h2.2, decide_true, Bool.true_and, a3, a4]

theorem step4 (b0 b1 b2 b3 : UInt8) (f : Nat) (rest : Bytes) (h0 : 240 ≤ b0.toNat ∧ b0.toNat ≤ 244)
    (h1 : 128 ≤ b1.toNat ∧ b1.toNat ≤ 191) (h2 : 128 ≤ b2.toNat ∧ b2.toNat ≤ 191)
    (h3 : 128 ≤ b3.toNat ∧ b3.toNat ≤ 191)
    (hlo : b0.toNat = 240 → 144 ≤ b1.toNat) (hhi : b0.toNat = 244 → b1.toNat ≤ 143) :
    utf8Ok (f + 1) (b0 :: b1 :: b2 :: b3 :: rest) = utf8Ok f rest := by
  have a1 : ¬ b0.toNat < 128 := by omega
  have a2 : ¬ (194 ≤ b0.toNat ∧ b0.toNat ≤ 223) := by omega
  have a2' : ¬ (224 ≤ b0.toNat ∧ b0.toNat ≤ 239) := by omega
  have a3 : (b0.toNat != 240 || decide (144 ≤ b1.toNat)) = true := by
    by_cases e : b0.toNat = 240
    · simp [hlo e]
    · simp [e]
  have a4 : (b0.toNat != 244 || decide (b1.toNat ≤ 143)) = true := by
    by_cases e : b0.toNat = 244
    · simp [hhi e]
    · simp [e]
  simp only [utf8Ok, a1, ↓reduceIte, Bool.and_eq_true, decide_eq_true_eq, a2, a2', h0.1, h0.2, h1.1,
    h1.2, h2.1, h2.2, h3.1, h3.2, decide_true, Bool.true_and, a3, a4]

/-- one encoded scalar value at the front is consumed by one step of `utf8Ok` -/
theorem utf8Ok_enc (c : Nat) (hs : IsScalar c) (f : Nat) (rest : Bytes) :
    utf8Ok (f + 1) (encScalar c ++ rest) = utf8Ok f rest := by
  obtain ⟨hmax, hsur⟩ := hs
  unfold encScalar
  split
  · rename_i h1
    have t0 := toNat_ofNat_lt (show c < 256 by omega)
    exact step1 _ f rest (by rw [t0]; exact h1)
  · rename_i h1
    split
    · rename_i h2
      have t0 := toNat_ofNat_lt (show 192 + c / 64 < 256 by omega)
      have t1 := toNat_ofNat_lt (show 128 + c % 64 < 256 by omega)
      exact step2 _ _ f rest (by rw [t0]; omega) (by rw [t1]; omega)
    · rename_i h2
      split
      · rename_i h3
        have t0 := toNat_ofNat_lt (show 224 + c / 4096 < 256 by omega)
        have t1 := toNat_ofNat_lt (show 128 + c / 64 % 64 < 256 by omega)
        have t2 := toNat_ofNat_lt (show 128 + c % 64 < 256 by omega)
        exact step3 _ _ _ f rest (by rw [t0]; omega) (by rw [t1]; omega) (by rw [t2]; omega)
          (by rw [t0, t1]; omega) (by rw [t0, t1]; omega)
      · rename_i h3
        have t0 := toNat_ofNat_lt (show 240 + c / 262144 < 256 by omega)
        have t1 := toNat_ofNat_lt (show 128 + c / 4096 % 64 < 256 by omega)
        have t2 := toNat_ofNat_lt (show 128 + c / 64 % 64 < 256 by omega)
        have t3 := toNat_ofNat_lt (show 128 + c % 64 < 256 by omega)
        exact step4 _ _ _ _ f rest (by rw [t0]; omega) (by rw [t1]; omega) (by rw [t2]; omega) (by rw [t3]; omega)
          (by rw [t0, t1]; omega) (by rw [t0, t1]; omega)

theorem encScalar_length_pos (c : Nat) : 0 < (encScalar c).length := by
  unfold encScalar; split
  · simp
  · split
    · simp
    · split <;> simp

/-- **completeness**: every encoding of a string of scalar values is accepted -/
theorem utf8Ok_complete : ∀ (cs : List Nat) (f : Nat), (∀ c ∈ cs, IsScalar c) → (encStr cs).length ≤ f →
    utf8Ok f (encStr cs) = true
  | [], f, _, _ => by cases f <;> simp [encStr, utf8Ok]
  | c :: cs, f, h, hl => by
    have hpos := encScalar_length_pos c
    simp only [encStr, List.map_cons, List.flatten_cons, List.length_append] at hl ⊢
    cases f with
    | zero => omega
    | succ f =>
      rw [utf8Ok_enc c (h c List.mem_cons_self)]
      exact utf8Ok_complete cs f (fun x hx => h x (List.mem_cons_of_mem _ hx)) (by simp only [encStr]; omega)

/-- **`str(key, "utf-8")` succeeds exactly on the image of the encoder** -/
theorem utf8Ok_iff (k : Bytes) :
    utf8Ok k.length k = true ↔ ∃ cs, (∀ c ∈ cs, IsScalar c) ∧ encStr cs = k :=
  ⟨utf8Ok_sound k.length k (Nat.le_refl _), fun ⟨cs, hcs, he⟩ => he ▸ utf8Ok_complete cs _ hcs (Nat.le_refl _)⟩

end Tahoe.Codec.Utf8
