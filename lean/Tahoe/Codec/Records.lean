import Tahoe.Base.Struct
import Tahoe.Generated.Encodings
/-
Lease records and share-container headers, Mathlib-free.

* `storage/lease.py` `LeaseInfo.to_immutable_data / from_immutable_data` (`>L32s32sL`, 72 bytes) and
  `to_mutable_data / from_mutable_data` (`>LL32s32s20s`, 92 bytes)
* `storage/lease_schema.py`: v1 serializers = the above; v2 serializers hash both secrets (`blake2b`,
  here an abstract `h : Bytes → Bytes`) before packing and wrap the unpacked record
* `storage/immutable_schema.py` `_Schema.header` (`>LLL`: version, `min(2^32-1, max_size)`, 0) and the
  reader in `storage/immutable.py` `ShareFile.__init__` / `is_valid_header`
* `storage/mutable_schema.py` `_header` (`>32s20s32sQQ` ++ four blank lease slots ++ `>L` 0) and the
  readers in `storage/mutable.py` (`_read_write_enabler_and_nodeid`, `_read_data_length`,
  `_read_extra_lease_offset`, `_read_num_extra_leases`, `schema_from_header`)
-/
namespace Tahoe.Codec.Records
open Tahoe.Base Tahoe.Base.Bytes Tahoe.Base.Struct

def immLeaseFields : List Field := [.u 4, .s 32, .s 32, .u 4]
def mutLeaseFields : List Field := [.u 4, .u 4, .s 32, .s 32, .s 20]
def immHeaderFields : List Field := [.u 4, .u 4, .u 4]
def mutHeaderFields : List Field := [.s 32, .s 20, .s 32, .u 8, .u 8]

/-- `LeaseInfo` (expiration time as the integer that `int(self._expiration_time)` yields) -/
structure Lease where
  owner : Int
  renew : Bytes
  cancel : Bytes
  expire : Int
  nodeid : Option Bytes
  deriving DecidableEq, Repr

/-- `to_immutable_data`; `none` = `struct.error` -/
def toImmutable (l : Lease) : Option Bytes :=
  pack immLeaseFields [.int l.owner, .bytes l.renew, .bytes l.cancel, .int l.expire]

/-- `from_immutable_data` -/
def fromImmutable (b : Bytes) : Option Lease :=
  match unpack immLeaseFields b with
  | some [.int o, .bytes r, .bytes c, .int e] => some ⟨o, r, c, e, none⟩
  | _ => none

/-- `to_mutable_data`; `nodeid = None` makes `struct.pack` fail -/
def toMutable (l : Lease) : Option Bytes :=
  match l.nodeid with
  | none => none
  | some nid => pack mutLeaseFields [.int l.owner, .int l.expire, .bytes l.renew, .bytes l.cancel, .bytes nid]

/-- `from_mutable_data` -/
def fromMutable (b : Bytes) : Option Lease :=
  match unpack mutLeaseFields b with
  | some [.int o, .int e, .bytes r, .bytes c, .bytes n] => some ⟨o, r, c, e, some n⟩
  | _ => none

/-- `HashedLeaseSerializer._hash_lease_info` with the secret hash `h` -/
def hashLease (h : Bytes → Bytes) (l : Lease) : Lease := { l with renew := h l.renew, cancel := h l.cancel }

/-- v2 serializers: hash, then pack -/
def toImmutableV2 (h : Bytes → Bytes) (l : Lease) : Option Bytes := toImmutable (hashLease h l)
def toMutableV2 (h : Bytes → Bytes) (l : Lease) : Option Bytes := toMutable (hashLease h l)

/-- `HashedLeaseInfo.is_renew_secret(candidate)` on a record `stored` read back from a v2 container -/
def isRenewSecretV2 (h : Bytes → Bytes) (stored : Lease) (candidate : Bytes) : Bool :=
  stored.renew == h candidate

def isCancelSecretV2 (h : Bytes → Bytes) (stored : Lease) (candidate : Bytes) : Bool :=
  stored.cancel == h candidate

/-- `LeaseInfo.renew(new_expire_time)` / `HashedLeaseInfo.renew`: a lease that differs in the
    expiration time only (the hashed wrapper is kept, so the stored secrets are not hashed again) -/
def renew (l : Lease) (newExpire : Int) : Lease := { l with expire := newExpire }

/-- decode → renew → encode, repeated: what a container does on every `renew_lease`.  The record read
    back is *already* in stored form (cleartext for v1, hashed once for v2), so it is packed as it is.
    Returns the record bytes after each step, ending with `none` if a step raised `struct.error`. -/
def renewCycle (mutableFmt : Bool) : Bytes → List Int → List (Option Bytes)
  | _, [] => []
  | b, e :: es =>
    match (if mutableFmt then fromMutable b else fromImmutable b) with
    | none => [none]
    | some stored =>
      match (if mutableFmt then toMutable (renew stored e) else toImmutable (renew stored e)) with
      | none => [none]
      | some b' => some b' :: renewCycle mutableFmt b' es

/-! ### immutable container header -/

/-- `_Schema.header(max_size)` for schema `version` -/
def immHeader (version : Int) (maxSize : Int) : Option Bytes :=
  pack immHeaderFields [.int version, .int (min 4294967295 maxSize), .int 0]

/-- `struct.unpack(">LLL", f.read(0xc))` → `(version, unused, num_leases)` -/
def readImmHeader (file : Bytes) : Option (Nat × Nat × Nat) :=
  match unpack immHeaderFields (file.take 12) with
  | some [.int v, .int u, .int n] => some (v.toNat, u.toNat, n.toNat)
  | _ => none

/-- `schema_from_version(version) is not None` -/
def immVersionKnown (v : Nat) : Bool := Tahoe.Generated.Encodings.imm_SCHEMA_VERSIONS.contains v

/-- `ShareFile.is_valid_header(header)`: `none` = `struct.error` (fewer than 4 bytes) -/
def immIsValidHeader (header : Bytes) : Option Bool :=
  if (header.take 4).length = 4 then some (immVersionKnown (beVal (header.take 4))) else none

/-! ### mutable container header -/

def magicOf (version : Nat) : Option Bytes :=
  if version = 1 then some Tahoe.Generated.Encodings.mut_MAGIC_v1
  else if version = 2 then some Tahoe.Generated.Encodings.mut_MAGIC_v2
  else none

/-- `_header(magic, extra_lease_offset, nodeid, write_enabler)` -/
def mutHeaderRaw (magic : Bytes) (extraLeaseOffset : Int) (nodeid writeEnabler : Bytes) : Option Bytes :=
  match pack mutHeaderFields [.bytes magic, .bytes nodeid, .bytes writeEnabler, .int 0, .int extraLeaseOffset] with
  | some fixed => some (fixed ++ List.replicate (Tahoe.Generated.Encodings.mut_LEASE_SIZE * 4) 0 ++ be 4 0)
  | none => none

/-- `_Schema.header(nodeid, write_enabler)` of the schema `version` -/
def mutHeader (version : Nat) (nodeid writeEnabler : Bytes) : Option Bytes :=
  match magicOf version with
  | some m => mutHeaderRaw m Tahoe.Generated.Encodings.mut_EXTRA_LEASE_OFFSET_VALUE nodeid writeEnabler
  | none => none

/-- `schema_from_header(header)`: the version whose magic is a prefix match (`header[:32] == magic`) -/
def mutSchemaOf (header : Bytes) : Option Nat :=
  if header.take 32 = Tahoe.Generated.Encodings.mut_MAGIC_v2 then some 2
  else if header.take 32 = Tahoe.Generated.Encodings.mut_MAGIC_v1 then some 1
  else none

inductive RErr where
  | struct | assertion
  deriving DecidableEq, Repr

/-- `_read_write_enabler_and_nodeid`: unpack the first 100 bytes, assert the magic; the full tuple is
    returned here `(magic, nodeid, write_enabler, data_length, extra_lease_offset)` -/
def readMutHeader (file : Bytes) : Except RErr (Bytes × Bytes × Bytes × Nat × Nat) :=
  match unpack mutHeaderFields (file.take 100) with
  | some [.bytes m, .bytes n, .bytes w, .int dl, .int elo] =>
    if (mutSchemaOf (file.take 100)).isSome then .ok (m, n, w, dl.toNat, elo.toNat) else .error .assertion
  | _ => .error .struct

/-- a `>Q` / `>L` field read at a fixed offset (`f.seek(off); struct.unpack(fmt, f.read(w))`) -/
def readUAt (file : Bytes) (off w : Nat) : Option Nat :=
  let b := slice file off w
  if b.length = w then some (beVal b) else none

def readDataLength (file : Bytes) : Option Nat := readUAt file Tahoe.Generated.Encodings.mut_DATA_LENGTH_OFFSET 8
def readExtraLeaseOffset (file : Bytes) : Option Nat := readUAt file Tahoe.Generated.Encodings.mut_EXTRA_LEASE_OFFSET_FIELD 8
def readNumExtraLeases (file : Bytes) : Option Nat :=
  match readExtraLeaseOffset file with
  | some off => readUAt file off 4
  | none => none

end Tahoe.Codec.Records
