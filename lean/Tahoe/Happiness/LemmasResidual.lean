import Tahoe.Happiness.LemmasBasic
/-! Characterisation of `residual_network`: which edges the residual graph has, and that the
residual capacity of each of them is 1. -/
namespace Tahoe.Happiness

/-- `(u, v)` is a residual edge of the edge list `E` under the flow `f` -/
def Resid (E : List (Nat × Nat)) (f : Matrix) (u v : Nat) : Prop :=
  ((u, v) ∈ E ∧ mget f u v ≠ 1) ∨ ((v, u) ∈ E ∧ mget f v u = 1)

theorem residFold_graph (f : Matrix) (dim : Nat) (E : List (Nat × Nat))
    (hE : ∀ e ∈ E, e.1 < dim ∧ e.2 < dim) (st : Graph × Matrix) (hlen : st.1.length = dim) :
    (E.foldl (residualEdge f) st).1.length = dim ∧
    ∀ u v, v ∈ adj (E.foldl (residualEdge f) st).1 u ↔ v ∈ adj st.1 u ∨ Resid E f u v := by
  induction E generalizing st with
  | nil => simp [hlen, Resid]
  | cons e rest ih =>
    have he := hE e (by simp)
    have hrest : ∀ e' ∈ rest, e'.1 < dim ∧ e'.2 < dim := fun e' h => hE e' (by simp [h])
    simp only [List.foldl_cons]
    have hlen1 : (residualEdge f st e).1.length = dim := by
      unfold residualEdge; split <;> simp [length_pushAdj, hlen]
    obtain ⟨h1, h2⟩ := ih hrest (residualEdge f st e) hlen1
    refine ⟨h1, ?_⟩
    intro u v
    rw [h2 u v]
    obtain ⟨a, b⟩ := e
    simp only [Resid, List.mem_cons, Prod.mk.injEq]
    unfold residualEdge
    by_cases hf : mget f a b = 1
    · simp only [hf, if_true, adj_pushAdj, hlen]
      by_cases hu : b = u
      · subst hu
        simp only [true_and, he.2, if_true, List.mem_append, List.mem_singleton]
        by_cases hv : v = a
        · subst hv; simp [hf]
        · simp [hv]; grind
      · simp [hu]; grind
    · simp only [hf, if_false, adj_pushAdj, hlen]
      by_cases hu : a = u
      · subst hu
        simp only [true_and, he.1, if_true, List.mem_append, List.mem_singleton]
        by_cases hv : v = b
        · subst hv; simp [hf]
        · simp [hv]; grind
      · simp [hu]; grind

theorem residFold_sq (f : Matrix) (dim : Nat) (E : List (Nat × Nat)) (st : Graph × Matrix)
    (hsq : Sq st.2 dim) : Sq (E.foldl (residualEdge f) st).2 dim := by
  induction E generalizing st with
  | nil => simpa using hsq
  | cons e rest ih =>
    simp only [List.foldl_cons]
    apply ih
    unfold residualEdge; split <;> exact (hsq.mset _ _ _).mset _ _ _

theorem residFold_untouched (f : Matrix) (dim : Nat) (E : List (Nat × Nat)) (st : Graph × Matrix)
    (hsq : Sq st.2 dim) (x y : Nat) (h1 : (x, y) ∉ E) (h2 : (y, x) ∉ E) :
    mget (E.foldl (residualEdge f) st).2 x y = mget st.2 x y := by
  induction E generalizing st with
  | nil => simp
  | cons e rest ih =>
    simp only [List.foldl_cons]
    simp only [List.mem_cons, not_or] at h1 h2
    have hsq1 : Sq (residualEdge f st e).2 dim := by
      unfold residualEdge; split <;> exact (hsq.mset _ _ _).mset _ _ _
    rw [ih _ hsq1 h1.2 h2.2]
    obtain ⟨a, b⟩ := e
    have hab : ¬ (a = x ∧ b = y) := fun h => h1.1 (by simp [h.1, h.2])
    have hba : ¬ (b = x ∧ a = y) := fun h => h2.1 (by simp [h.1, h.2])
    unfold residualEdge
    split
    · simp only [mget_mset (hsq.mset _ _ _), mget_mset hsq]; grind
    · simp only [mget_mset (hsq.mset _ _ _), mget_mset hsq]; grind

theorem residFold_cap (f : Matrix) (dim : Nat) (E : List (Nat × Nat))
    (hE : ∀ e ∈ E, e.1 < dim ∧ e.2 < dim) (hnd : E.Nodup) (hanti : ∀ a b, (a, b) ∈ E → (b, a) ∉ E)
    (st : Graph × Matrix) (hsq : Sq st.2 dim) (u v : Nat) (hr : Resid E f u v) :
    mget (E.foldl (residualEdge f) st).2 u v = 1 := by
  induction E generalizing st with
  | nil => simp [Resid] at hr
  | cons e rest ih =>
    have he := hE e (by simp)
    have hrest : ∀ e' ∈ rest, e'.1 < dim ∧ e'.2 < dim := fun e' h => hE e' (by simp [h])
    have hnd' := (List.nodup_cons.mp hnd)
    have hanti' : ∀ a b, (a, b) ∈ rest → (b, a) ∉ rest := fun a b h h' =>
      hanti a b (by simp [h]) (by simp [h'])
    have hsq1 : Sq (residualEdge f st e).2 dim := by
      unfold residualEdge; split <;> exact (hsq.mset _ _ _).mset _ _ _
    simp only [List.foldl_cons]
    obtain ⟨a, b⟩ := e
    have hself : a ≠ b := fun h => hanti a b (by simp) (by simp [h])
    have hswap : (b, a) ∉ rest := fun h => hanti a b (by simp) (by simp [h])
    -- is (u,v) residual because of the head edge?
    by_cases hhead : (u = a ∧ v = b ∧ mget f a b ≠ 1) ∨ (v = a ∧ u = b ∧ mget f a b = 1)
    · have h1 : (u, v) ∉ rest := by
        rcases hhead with ⟨rfl, rfl, _⟩ | ⟨rfl, rfl, _⟩
        · exact hnd'.1
        · exact hswap
      have h2 : (v, u) ∉ rest := by
        rcases hhead with ⟨rfl, rfl, _⟩ | ⟨rfl, rfl, _⟩
        · exact hswap
        · exact hnd'.1
      rw [residFold_untouched f dim rest _ hsq1 u v h1 h2]
      unfold residualEdge
      rcases hhead with ⟨rfl, rfl, hf⟩ | ⟨rfl, rfl, hf⟩
      · simp only [hf, if_false, mget_mset (hsq.mset _ _ _), mget_mset hsq]
        simp [he.1, he.2, hself, Ne.symm hself]
      · simp only [hf, if_true, mget_mset (hsq.mset _ _ _), mget_mset hsq]
        simp [he.1, he.2, hself, Ne.symm hself]
    · apply ih hrest hnd'.2 hanti' _ hsq1
      simp only [Resid, List.mem_cons, Prod.mk.injEq] at hr ⊢
      grind

theorem residFold_rows_nodup (f : Matrix) (dim : Nat) (E : List (Nat × Nat))
    (hE : ∀ e ∈ E, e.1 < dim ∧ e.2 < dim) (hnd : E.Nodup) (hanti : ∀ a b, (a, b) ∈ E → (b, a) ∉ E)
    (st : Graph × Matrix) (hlen : st.1.length = dim) (hst : ∀ u, (adj st.1 u).Nodup)
    (hfresh : ∀ u v, v ∈ adj st.1 u → (u, v) ∉ E ∧ (v, u) ∉ E) :
    ∀ u, (adj (E.foldl (residualEdge f) st).1 u).Nodup := by
  induction E generalizing st with
  | nil => simpa using hst
  | cons e rest ih =>
    have he := hE e (by simp)
    have hrest : ∀ e' ∈ rest, e'.1 < dim ∧ e'.2 < dim := fun e' h => hE e' (by simp [h])
    have hnd' := List.nodup_cons.mp hnd
    have hanti' : ∀ a b, (a, b) ∈ rest → (b, a) ∉ rest := fun a b h h' =>
      hanti a b (by simp [h]) (by simp [h'])
    obtain ⟨a, b⟩ := e
    have hswap : (b, a) ∉ rest := fun h => hanti a b (by simp) (by simp [h])
    simp only [List.foldl_cons]
    have hlen1 : (residualEdge f st (a, b)).1.length = dim := by
      unfold residualEdge; split <;> simp [length_pushAdj, hlen]
    apply ih hrest hnd'.2 hanti' _ hlen1
    · intro u
      unfold residualEdge
      split
      · simp only [adj_pushAdj]
        split
        · rename_i h
          obtain ⟨rfl, _⟩ := h
          rw [List.nodup_append]
          refine ⟨hst _, by simp, ?_⟩
          intro x hx y hy
          simp only [List.mem_singleton] at hy; subst hy
          intro e; subst e
          exact (hfresh _ _ hx).2 (by simp)
        · exact hst u
      · simp only [adj_pushAdj]
        split
        · rename_i h
          obtain ⟨rfl, _⟩ := h
          rw [List.nodup_append]
          refine ⟨hst _, by simp, ?_⟩
          intro x hx y hy
          simp only [List.mem_singleton] at hy; subst hy
          intro e; subst e
          exact (hfresh _ _ hx).1 (by simp)
        · exact hst u
    · intro u v hv
      unfold residualEdge at hv
      split at hv
      · simp only [adj_pushAdj] at hv
        split at hv
        · rename_i h
          obtain ⟨rfl, _⟩ := h
          simp only [List.mem_append, List.mem_singleton] at hv
          rcases hv with hv | rfl
          · have := hfresh _ _ hv
            exact ⟨fun h => this.1 (by simp [h]), fun h => this.2 (by simp [h])⟩
          · exact ⟨hswap, hnd'.1⟩
        · have := hfresh _ _ hv
          exact ⟨fun h => this.1 (by simp [h]), fun h => this.2 (by simp [h])⟩
      · simp only [adj_pushAdj] at hv
        split at hv
        · rename_i h
          obtain ⟨rfl, _⟩ := h
          simp only [List.mem_append, List.mem_singleton] at hv
          rcases hv with hv | rfl
          · have := hfresh _ _ hv
            exact ⟨fun h => this.1 (by simp [h]), fun h => this.2 (by simp [h])⟩
          · exact ⟨hnd'.1, hswap⟩
        · have := hfresh _ _ hv
          exact ⟨fun h => this.1 (by simp [h]), fun h => this.2 (by simp [h])⟩

theorem edgesOf_lt (g : Graph) (hr : ∀ u v, v ∈ adj g u → v < g.length) :
    ∀ e ∈ edgesOf g, e.1 < g.length ∧ e.2 < g.length := by
  intro e he
  obtain ⟨a, b⟩ := e
  rw [mem_edgesOf] at he
  exact ⟨lt_of_mem_adj he, hr a b he⟩

/-- the residual graph has an edge `u → v` exactly for an unsaturated edge `(u,v)` of `g` or a
saturated edge `(v,u)` of `g` -/
theorem residual_graph (g : Graph) (f : Matrix) (hr : ∀ u v, v ∈ adj g u → v < g.length) :
    (residualNetwork g f).1.length = g.length ∧
    ∀ u v, v ∈ adj (residualNetwork g f).1 u ↔
      (v ∈ adj g u ∧ mget f u v ≠ 1) ∨ (u ∈ adj g v ∧ mget f v u = 1) := by
  have h := residFold_graph f g.length (edgesOf g) (edgesOf_lt g hr)
    (List.replicate g.length [], zeroMatrix g.length) (by simp)
  refine ⟨h.1, ?_⟩
  intro u v
  rw [residualNetwork, h.2 u v]
  have : ¬ v ∈ adj (List.replicate g.length ([] : List Nat)) u := by
    simp only [adj, getD_replicate]; split <;> simp
  simp only [this, false_or, Resid, mem_edgesOf]

/-- the rows of the residual graph are duplicate-free -/
theorem residual_rows_nodup (g : Graph) (f : Matrix) (hr : ∀ u v, v ∈ adj g u → v < g.length)
    (hnd : (edgesOf g).Nodup) (hanti : ∀ a b, b ∈ adj g a → a ∉ adj g b) (u : Nat) :
    (adj (residualNetwork g f).1 u).Nodup := by
  apply residFold_rows_nodup f g.length (edgesOf g) (edgesOf_lt g hr) hnd
    (fun a b h1 h2 => hanti a b ((mem_edgesOf g a b).mp h1) ((mem_edgesOf g b a).mp h2))
    _ (by simp)
  · intro u; simp only [adj, getD_replicate]; split <;> simp
  · intro u v hv
    simp only [adj, getD_replicate] at hv
    split at hv <;> simp at hv

/-- every edge of the residual graph has residual capacity 1 -/
theorem residual_cap (g : Graph) (f : Matrix) (hr : ∀ u v, v ∈ adj g u → v < g.length)
    (hnd : (edgesOf g).Nodup) (hanti : ∀ a b, b ∈ adj g a → a ∉ adj g b)
    (u v : Nat) (h : v ∈ adj (residualNetwork g f).1 u) : mget (residualNetwork g f).2 u v = 1 := by
  rw [(residual_graph g f hr).2] at h
  apply residFold_cap f g.length (edgesOf g) (edgesOf_lt g hr) hnd
    (fun a b h1 h2 => hanti a b ((mem_edgesOf g a b).mp h1) ((mem_edgesOf g b a).mp h2))
    _ (Sq.zero _)
  simpa only [Resid, mem_edgesOf] using h

end Tahoe.Happiness
