/-
Model of the data preparation of `allmydata/util/happinessutil.py`
(`shares_by_server`, `merge_servers`, `_reindex`, `_flow_network_for`) and of the small
containers the flow code works on (adjacency lists, square integer matrices).
Mathlib-free; executable; used by `Drv/C08.lean` and `Drv/C07.lean`.

Conventions
* a Python `dict` is an association list in *insertion order* (keys distinct);
* a Python `set` that the code *builds itself* is a sorted duplicate-free list (ascending).
  CPython iterates a set of small non-negative ints (< 8) in ascending order, so on such ids the
  model follows the implementation step by step; for other ids only order-independent results
  are compared (see harness/props/c08.py).  Sets that are *inputs* are taken as lists in the
  order the caller's set iterates (any order; the theorems quantify over all of them).
* `list[i]` with `i` out of range raises `IndexError` in Python; the model reads a default
  (`[]` / `0`) and writes nothing.  On every graph produced by the builders below all indices
  are in range (`Tahoe/Happiness/Lemmas*.lean`), so the default is never observed.
-/
namespace Tahoe.Happiness

abbrev Graph := List (List Nat)
abbrev Matrix := List (List Int)
/-- a dict `key -> set/list of ids` -/
abbrev SetMap := List (Nat × List Nat)

/-- `graph[u]` -/
def adj (g : Graph) (u : Nat) : List Nat := g.getD u []

/-- `f[i][j]` -/
def mget (f : Matrix) (i j : Nat) : Int := (f.getD i []).getD j 0

/-- `f[i][j] = x` -/
def mset (f : Matrix) (i j : Nat) (x : Int) : Matrix := f.modify i (fun row => row.set j x)

/-- `[[0 for _ in range(dim)] for _ in range(dim)]` -/
def zeroMatrix (dim : Nat) : Matrix := List.replicate dim (List.replicate dim 0)

/-- `new_graph[u].append(v)` -/
def pushAdj (g : Graph) (u v : Nat) : Graph := g.modify u (fun row => row ++ [v])

/-- `set.add` on a sorted duplicate-free list -/
def sinsert (x : Nat) : List Nat → List Nat
  | [] => [x]
  | y :: ys => if x < y then x :: y :: ys else if x = y then y :: ys else y :: sinsert x ys

/-- `set(iterable)` -/
def mkSet (l : List Nat) : List Nat := l.foldl (fun acc x => sinsert x acc) []

/-- `a - b` on sets -/
def sdiff (a b : List Nat) : List Nat := a.filter (fun x => !b.contains x)

/-- `d[k]` on a set-valued dict (missing key: empty; callers test membership first) -/
def dget (d : SetMap) (k : Nat) : List Nat := (d.lookup k).getD []

def dhas (d : SetMap) (k : Nat) : Bool := (d.lookup k).isSome

/-- `ret.setdefault(peer, set()).add(share)` -/
def addToSet (key x : Nat) : SetMap → SetMap
  | [] => [(key, [x])]
  | (k, s) :: rest => if k = key then (k, sinsert x s) :: rest else (k, s) :: addToSet key x rest

/-- `shares_by_server(servermap)`: argument `shareid -> set(peerid)` (dict order; each set in its
iteration order), result `peerid -> set(shareid)` in first-seen key order. -/
def sharesByServer (sharemap : SetMap) : SetMap :=
  sharemap.foldl (fun ret e => e.2.foldl (fun ret p => addToSet p e.1 ret) ret) []

/-- `merge_servers(servermap, upload_trackers)`: a tracker is `(serverid, buckets)`.
The deep copy is the identity on values; sets are normalised to sorted lists. -/
def mergeServers (sharemap : SetMap) (trackers : SetMap) : SetMap :=
  let sm := sharemap.map (fun e => (e.1, mkSet e.2))
  trackers.foldl (fun sm t => t.2.foldl (fun sm shnum => addToSet shnum t.1 sm) sm) sm

/-- inner loop of `happinessutil._reindex`: number the not yet seen shares of one row.
State: the dict `shares` (shareid -> vertex index, insertion order) and the counter `num`. -/
def numberRow (row : List Nat) (st : List (Nat × Nat) × Nat) : List (Nat × Nat) × Nat :=
  row.foldl (fun st sh => if (st.1.lookup sh).isSome then st else (st.1 ++ [(sh, st.2)], st.2 + 1)) st

/-- second loop of `_reindex` over the rows in dict order; `out` collects the re-indexed rows. -/
def reindexRows (rows : List (List Nat)) (st : List (List Nat) × List (Nat × Nat) × Nat) :
    List (List Nat) × List (Nat × Nat) × Nat :=
  rows.foldl (fun st row =>
    let t := numberRow row (st.2.1, st.2.2)
    (st.1 ++ [row.map (fun x => (t.1.lookup x).getD 0)], t.1, t.2)) st

/-- `happinessutil._reindex(servermap, base_index)`: servers are numbered `base ..` in dict
order, then shares in order of first appearance; returns the re-indexed servermap and the number
of distinct shares.  (`shares[x]` always succeeds because `x` was just numbered; `getD 0` is never
taken.) -/
def reindex (servermap : SetMap) (base : Nat) : SetMap × Nat :=
  let rows := servermap.map (·.2)
  let n := rows.length
  let r := reindexRows rows ([], [], base + n)
  ((List.range' base n).zip r.1, r.2.1.length)

/-- `happinessutil._flow_network_for(servermap)`: vertex 0 = source, `1..n` servers,
`n+1..n+m` shares, `n+m+1` sink. -/
def flowNetworkFor (servermap : SetMap) : Graph :=
  let r := reindex servermap 1
  let numServers := r.1.length
  let sink := numServers + r.2 + 1
  [r.1.map (·.1)] ++ r.1.map (·.2) ++ List.replicate r.2 [sink] ++ [[]]

/-! ### Specification side: relations and matchings -/

/-- the server/share relation of a `shareid -> set(peerid)` map, as (peer, share) pairs -/
def rel (sharemap : SetMap) : List (Nat × Nat) :=
  sharemap.flatMap (fun e => e.2.map (fun p => (p, e.1)))

/-- the relation of a `peerid -> set(shareid)` map, as (peer, share) pairs -/
def relOfServermap (servermap : SetMap) : List (Nat × Nat) :=
  servermap.flatMap (fun e => e.2.map (fun s => (e.1, s)))

/-- `M` is a matching inside the edge set `E`: a list of edges of `E`, no two of which share a
first or a second coordinate (in particular no edge is repeated). -/
def IsMatching (E M : List (Nat × Nat)) : Prop :=
  (∀ e ∈ M, e ∈ E) ∧ M.Pairwise (fun a b => a.1 ≠ b.1 ∧ a.2 ≠ b.2)

/-- `k` is the size of a maximum matching of `E` -/
def IsMaxMatchingSize (E : List (Nat × Nat)) (k : Nat) : Prop :=
  (∃ M, IsMatching E M ∧ M.length = k) ∧ ∀ M, IsMatching E M → M.length ≤ k

/-- executable check that a list of edges is a matching (for the brute-force reference) -/
def isMatchingB : List (Nat × Nat) → Bool
  | [] => true
  | a :: rest => rest.all (fun b => a.1 != b.1 && a.2 != b.2) && isMatchingB rest

/-- all sublists -/
def sublistsOf : List (Nat × Nat) → List (List (Nat × Nat))
  | [] => [[]]
  | a :: rest => let r := sublistsOf rest; r ++ r.map (a :: ·)

/-- brute-force maximum matching number: the largest matching among all sublists of `E`
(exponential; only for `example`s and the driver's self-check on tiny inputs) -/
def maxMatchingBrute (E : List (Nat × Nat)) : Nat :=
  ((sublistsOf E).filter isMatchingB).foldl (fun m M => max m M.length) 0

end Tahoe.Happiness
