import Tahoe.Happiness.LemmasSbs
/-! The executable brute-force `maxMatchingBrute` really is the maximum matching number. -/
namespace Tahoe.Happiness

theorem isMatchingB_iff (M : List (Nat × Nat)) :
    isMatchingB M = true ↔ M.Pairwise (fun a b => a.1 ≠ b.1 ∧ a.2 ≠ b.2) := by
  induction M with
  | nil => simp [isMatchingB]
  | cons a rest ih =>
    simp only [isMatchingB, Bool.and_eq_true, List.all_eq_true, bne_iff_ne, ne_eq, ih,
      List.pairwise_cons]

theorem mem_sublistsOf (E M : List (Nat × Nat)) : M ∈ sublistsOf E ↔ M.Sublist E := by
  induction E generalizing M with
  | nil => simp [sublistsOf]
  | cons a rest ih =>
    simp only [sublistsOf, List.mem_append, List.mem_map, ih]
    constructor
    · rintro (h | ⟨M', h, rfl⟩)
      · exact h.cons a
      · exact h.cons_cons a
    · intro h
      cases h with
      | cons _ h => left; exact h
      | cons_cons _ h => right; exact ⟨_, h, rfl⟩

theorem exists_sublist_perm (E : List (Nat × Nat)) :
    ∀ M : List (Nat × Nat), M.Nodup → (∀ e ∈ M, e ∈ E) → ∃ M' : List (Nat × Nat), M'.Sublist E ∧ M'.Perm M := by
  induction E with
  | nil =>
    intro M _ hsub
    cases M with
    | nil => exact ⟨[], List.Sublist.refl _, List.Perm.refl _⟩
    | cons a _ => have := hsub a (by simp); simp at this
  | cons a rest ih =>
    intro M hnd hsub
    by_cases ha : a ∈ M
    · obtain ⟨M', h1, h2⟩ := ih (M.erase a) (hnd.erase a) (by
        intro e he
        have he' := hnd.mem_erase_iff.mp he
        have := hsub e he'.2
        simp only [List.mem_cons] at this
        rcases this with h | h
        · exact absurd h he'.1
        · exact h)
      exact ⟨a :: M', h1.cons_cons a, (h2.cons a).trans (List.perm_cons_erase ha).symm⟩
    · obtain ⟨M', h1, h2⟩ := ih M hnd (by
        intro e he
        have := hsub e he
        simp only [List.mem_cons] at this
        rcases this with h | h
        · subst h; exact absurd he ha
        · exact h)
      exact ⟨M', h1.cons a, h2⟩

theorem foldl_max_ge (Ms : List (List (Nat × Nat))) (b : Nat) :
    b ≤ Ms.foldl (fun m M => max m M.length) b ∧
    ∀ M ∈ Ms, M.length ≤ Ms.foldl (fun m M => max m M.length) b := by
  induction Ms generalizing b with
  | nil => simp
  | cons a rest ih =>
    simp only [List.foldl_cons]
    obtain ⟨h1, h2⟩ := ih (max b a.length)
    refine ⟨by omega, ?_⟩
    intro M hM
    simp only [List.mem_cons] at hM
    rcases hM with rfl | hM
    · omega
    · exact h2 M hM

theorem foldl_max_attained (Ms : List (List (Nat × Nat))) (b : Nat) :
    Ms.foldl (fun m M => max m M.length) b = b ∨
    ∃ M ∈ Ms, M.length = Ms.foldl (fun m M => max m M.length) b := by
  induction Ms generalizing b with
  | nil => left; rfl
  | cons a rest ih =>
    simp only [List.foldl_cons]
    rcases ih (max b a.length) with h | ⟨M, hM, hl⟩
    · rw [h]
      by_cases hba : a.length ≤ b
      · left; omega
      · right; exact ⟨a, by simp, by omega⟩
    · right; exact ⟨M, by simp [hM], hl⟩

/-- the brute-force search over all sublists computes the maximum matching number -/
theorem maxMatchingBrute_spec (E : List (Nat × Nat)) : IsMaxMatchingSize E (maxMatchingBrute E) := by
  unfold maxMatchingBrute
  constructor
  · rcases foldl_max_attained ((sublistsOf E).filter isMatchingB) 0 with h | ⟨M, hM, hl⟩
    · rw [h]; exact ⟨[], ⟨by simp, List.Pairwise.nil⟩, rfl⟩
    · rw [← hl]
      simp only [List.mem_filter] at hM
      refine ⟨M, ⟨?_, (isMatchingB_iff M).mp hM.2⟩, rfl⟩
      exact fun e he => ((mem_sublistsOf E M).mp hM.1).subset he
  · intro M hM
    have hnd : M.Nodup := by
      rw [List.nodup_iff_pairwise_ne]
      exact hM.2.imp (fun hab e => hab.1 (by rw [e]))
    obtain ⟨M', h1, h2⟩ := exists_sublist_perm E M hnd hM.1
    have hp : M'.Pairwise (fun a b => a.1 ≠ b.1 ∧ a.2 ≠ b.2) :=
      h2.symm.pairwise hM.2 (fun h => ⟨Ne.symm h.1, Ne.symm h.2⟩)
    have hmem : M' ∈ (sublistsOf E).filter isMatchingB := by
      simp only [List.mem_filter]
      exact ⟨(mem_sublistsOf E M').mpr h1, (isMatchingB_iff M').mpr hp⟩
    have := (foldl_max_ge ((sublistsOf E).filter isMatchingB) 0).2 M' hmem
    rw [h2.length_eq] at this
    exact this

end Tahoe.Happiness
