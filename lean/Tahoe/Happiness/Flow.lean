import Tahoe.Happiness.Graph
/-
Model of the flow code in `allmydata/immutable/happiness_upload.py`
(`bfs`, `augmenting_path_for`, `residual_network`, the Edmonds–Karp loop of
`_compute_maximum_graph`) and of `allmydata/util/happinessutil.py: servers_of_happiness`
(which carries its own copy of the loop).  Transcribed as written: colour / predecessor /
distance arrays and a FIFO queue, 0/±1 flow matrix, residual network rebuilt from scratch.

`while` loops carry a fuel argument:
* `bfsLoop`: fuel = `len(graph)` (every iteration blackens one vertex; `Lemmas` prove the queue is
  empty when the fuel is used up);
* `walkBack` (the `while n != 0` of `augmenting_path_for`): fuel = `len(graph) + 1` (distances
  strictly decrease along predecessors and are below `len(graph)`);
* the augment loop: fuel = `len(graph)` (each round adds one unit of flow out of the source and
  the flow out of the source is at most the number of servers < `len(graph)`).
-/
namespace Tahoe.Happiness

/-- the four local lists of `bfs` -/
structure Bfs where
  color : List Nat            -- 0 WHITE, 1 GRAY, 2 BLACK
  pred  : List (Option Nat)
  dist  : List Int
  queue : List Nat
deriving Repr

/-- body of `for v in graph[n]` -/
def Bfs.visit (n : Nat) (st : Bfs) (v : Nat) : Bfs :=
  if v < st.color.length ∧ st.color.getD v 0 = 0 then
    { color := st.color.set v 1
      dist := st.dist.set v (st.dist.getD n (-1) + 1)
      pred := st.pred.set v (some n)
      queue := st.queue ++ [v] }
  else st

/-- one iteration of `while queue:` -/
def Bfs.step (g : Graph) (st : Bfs) (n : Nat) (q : List Nat) : Bfs :=
  let st1 := (adj g n).foldl (Bfs.visit n) { st with queue := q }
  { st1 with color := st1.color.set n 2 }

def bfsLoop (g : Graph) : Nat → Bfs → Bfs
  | 0, st => st
  | fuel + 1, st =>
    match st.queue with
    | [] => st
    | n :: q => bfsLoop g fuel (Bfs.step g st n q)

def bfsInit (g : Graph) (s : Nat) : Bfs :=
  { color := (List.replicate g.length 0).set s 1
    pred := List.replicate g.length none
    dist := (List.replicate g.length (-1)).set s 0
    queue := [s] }

def bfsRun (g : Graph) (s : Nat) : Bfs := bfsLoop g g.length (bfsInit g s)

/-- `bfs(graph, s)`: the predecessor table -/
def bfs (g : Graph) (s : Nat) : List (Option Nat) := (bfsRun g s).pred

/-- `while n != 0: path.insert(0, (bfs_tree[n], n)); n = bfs_tree[n]`.
`none` = the Python code would fail (`bfs_tree[n]` is `None`) or the fuel ran out; neither happens
on a predecessor table produced by `bfs` (lemma `walkBack_spec` in `LemmasPath.lean`). -/
def walkBack (tree : List (Option Nat)) : Nat → Nat → List (Nat × Nat) → Option (List (Nat × Nat))
  | 0, _, _ => none
  | fuel + 1, n, path =>
    if n = 0 then some path else
    match tree.getD n none with
    | none => none
    | some p => walkBack tree fuel p ((p, n) :: path)

/-- `augmenting_path_for(graph)`; `none` = `False`.  The test `if bfs_tree[len(graph) - 1]` is a
truthiness test: a predecessor `0` counts as no path (as in the code). -/
def augmentingPathFor (g : Graph) : Option (List (Nat × Nat)) :=
  let tree := bfs g 0
  match tree.getD (g.length - 1) none with
  | none => none
  | some p => if p = 0 then none else walkBack tree (g.length + 1) (g.length - 1) []

/-- body of the double loop of `residual_network` for one edge `(i, v)` of `graph` -/
def residualEdge (f : Matrix) (st : Graph × Matrix) (e : Nat × Nat) : Graph × Matrix :=
  if mget f e.1 e.2 = 1 then
    (pushAdj st.1 e.2 e.1, mset (mset st.2 e.2 e.1 1) e.1 e.2 (-1))
  else
    (pushAdj st.1 e.1 e.2, mset (mset st.2 e.1 e.2 1) e.2 e.1 (-1))

/-- the edges of a graph in the order the double loop visits them -/
def edgesOf (g : Graph) : List (Nat × Nat) :=
  (List.range g.length).flatMap (fun i => (adj g i).map (fun v => (i, v)))

/-- `residual_network(graph, f)` -/
def residualNetwork (g : Graph) (f : Matrix) : Graph × Matrix :=
  (edgesOf g).foldl (residualEdge f) (List.replicate g.length [], zeroMatrix g.length)

/-- `min(residual_function[u][v] for (u, v) in path)` (Python raises on an empty path; paths
returned by `augmenting_path_for` are never empty) -/
def pathDelta (cf : Matrix) (path : List (Nat × Nat)) : Int :=
  match path.map (fun e => mget cf e.1 e.2) with
  | [] => 0
  | x :: xs => xs.foldl min x

/-- `flow_function[u][v] += delta; flow_function[v][u] -= delta` -/
def pushEdge (delta : Int) (f : Matrix) (e : Nat × Nat) : Matrix :=
  let f1 := mset f e.1 e.2 (mget f e.1 e.2 + delta)
  mset f1 e.2 e.1 (mget f1 e.2 e.1 - delta)

/-- loop state: flow function, residual graph, residual capacity function -/
abbrev FlowState := Matrix × Graph × Matrix

/-- one round of the `while` loop in `servers_of_happiness`: the residual network is rebuilt once,
after the `for` over the path. -/
def augmentOuter (g : Graph) (st : FlowState) (path : List (Nat × Nat)) : FlowState :=
  let delta := pathDelta st.2.2 path
  let f := path.foldl (pushEdge delta) st.1
  let r := residualNetwork g f
  (f, r.1, r.2)

/-- one round of the `while` loop in `_compute_maximum_graph`: the residual network is rebuilt
inside the `for` over the path, after every edge (the last rebuild is the one that counts). -/
def augmentInner (g : Graph) (st : FlowState) (path : List (Nat × Nat)) : FlowState :=
  let delta := pathDelta st.2.2 path
  path.foldl (fun st e =>
    let f := pushEdge delta st.1 e
    let r := residualNetwork g f
    (f, r.1, r.2)) st

/-- `while augmenting_path_for(residual_graph): path = augmenting_path_for(residual_graph); …`
(the path is computed twice per round, as in the code) -/
def flowLoop (round : Graph → FlowState → List (Nat × Nat) → FlowState) (g : Graph) :
    Nat → FlowState → FlowState
  | 0, st => st
  | fuel + 1, st =>
    if (augmentingPathFor st.2.1).isSome then
      match augmentingPathFor st.2.1 with
      | some path => flowLoop round g fuel (round g st path)
      | none => st
    else st

def flowInit (g : Graph) : FlowState :=
  let f := zeroMatrix g.length
  let r := residualNetwork g f
  (f, r.1, r.2)

/-- the maximum-flow computation of `servers_of_happiness` -/
def maxFlowOuter (g : Graph) : FlowState := flowLoop augmentOuter g g.length (flowInit g)

/-- the maximum-flow computation of `_compute_maximum_graph` -/
def maxFlowInner (g : Graph) : FlowState := flowLoop augmentInner g g.length (flowInit g)

/-- `sum([flow_function[0][v] for v in range(1, num_servers+1)])` -/
def flowValue (f : Matrix) (numServers : Nat) : Int :=
  ((List.range' 1 numServers).map (fun v => mget f 0 v)).sum

/-- `servers_of_happiness` from the point where `servermap = shares_by_server(sharemap)` is known;
`servermap` in dict order, each share set in its iteration order -/
def sohOfServermap (servermap : SetMap) : Int :=
  let g := flowNetworkFor servermap
  flowValue (maxFlowOuter g).1 servermap.length

/-- `servers_of_happiness(sharemap)` -/
def serversOfHappiness (sharemap : SetMap) : Int :=
  if sharemap.isEmpty then 0 else sohOfServermap (sharesByServer sharemap)

/-- the uploader's happiness test after a round of allocations (`upload.py`, twice in
`Tahoe2ServerSelector.get_shareholders`):
`servers_of_happiness(merge_servers(peer_selector.get_sharemap_of_preexisting_shares(), use_trackers))`.
`existing` is `PeerSelector.existing_shares` (`server -> set(shnum)`, dict order);
`get_sharemap_of_preexisting_shares` inverts it with `DictOfSets.add(share, server)` -- the same
loop as `shares_by_server`, with the roles of the two coordinates swapped; a tracker is
`(serverid, buckets)`. -/
def effectiveHappiness (existing : SetMap) (trackers : SetMap) : Int :=
  serversOfHappiness (mergeServers (sharesByServer existing) trackers)

end Tahoe.Happiness
