import Tahoe.Happiness.LemmasMain
/-! `shares_by_server`: the result is the converse relation, with distinct keys and
duplicate-free (sorted) value lists. -/
namespace Tahoe.Happiness

theorem mem_sinsert (x z : Nat) (l : List Nat) : z ∈ sinsert x l ↔ z = x ∨ z ∈ l := by
  induction l with
  | nil => simp [sinsert]
  | cons y ys ih =>
    unfold sinsert
    split
    · simp
    · split
      · rename_i h; subst h; simp
      · simp only [List.mem_cons, ih]
        constructor
        · rintro (h | h | h)
          · right; left; exact h
          · left; exact h
          · right; right; exact h
        · rintro (h | h | h)
          · right; left; exact h
          · left; exact h
          · right; right; exact h

theorem sorted_sinsert (x : Nat) (l : List Nat) (h : l.Pairwise (· < ·)) :
    (sinsert x l).Pairwise (· < ·) := by
  induction l with
  | nil => simp [sinsert]
  | cons y ys ih =>
    have hp := List.pairwise_cons.mp h
    unfold sinsert
    split
    · rename_i hxy
      apply List.pairwise_cons.mpr
      refine ⟨?_, h⟩
      intro a ha
      simp only [List.mem_cons] at ha
      rcases ha with rfl | ha
      · exact hxy
      · have := hp.1 a ha; omega
    · split
      · exact h
      · rename_i h1 h2
        apply List.pairwise_cons.mpr
        refine ⟨?_, ih hp.2⟩
        intro a ha
        rcases (mem_sinsert x a ys).mp ha with rfl | ha
        · omega
        · exact hp.1 a ha

theorem nodup_of_sorted (l : List Nat) (h : l.Pairwise (· < ·)) : l.Nodup := by
  rw [List.nodup_iff_pairwise_ne]
  exact h.imp (fun hab => by omega)

/-- invariant of the dict built by `shares_by_server` -/
def SbsInv (d : SetMap) : Prop := (d.map (·.1)).Nodup ∧ ∀ e ∈ d, e.2.Pairwise (· < ·)

theorem addToSet_keys (key x : Nat) (d : SetMap) (k : Nat) :
    k ∈ (addToSet key x d).map (·.1) ↔ k = key ∨ k ∈ d.map (·.1) := by
  induction d with
  | nil => simp [addToSet]
  | cons e rest ih =>
    obtain ⟨k', s⟩ := e
    unfold addToSet
    split
    · rename_i h; subst h; simp
    · simp only [List.map_cons, List.mem_cons, ih]
      constructor
      · rintro (h | h | h)
        · right; left; exact h
        · left; exact h
        · right; right; exact h
      · rintro (h | h | h)
        · right; left; exact h
        · left; exact h
        · right; right; exact h

theorem addToSet_inv (key x : Nat) (d : SetMap) (h : SbsInv d) : SbsInv (addToSet key x d) := by
  induction d with
  | nil =>
    refine ⟨by simp [addToSet], ?_⟩
    intro e he; simp only [addToSet, List.mem_singleton] at he; subst he; simp
  | cons e rest ih =>
    obtain ⟨k', s⟩ := e
    obtain ⟨h1, h2⟩ := h
    have hk := List.nodup_cons.mp h1
    have hrest : SbsInv rest := ⟨hk.2, fun e he => h2 e (by simp [he])⟩
    unfold addToSet
    split
    · rename_i heq
      refine ⟨by simpa using h1, ?_⟩
      intro e he
      simp only [List.mem_cons] at he
      rcases he with rfl | he
      · exact sorted_sinsert x s (h2 (k', s) (by simp))
      · exact h2 e (by simp [he])
    · rename_i hne
      obtain ⟨i1, i2⟩ := ih hrest
      refine ⟨?_, ?_⟩
      · simp only [List.map_cons]
        apply List.nodup_cons.mpr
        refine ⟨?_, i1⟩
        intro hm
        rcases (addToSet_keys key x rest k').mp hm with h | h
        · exact hne h
        · exact hk.1 h
      · intro e he
        simp only [List.mem_cons] at he
        rcases he with rfl | he
        · exact h2 (k', s) (by simp)
        · exact i2 e he

theorem addToSet_rel (key x : Nat) (d : SetMap) (p s : Nat) :
    (p, s) ∈ relOfServermap (addToSet key x d) ↔ (p = key ∧ s = x) ∨ (p, s) ∈ relOfServermap d := by
  induction d with
  | nil => simp [addToSet, relOfServermap]
  | cons e rest ih =>
    obtain ⟨k', ss⟩ := e
    unfold addToSet
    have hcons : ∀ (a : Nat × List Nat) (l : SetMap), (p, s) ∈ relOfServermap (a :: l) ↔
        (p = a.1 ∧ s ∈ a.2) ∨ (p, s) ∈ relOfServermap l := by
      intro a l
      simp only [relOfServermap, List.flatMap_cons, List.mem_append, List.mem_map, Prod.mk.injEq]
      constructor
      · rintro (⟨y, hy, rfl, rfl⟩ | h)
        · left; exact ⟨rfl, hy⟩
        · right; exact h
      · rintro (⟨rfl, hy⟩ | h)
        · left; exact ⟨s, hy, rfl, rfl⟩
        · right; exact h
    split
    · rename_i heq; subst heq
      rw [hcons, hcons]
      simp only [mem_sinsert]
      constructor
      · rintro (⟨h1, h2 | h2⟩ | h)
        · left; exact ⟨h1, h2⟩
        · right; left; exact ⟨h1, h2⟩
        · right; right; exact h
      · rintro (⟨h1, h2⟩ | ⟨h1, h2⟩ | h)
        · left; exact ⟨h1, Or.inl h2⟩
        · left; exact ⟨h1, Or.inr h2⟩
        · right; exact h
    · rw [hcons, hcons, ih]
      constructor
      · rintro (h | h | h)
        · right; left; exact h
        · left; exact h
        · right; right; exact h
      · rintro (h | h | h)
        · right; left; exact h
        · left; exact h
        · right; right; exact h

theorem sharesByServer_eq_fold (m : SetMap) :
    sharesByServer m = (rel m).foldl (fun ret e => addToSet e.1 e.2 ret) [] := by
  unfold sharesByServer rel
  rw [List.foldl_flatMap]
  congr 1
  funext ret e
  rw [List.foldl_map]

theorem fold_addToSet (L : List (Nat × Nat)) (d : SetMap) (h : SbsInv d) :
    SbsInv (L.foldl (fun ret e => addToSet e.1 e.2 ret) d) ∧
    ∀ p s, (p, s) ∈ relOfServermap (L.foldl (fun ret e => addToSet e.1 e.2 ret) d) ↔
      (p, s) ∈ L ∨ (p, s) ∈ relOfServermap d := by
  induction L generalizing d with
  | nil => simp [h]
  | cons e rest ih =>
    simp only [List.foldl_cons]
    obtain ⟨i1, i2⟩ := ih (addToSet e.1 e.2 d) (addToSet_inv e.1 e.2 d h)
    refine ⟨i1, ?_⟩
    intro p s
    rw [i2 p s, addToSet_rel]
    obtain ⟨a, b⟩ := e
    simp only [List.mem_cons, Prod.mk.injEq]
    constructor
    · rintro (h | h | h)
      · left; right; exact h
      · left; left; exact h
      · right; exact h
    · rintro ((h | h) | h)
      · right; left; exact h
      · left; exact h
      · right; right; exact h

/-- `shares_by_server` yields a well-formed dict holding exactly the converse relation -/
theorem sharesByServer_spec (m : SetMap) :
    SbsInv (sharesByServer m) ∧ ∀ e, e ∈ relOfServermap (sharesByServer m) ↔ e ∈ rel m := by
  rw [sharesByServer_eq_fold]
  obtain ⟨h1, h2⟩ := fold_addToSet (rel m) [] ⟨by simp, by simp⟩
  refine ⟨h1, ?_⟩
  intro e
  obtain ⟨p, s⟩ := e
  rw [h2 p s]
  simp [relOfServermap]

theorem isMaxMatchingSize_congr {E E' : List (Nat × Nat)} (h : ∀ e, e ∈ E ↔ e ∈ E') (k : Nat) :
    IsMaxMatchingSize E k ↔ IsMaxMatchingSize E' k := by
  have hm : ∀ M, IsMatching E M ↔ IsMatching E' M := by
    intro M
    unfold IsMatching
    constructor
    · rintro ⟨a, b⟩; exact ⟨fun e he => (h e).mp (a e he), b⟩
    · rintro ⟨a, b⟩; exact ⟨fun e he => (h e).mpr (a e he), b⟩
  unfold IsMaxMatchingSize
  simp only [hm]

theorem isMaxMatchingSize_unique {E : List (Nat × Nat)} {k k' : Nat}
    (h : IsMaxMatchingSize E k) (h' : IsMaxMatchingSize E k') : k = k' := by
  obtain ⟨⟨M, hM, hl⟩, hmax⟩ := h
  obtain ⟨⟨M', hM', hl'⟩, hmax'⟩ := h'
  have := hmax M' hM'
  have := hmax' M hM
  omega

/-- `servers_of_happiness(sharemap)` is the size of a maximum matching of the server/share
relation of `sharemap`, for every list presentation of the dict and of its sets -/
theorem serversOfHappiness_spec (m : SetMap) :
    ∃ k : Nat, serversOfHappiness m = (k : Int) ∧ IsMaxMatchingSize (rel m) k := by
  unfold serversOfHappiness
  by_cases hm : m.isEmpty
  · simp only [hm, if_true]
    have : m = [] := by simpa using hm
    subst this
    refine ⟨0, rfl, ⟨[], ⟨by simp, List.Pairwise.nil⟩, rfl⟩, ?_⟩
    intro M hM
    cases M with
    | nil => simp
    | cons a _ => have := hM.1 a (by simp); simp [rel] at this
  · simp only [hm]
    obtain ⟨hinv, hrel⟩ := sharesByServer_spec m
    obtain ⟨k, hk1, hk2⟩ := sohOfServermap_spec (sharesByServer m) hinv.1
      (fun e he => nodup_of_sorted _ (hinv.2 e he))
    exact ⟨k, by simpa using hk1, (isMaxMatchingSize_congr hrel k).mp hk2⟩

end Tahoe.Happiness
